#!/usr/bin/env python3
"""Development aid: rename_locals.py <tree> [suffix] - rename every local variable (not parameters) of every function of
<tree>/src/flowmark by appending a suffix, consistently in the function and the closures nested in it. Behaviour-preserving
by construction (checked by the project's test suite); used to look for rules that hang on the name of a local."""
import ast, sys, symtable
from pathlib import Path
root = Path(sys.argv[1]) / "src" / "flowmark"
suffix = sys.argv[2] if len(sys.argv) > 2 else "_q"
total = 0
for f in sorted(root.rglob("*.py")):
    src = f.read_text()
    tree = ast.parse(src)
    edits: list[tuple[int, int, int, str]] = []  # (lineno, col, endcol, new)

    def process(fn, inherited: dict[str, str]):
        global total
        a = fn.args
        params = {x.arg for x in a.posonlyargs + a.args + a.kwonlyargs} | ({a.vararg.arg} if a.vararg else set()) | ({a.kwarg.arg} if a.kwarg else set())
        declared = set()
        stored = set()
        def scan(node, top=True):
            for ch in ast.iter_child_nodes(node):
                if isinstance(ch, (ast.FunctionDef, ast.AsyncFunctionDef, ast.Lambda, ast.ClassDef)):
                    if isinstance(ch, (ast.FunctionDef, ast.AsyncFunctionDef, ast.ClassDef)):
                        stored.add(("def", ch.name))
                    continue
                if isinstance(ch, (ast.Global, ast.Nonlocal)):
                    declared.update(ch.names)
                if isinstance(ch, ast.Name) and isinstance(ch.ctx, (ast.Store, ast.Del)):
                    stored.add(("var", ch.id))
                if isinstance(ch, (ast.ListComp, ast.SetComp, ast.DictComp, ast.GeneratorExp)):
                    # comprehension targets live in their own scope: leave them alone, but scan the iterables
                    for g in ch.generators:
                        scan(g.iter, False)
                    continue
                if isinstance(ch, (ast.Import, ast.ImportFrom)):
                    for al in ch.names:
                        declared.add((al.asname or al.name).split(".")[0])
                if isinstance(ch, ast.ExceptHandler) and ch.name:
                    declared.add(ch.name)
                scan(ch, False)
        scan(fn)
        locals_ = {n for k, n in stored if k == "var"} - params - declared - {"_", "__"}
        mapping = dict(inherited)
        for p in params:
            mapping.pop(p, None)
        for n in {n for k, n in stored if k == "def"}:
            mapping.pop(n, None)
        for n in locals_:
            mapping[n] = n + suffix
        total += len(locals_)
        def rewrite(node):
            for ch in ast.iter_child_nodes(node):
                if isinstance(ch, ast.Nonlocal):
                    new_names = [mapping.get(nm, nm) for nm in ch.names]
                    if new_names != ch.names:
                        edits.append((ch.lineno, ch.col_offset, ch.end_col_offset, "nonlocal " + ", ".join(new_names)))
                    continue
                if isinstance(ch, (ast.FunctionDef, ast.AsyncFunctionDef)):
                    # decorators / defaults evaluate in this scope
                    for d in ch.decorator_list + ch.args.defaults + [x for x in ch.args.kw_defaults if x is not None]:
                        rewrite_expr(d)
                    process(ch, mapping)
                    continue
                if isinstance(ch, ast.Lambda):
                    lp = {x.arg for x in ch.args.posonlyargs + ch.args.args + ch.args.kwonlyargs}
                    saved = {k: mapping.pop(k) for k in list(mapping) if k in lp}
                    rewrite(ch)
                    mapping.update(saved)
                    continue
                if isinstance(ch, ast.ClassDef):
                    continue
                if isinstance(ch, (ast.ListComp, ast.SetComp, ast.DictComp, ast.GeneratorExp)):
                    tnames = {x.id for g in ch.generators for x in ast.walk(g.target) if isinstance(x, ast.Name)}
                    saved = {k: mapping.pop(k) for k in list(mapping) if k in tnames}
                    rewrite(ch)
                    mapping.update(saved)
                    continue
                if isinstance(ch, ast.Name) and ch.id in mapping:
                    edits.append((ch.lineno, ch.col_offset, ch.end_col_offset, mapping[ch.id]))
                rewrite(ch)
        def rewrite_expr(e):
            if isinstance(e, ast.Name) and e.id in mapping:
                edits.append((e.lineno, e.col_offset, e.end_col_offset, mapping[e.id]))
            rewrite(e)
        for st in fn.body:
            if isinstance(st, ast.Name):
                continue
            rewrite(ast.Module(body=[st], type_ignores=[]))

    for node in tree.body:
        if isinstance(node, (ast.FunctionDef, ast.AsyncFunctionDef)):
            process(node, {})
        elif isinstance(node, ast.ClassDef):
            for m in ast.walk(node):
                if isinstance(m, (ast.FunctionDef, ast.AsyncFunctionDef)) and any(m in c.body for c in ast.walk(node) if isinstance(c, ast.ClassDef)):
                    process(m, {})
    lines = src.split("\n")
    # ast column offsets are utf-8 byte offsets
    for ln, c0, c1, new in sorted(set(edits), reverse=True):
        b = lines[ln - 1].encode("utf-8")
        lines[ln - 1] = (b[:c0] + new.encode() + b[c1:]).decode("utf-8")
    f.write_text("\n".join(lines))
print("locals renamed:", total)
