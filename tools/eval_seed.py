#!/usr/bin/env python3
"""Evaluate a seeded change: eval_seed.py <dir with patch.diff + demo.py> [--props C01,C04]
1. scratch copy of /repo HEAD; demo passes on it; apply patch; 302 tests pass; demo fails.
2. every check (quick) is run against the patched copy; prints which fire.
The scratch copy is removed at the end."""
import json, os, shutil, subprocess, sys, tempfile
d = os.path.abspath(sys.argv[1])
props = None
if "--props" in sys.argv:
    props = sys.argv[sys.argv.index("--props") + 1].split(",")
ALL = [f"C{i:02d}" for i in range(1, 19) if i != 2]
tmp = tempfile.mkdtemp(prefix="fm_seed_")
res = {"dir": d}
try:
    subprocess.run(f"git -C /repo archive HEAD | tar -x -C {tmp}", shell=True, check=True)
    env = dict(os.environ, PYTHONPATH=f"{tmp}/src")
    def demo():
        r = subprocess.run(["/venv/bin/python", os.path.join(d, "demo.py")], env=env, cwd=tmp, capture_output=True, text=True, timeout=600)
        return r.returncode, (r.stdout + r.stderr)[-400:]
    res["demo_clean_rc"] = demo()[0]
    ap = subprocess.run(["git", "apply", "--directory", tmp, "--unsafe-paths", os.path.join(d, "patch.diff")], cwd=tmp, capture_output=True, text=True)
    if ap.returncode != 0:
        ap = subprocess.run(["patch", "-p1", "-d", tmp, "-i", os.path.join(d, "patch.diff")], capture_output=True, text=True)
    res["apply_rc"] = ap.returncode
    if ap.returncode != 0:
        res["apply_err"] = (ap.stdout + ap.stderr)[-300:]
    else:
        t = subprocess.run(["/venv/bin/python", "-m", "pytest", "-q", "-p", "no:cacheprovider", "-n", "8", "-x"], env=env, cwd=tmp, capture_output=True, text=True)
        res["tests"] = t.stdout.strip().splitlines()[-1] if t.stdout.strip() else t.stderr[-200:]
        rc, out = demo()
        res["demo_patched_rc"] = rc
        res["demo_patched_tail"] = out[-200:]
        fired = {}
        cenv = dict(os.environ, FLOWMARK_REPO=tmp, VERIF_NO_EVIDENCE="1")
        for p in (props or ALL):
            r = subprocess.run(["/verif/check", p], env=cenv, capture_output=True, text=True)
            if r.returncode != 0:
                lines = [l.strip()[:260] for l in r.stdout.splitlines() if "[R-" in l and not l.startswith("KNOWN")] or [l[:200] for l in r.stdout.splitlines() if "ANALYSIS" in l]
                fired[p] = {"rc": r.returncode, "reports": lines[:4]}
        res["fired"] = fired
finally:
    shutil.rmtree(tmp, ignore_errors=True)
print(json.dumps(res, indent=1))
