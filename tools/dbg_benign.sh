#!/bin/bash
# dbg_benign.sh <seed dir> <PROP> : apply the patch to a scratch export, run the check verbosely (failures only), clean up
d=$(realpath $1); p=$2; t=$(mktemp -d /tmp/fm_dbg_XXXX)
git -C /repo archive HEAD | tar -x -C $t
(cd $t && git apply --unsafe-paths --directory $t $d/patch.diff 2>/dev/null || patch -p1 -s -f -d $t -i $d/patch.diff)
FLOWMARK_REPO=$t VERIF_NO_EVIDENCE=1 /verif/check $p 2>&1 | grep -vE "^KNOWN|^  ok" | cut -c1-${3:-420}
rm -rf $t
