#!/usr/bin/env python3
"""Generate MANIFEST.json from the table below (single source of truth for the interface)."""
import importlib, json, os, sys
sys.path.insert(0, os.path.dirname(os.path.dirname(os.path.abspath(__file__))))
from sa.props import REGISTRY, NOT_APPLICABLE  # noqa: E402

BASELINE = "cd /repo && /venv/bin/python -m pytest -ra -q -p no:cacheprovider --timeout=900 --continue-on-collection-errors"
checks = []
for pid, meta in sorted(REGISTRY.items()):
    checks.append({
        "property_id": pid,
        "quick_cmd": f"./check {pid}",
        "thorough_cmd": f"./check {pid} --thorough",
        "evidence_file": f"/verif/evidence/{pid}.json",
        "replay_cmd_template": f"./check {pid} --replay {{path}}",
        "engine": "sa",
        "level_claimed": {"category": "other", "text": meta["level"], "design_ref": meta.get("design_ref", "DESIGN.md §4")},
        "level_note": meta["note"],
        "technique": meta["technique"],
    })
m = {
    "version": 1,
    "setup_cmd": "true",
    "hooks": {
        "guard": "FLOWMARK_VERIF",
        "enable": "no hooks: the checks read /repo's source and never execute it, so nothing in /repo is instrumented",
        "baseline_off_cmd": BASELINE,
        "source_commits": [],
        "add_only": True,
    },
    "engines": [{
        "name": "sa", "path": "/verif/sa", "serves_properties": sorted(REGISTRY),
        "kind_free_text": "repository-specific static analyser (Python ast; statement CFG, dominance/path queries, reaching "
                          "definitions, backward slicing with interprocedural summaries, identity-origin tracking, call graph, "
                          "argparse model, marko element model, regex automata). stdlib only; never imports flowmark.",
    }],
    "checks": checks,
    "notes": "Every claim is clause-level: the check decides the structural necessary conditions named in level_claimed.text, "
             "not the whole behavioural property (see DESIGN.md §4). Exit 0 ok / 1 VIOLATION / 2 ANALYSIS-ERROR (cannot decide).",
    "not_applicable": [{"property_id": k, "reason": v} for k, v in sorted(NOT_APPLICABLE.items())],
}
out = os.path.join(os.path.dirname(os.path.dirname(os.path.abspath(__file__))), "MANIFEST.json")
json.dump(m, open(out, "w"), indent=1)
print("wrote", out, len(checks), "checks")
