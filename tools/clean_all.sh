#!/bin/bash
# all 17 checks on the clean tree; prints only the ones that are not "violations=0 / rc 0"
cd /verif
for p in C01 C03 C04 C05 C06 C07 C08 C09 C10 C11 C12 C13 C14 C15 C16 C17 C18; do
  out=$(VERIF_NO_EVIDENCE=1 ./check $p 2>&1); rc=$?
  [ $rc -ne 0 ] && echo "$p rc=$rc: $(echo "$out" | grep -v '^KNOWN' | tail -3)"
done
echo "clean-tree run done"
