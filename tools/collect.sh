#!/bin/bash
# collect.sh <name> : gather the outputs of agent worktree /tmp/seed_<name> into /verif/seeded, evaluate, remove the worktree
n=$1; w=/tmp/seed_$n; cd /verif
if [[ $n == R* ]]; then
  for i in 1 2 3 4 5; do
    [ -f $w/_out/R$i/patch.diff ] || { echo "missing $w/_out/R$i/patch.diff"; continue; }
    mkdir -p seeded/benign/$n-R$i; cp $w/_out/R$i/patch.diff seeded/benign/$n-R$i/; cp $w/_out/R$i/notes.md seeded/benign/$n-R$i/ 2>/dev/null
    python3 tools/eval_benign.py seeded/benign/$n-R$i | python3 -c "
import json,sys
r=json.load(sys.stdin); a=r.get('alarms',{})
print('$n-R$i', r.get('apply_rc'), r.get('tests'), 'ok' if not a else {k:(v['rc'],[x.split(']')[0][-22:]+'] '+x.split('::',1)[-1][:90] for x in v['reports'][:3]]) for k,v in a.items()})"
  done
else
  for v in A B; do
    [ -f $w/_out/$v/patch.diff ] || { echo "missing $w/_out/$v/patch.diff"; continue; }
    mkdir -p seeded/$n-$v; cp $w/_out/$v/* seeded/$n-$v/ 2>/dev/null
    python3 tools/eval_seed.py seeded/$n-$v 2>/dev/null | python3 -c "
import json,sys
d=json.load(sys.stdin); print('$n-$v', 'clean_demo', d.get('demo_clean_rc'), 'apply', d.get('apply_rc'), d.get('tests'), 'demo', d.get('demo_patched_rc'), {k:v['rc'] for k,v in d['fired'].items() if v['rc']})"
  done
fi
git -C /repo worktree remove --force $w 2>/dev/null; git -C /repo worktree prune; rm -rf $w ${w}_* 2>/dev/null
