#!/usr/bin/env python3
"""Development aid: rename_privates.py <tree> - rename every private identifier *defined* in <tree>/src/flowmark (functions,
methods, classes, module constants, self attributes, starting with one underscore) by appending a suffix, everywhere in the
package. A behaviour-preserving change by construction; used to look for rules that still hang on a private name."""
import ast, re, sys
from pathlib import Path
root = Path(sys.argv[1]) / "src" / "flowmark"
suffix = sys.argv[2] if len(sys.argv) > 2 else "_zz"
names: set[str] = set()
files = list(root.rglob("*.py"))
for f in files:
    tree = ast.parse(f.read_text())
    for n in ast.walk(tree):
        if isinstance(n, (ast.FunctionDef, ast.AsyncFunctionDef, ast.ClassDef)) and re.fullmatch(r"_[A-Za-z][A-Za-z0-9_]*", n.name) and not n.name.endswith("__"):
            names.add(n.name)
        if isinstance(n, (ast.Assign, ast.AnnAssign)):
            tgts = n.targets if isinstance(n, ast.Assign) else [n.target]
            for t in tgts:
                for x in ast.walk(t):
                    if isinstance(x, ast.Name) and re.fullmatch(r"_[A-Za-z][A-Za-z0-9_]*", x.id):
                        names.add(x.id)
                    if isinstance(x, ast.Attribute) and isinstance(x.value, ast.Name) and x.value.id == "self" and re.fullmatch(r"_[A-Za-z][A-Za-z0-9_]*", x.attr):
                        names.add(x.attr)
names -= {"_", "_T"}
# names that belong to a dependency's protocol (overridden hooks of marko) are not the package's to rename
import glob
dep = "".join(open(g).read() for g in glob.glob("/venv/lib/python3*/site-packages/marko/**/*.py", recursive=True))
names = {n for n in names if not re.search(r"(?<![A-Za-z0-9_])" + re.escape(n) + r"(?![A-Za-z0-9_])", dep)}
pat = re.compile(r"(?<![A-Za-z0-9_])(" + "|".join(sorted(map(re.escape, names), key=len, reverse=True)) + r")(?![A-Za-z0-9_])")
for f in files:
    s = f.read_text()
    f.write_text(pat.sub(lambda m: m.group(1) + suffix, s))
print(len(names), "private names renamed:", " ".join(sorted(names))[:3000])
