#!/bin/bash
# run eval_benign over all seeded/benign/* in parallel; print one line per refactor
cd /verif
ls -d seeded/benign/R*-R* | xargs -P 8 -I{} sh -c 'python3 tools/eval_benign.py {} --no-tests > /tmp/benign_$(basename {}).json 2>&1'
for f in /tmp/benign_R*.json; do python3 - "$f" <<'PY'
import json,sys,os
try:
    r=json.load(open(sys.argv[1]))
    a=r.get("alarms",{})
    print(os.path.basename(r["dir"]), "ok" if not a else {k:(v["rc"],[x.split("]")[0][-22:]+"] "+x.split("::",1)[-1][:70] for x in v["reports"][:4]]) for k,v in a.items()})
except Exception as e: print(sys.argv[1], "ERR", e)
PY
done
rm -f /tmp/benign_R*.json
