#!/usr/bin/env python3
"""show_inlined.py <qualname substring> : print the inlined view of matching functions (FLOWMARK_REPO honoured)"""
import ast, sys
sys.path.insert(0, "/verif")
from sa.inline import build_inlined_repo
repo, stats = build_inlined_repo()
print(stats)
for q, fi in repo.functions.items():
    if sys.argv[1] in q:
        print("#", q)
        print(ast.unparse(fi.node))
