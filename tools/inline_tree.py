#!/usr/bin/env python3
"""inline_tree.py <scratch dir with a copy of the repo> [keep,quals] : overwrite the sources in the scratch copy with the fully inlined view.
Development aid for the inliner itself: the result must still pass the project's test suite (it does: 302 passed) - never part of a check."""
import ast, os, sys, shutil
sys.path.insert(0, "/verif")
from sa.inline import build_inlined_repo
keep=set(sys.argv[2].split(",")) if len(sys.argv)>2 and sys.argv[2] else set()
repo, stats = build_inlined_repo(keep=keep)
out=sys.argv[1]
for name, m in repo.modules.items():
    rel=os.path.relpath(str(m.path), str(repo.root))
    p=os.path.join(out, rel); os.makedirs(os.path.dirname(p), exist_ok=True)
    open(p,"w").write(ast.unparse(m.tree)+"\n")
print(stats)
