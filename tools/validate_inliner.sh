#!/bin/bash
# validate_inliner.sh : for the clean tree and every agent-made refactor, build the fully inlined tree and run the project's
# test suite on it (development aid for sa/inline.py: the normalised view must be an equivalent program)
cd /verif
one() {
  d=$1; t=$(mktemp -d /tmp/fm_inl_XXXX); git -C /repo archive HEAD | tar -x -C $t
  if [ -n "$d" ]; then (cd $t && patch -p1 -s -f -i /verif/$d/patch.diff) || { echo "$d: patch failed"; rm -rf $t; return; }; fi
  FLOWMARK_REPO=$t /venv/bin/python tools/inline_tree.py $t "" > $t/inl.log 2>&1 || { echo "${d:-clean}: inliner crashed: $(tail -1 $t/inl.log)"; rm -rf $t; return; }
  r=$(cd $t && PYTHONPATH=$t/src /venv/bin/python -m pytest -q -p no:cacheprovider -x -n 4 2>&1 | tail -1)
  echo "${d:-clean}: $(grep -o "'inlined_calls': [0-9]*" $t/inl.log) $r"
  rm -rf $t
}
export -f one
one ""
ls -d seeded/benign/R*-R* | xargs -P 4 -I{} bash -c 'one "{}"'
