#!/usr/bin/env python3
"""Ad-hoc mutation probe: trymut.py <PROP[,PROP]> <relpath under src/flowmark> <old> <new> [count]
Copies /repo/src to a scratch dir, replaces text, runs ./check with FLOWMARK_REPO, removes the copy."""
import os, shutil, subprocess, sys, tempfile
props, rel, old, new = sys.argv[1:5]
cnt = int(sys.argv[5]) if len(sys.argv) > 5 else 1
tmp = tempfile.mkdtemp(prefix="fm_mut_")
try:
    shutil.copytree("/repo/src", os.path.join(tmp, "src"))
    p = os.path.join(tmp, "src", "flowmark", rel)
    s = open(p).read()
    if old not in s:
        print("OLD TEXT NOT FOUND"); sys.exit(3)
    s = s.replace(old, new, cnt)
    open(p, "w").write(s)
    import ast; ast.parse(s)
    env = dict(os.environ, FLOWMARK_REPO=tmp, VERIF_NO_EVIDENCE="1")
    for prop in props.split(","):
        r = subprocess.run(["/verif/check", prop], env=env, capture_output=True, text=True)
        lines = [l for l in r.stdout.splitlines() if not l.startswith("  ok")]
        print(f"--- {prop} rc={r.returncode}")
        print("\n".join(lines[-12:]))
        if r.stderr.strip(): print(r.stderr[-800:])
finally:
    shutil.rmtree(tmp, ignore_errors=True)
