#!/usr/bin/env python3
"""eval_benign.py <dir with patch.diff> : apply a behaviour-preserving refactor to a scratch export of /repo HEAD,
run the pinned suite and all 17 checks; print every check whose exit status differs from the clean tree's (0)."""
import json, os, shutil, subprocess, sys, tempfile
d = os.path.abspath(sys.argv[1])
ALL = [f"C{i:02d}" for i in range(1, 19) if i != 2]
tmp = tempfile.mkdtemp(prefix="fm_benign_")
res = {"dir": d}
try:
    subprocess.run(f"git -C /repo archive HEAD | tar -x -C {tmp}", shell=True, check=True)
    ap = subprocess.run(["git", "apply", "--directory", tmp, "--unsafe-paths", os.path.join(d, "patch.diff")], cwd=tmp, capture_output=True, text=True)
    if ap.returncode != 0:
        ap = subprocess.run(["patch", "-p1", "-s", "-f", "-d", tmp, "-i", os.path.join(d, "patch.diff")], capture_output=True, text=True)
    res["apply_rc"] = ap.returncode
    if ap.returncode == 0:
        env = dict(os.environ, PYTHONPATH=f"{tmp}/src")
        if "--no-tests" not in sys.argv:
            t = subprocess.run(["/venv/bin/python", "-m", "pytest", "-q", "-p", "no:cacheprovider", "-n", "8", "-x"], env=env, cwd=tmp, capture_output=True, text=True)
            res["tests"] = t.stdout.strip().splitlines()[-1] if t.stdout.strip() else t.stderr[-200:]
        alarms = {}
        cenv = dict(os.environ, FLOWMARK_REPO=tmp, VERIF_NO_EVIDENCE="1")
        for p in ALL:
            r = subprocess.run(["/verif/check", p], env=cenv, capture_output=True, text=True)
            if r.returncode != 0:
                lines = [l.strip()[:300] for l in r.stdout.splitlines() if ("[R-" in l and not l.startswith("KNOWN")) or "ANALYSIS" in l]
                alarms[p] = {"rc": r.returncode, "reports": lines[:5]}
        res["alarms"] = alarms
finally:
    shutil.rmtree(tmp, ignore_errors=True)
print(json.dumps(res, indent=1))
