#!/usr/bin/env python3
"""Evaluate every seeded change under /verif/seeded and (re)write its meta.json; print the detection matrix."""
import json, os, subprocess, sys
from concurrent.futures import ThreadPoolExecutor
ROOT = "/verif/seeded"
NEEDS = json.load(open(os.path.join(ROOT, "needs.json"))) if os.path.exists(os.path.join(ROOT, "needs.json")) else {}
def one(name):
    d = os.path.join(ROOT, name)
    r = subprocess.run([sys.executable, "/verif/tools/eval_seed.py", d], capture_output=True, text=True)
    try:
        res = json.loads(r.stdout)
    except Exception:
        res = {"error": (r.stdout + r.stderr)[-400:]}
    return name, res
names = sorted(n for n in os.listdir(ROOT) if os.path.isdir(os.path.join(ROOT, n)))
with ThreadPoolExecutor(max_workers=6) as ex:
    results = list(ex.map(one, names))
rows = []
for name, res in results:
    prop = name.split("-")[0].rstrip("bcdefgh")
    fired = res.get("fired", {})
    detected = [p for p, v in fired.items() if v["rc"] == 1]
    errors = [p for p, v in fired.items() if v["rc"] == 2]
    meta = {
        "id": name, "breaks_property": prop,
        "needs_to_manifest": NEEDS.get(name, {}).get("needs", "see notes.md"),
        "change": NEEDS.get(name, {}).get("change", "see notes.md"),
        "confirmed": {
            "how": "tools/eval_seed.py: scratch export of /repo HEAD; demo.py on the clean copy; git apply patch.diff; pinned suite; demo.py again",
            "demo_on_clean_tree_rc": res.get("demo_clean_rc"), "patch_applies": res.get("apply_rc") == 0,
            "suite_with_patch": res.get("tests"), "demo_with_patch_rc": res.get("demo_patched_rc"),
        },
        "checks_reporting_a_violation": {p: fired[p]["reports"][:2] for p in detected},
        "checks_ending_in_analysis_error": errors,
        "caught_by_target_property_check": prop in detected,
        "caught_by_any_check": bool(detected),
        "disposition": NEEDS.get(name, {}).get("disposition", ""),
    }
    json.dump(meta, open(os.path.join(ROOT, name, "meta.json"), "w"), indent=1, ensure_ascii=False)
    rows.append((name, meta["confirmed"]["suite_with_patch"], meta["confirmed"]["demo_with_patch_rc"], detected, errors))
for r in rows:
    print(f"{r[0]:8} tests={str(r[1])[:10]:10} demo_rc={r[2]} detected={','.join(r[3]) or '-':30} errors={','.join(r[4]) or '-'}")
print("caught by target check:", sum(1 for n, *_r in rows if n.split("-")[0].rstrip("bcdefgh") in _r[2]), "/", len(rows), " by any:", sum(1 for r in rows if r[3]))
