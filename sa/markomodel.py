"""Static model of the marko element classes the flowmark parser can instantiate.

Read from the *source text* of the installed marko (block.py, inline.py, ext/gfm, ext/footnote) and from the
repository's parser set-up code (CustomParser.__init__, FlowmarkMarkdown._setup_extensions). Nothing is imported.
"""

from __future__ import annotations

import ast
import re
from dataclasses import dataclass, field

from .cfg import walk_no_nested
from .loader import AnalysisError, ClassInfo, FuncInfo, Repo, site_packages

MARKO_FILES = {
    "marko.block": "block.py",
    "marko.inline": "inline.py",
    "marko.ext.gfm.elements": "ext/gfm/elements.py",
    "marko.ext.footnote": "ext/footnote.py",
    "marko.element": "element.py",
}


@dataclass(eq=False)
class MClass:
    module: str
    name: str
    node: ast.ClassDef
    bases: list[str]  # dotted names, resolved within marko
    class_attrs: dict[str, ast.AST | None] = field(default_factory=dict)
    init_attrs: set[str] = field(default_factory=set)  # self.X stores in own methods
    repo_cls: ClassInfo | None = None

    @property
    def qual(self) -> str:
        return f"{self.module}.{self.name}"


@dataclass
class Registered:
    type_name: str  # Element.get_type()
    render_name: str  # render_<snake>
    cls: MClass
    kind: str  # "block" | "inline"
    origin: str  # where it was registered from


def camel_to_snake_case(name: str) -> str:
    # re-implementation of marko.helpers.camel_to_snake_case (checked against its source in `load`)
    pattern = r"[A-Z][a-z]+|[A-Z]+(?![a-z])"
    return "_".join(map(str.lower, re.findall(pattern, name)))


class MarkoModel:
    def __init__(self, repo: Repo) -> None:
        self.repo = repo
        self.sp = site_packages() / "marko"
        self.trees: dict[str, ast.Module] = {}
        self.classes: dict[str, MClass] = {}
        self._load()
        self.registered: list[Registered] = []
        self._register()

    # ---------------------------------------------------------------- loading
    def _load(self) -> None:
        for mod, rel in MARKO_FILES.items():
            p = self.sp / rel
            try:
                self.trees[mod] = ast.parse(p.read_text())
            except (OSError, SyntaxError) as e:
                raise AnalysisError(f"cannot read marko source {p}: {e}") from e
        helpers = (self.sp / "helpers.py").read_text()
        if 'pattern = r"[A-Z][a-z]+|[A-Z]+(?![a-z])"' not in helpers:
            raise AnalysisError("marko.helpers.camel_to_snake_case no longer matches the re-implementation used for dispatch names")
        for mod, tree in self.trees.items():
            aliases = {"block": "marko.block", "inline": "marko.inline", "helpers": "marko.helpers"}
            local_names = {c.name for c in tree.body if isinstance(c, ast.ClassDef)}
            for st in tree.body:
                if isinstance(st, ast.ImportFrom):
                    for al in st.names:
                        src = st.module or ""
                        if st.level:
                            base = mod.rsplit(".", st.level)[0] if st.level <= mod.count(".") else "marko"
                            src = f"{base}.{src}" if src else base
                        aliases[al.asname or al.name] = f"{src}.{al.name}"
            for c in tree.body:
                if not isinstance(c, ast.ClassDef):
                    continue
                bases = []
                for b in c.bases:
                    txt = ast.unparse(b)
                    head = txt.split(".")[0].split("[")[0]
                    if head in local_names and "." not in txt:
                        bases.append(f"{mod}.{txt}")
                    elif head in aliases:
                        bases.append(aliases[head] + txt[len(head):])
                    else:
                        bases.append(txt)
                mc = MClass(mod, c.name, c, bases)
                for st in c.body:
                    if isinstance(st, ast.Assign):
                        for t in st.targets:
                            if isinstance(t, ast.Name):
                                mc.class_attrs[t.id] = st.value
                    elif isinstance(st, ast.AnnAssign) and isinstance(st.target, ast.Name) and st.value is not None:
                        mc.class_attrs[st.target.id] = st.value
                    elif isinstance(st, ast.FunctionDef):
                        first = st.args.args[0].arg if st.args.args else None
                        for n in ast.walk(st):
                            if isinstance(n, ast.Attribute) and isinstance(n.ctx, ast.Store) and isinstance(n.value, ast.Name):
                                if n.value.id == first and st.name == "__init__":
                                    mc.init_attrs.add(n.attr)
                                elif st.name == "parse" and n.value.id in ("state", "rv", "self"):
                                    mc.init_attrs.add(n.attr)
                self.classes[mc.qual] = mc

    def mro(self, mc: MClass) -> list[MClass]:
        out: list[MClass] = []
        stack = [mc]
        seen = set()
        while stack:
            c = stack.pop(0)
            if c.qual in seen:
                continue
            seen.add(c.qual)
            out.append(c)
            for b in c.bases:
                if b in self.classes:
                    stack.append(self.classes[b])
        return out

    def is_inline(self, mc: MClass) -> bool:
        return any(c.qual == "marko.inline.InlineElement" for c in self.mro(mc))

    def class_attr(self, mc: MClass, name: str) -> ast.AST | None:
        for c in self.mro(mc):
            if name in c.class_attrs:
                return c.class_attrs[name]
        return None

    def all_attrs(self, mc: MClass) -> set[str]:
        out: set[str] = set()
        for c in self.mro(mc):
            out |= c.init_attrs
        return out

    def get_type(self, mc: MClass) -> str:
        """Element.get_type(): the base class name when `override` is set and the base is not Block/InlineElement."""
        if mc.repo_cls is not None:
            gt = mc.repo_cls.methods.get("get_type")
            if gt is not None:
                # the CamelCase name among the strings the method can *return* (docstrings and comments do not count)
                consts = sorted({n.value for r in ast.walk(gt.node) if isinstance(r, ast.Return) and r.value is not None
                                 for n in ast.walk(r.value) if isinstance(n, ast.Constant) and isinstance(n.value, str)
                                 and n.value and n.value[0].isupper()})
                if len(consts) == 1:
                    return consts[0]
                raise AnalysisError(f"get_type override of {mc.repo_cls.qual} not understood")
        ov = self.class_attr(mc, "override")
        is_ov = isinstance(ov, ast.Constant) and ov.value is True
        if is_ov and mc.bases:
            base = mc.bases[0]
            if base not in ("marko.block.BlockElement", "marko.inline.InlineElement") and base in self.classes:
                return self.classes[base].name
        return mc.name

    # ------------------------------------------------------------ registration
    def _wrap_repo_class(self, ci: ClassInfo) -> MClass:
        bases = []
        for b in self.repo.class_bases(ci):
            bases.append(b.qual if isinstance(b, ClassInfo) else str(b))
        mc = MClass(ci.module.name, ci.name, ci.node, [self._norm_base(b) for b in bases], repo_cls=ci)
        for name, val in ci.class_attrs.items():
            mc.class_attrs[name] = val if isinstance(val, ast.expr) else None
        init = ci.methods.get("__init__")
        if init is not None:
            for n in ast.walk(init.node):
                if isinstance(n, ast.Attribute) and isinstance(n.ctx, ast.Store) and isinstance(n.value, ast.Name) and n.value.id == "self":
                    mc.init_attrs.add(n.attr)
        self.classes[mc.qual] = mc
        return mc

    def _norm_base(self, dotted: str) -> str:
        # marko.block.HTMLBlock may be imported as marko.block.HTMLBlock or marko.ext.gfm.elements.X etc.
        return dotted

    def _add(self, table: dict[str, Registered], mc: MClass, origin: str) -> None:
        t = self.get_type(mc)
        table[t] = Registered(t, "render_" + camel_to_snake_case(t), mc, "inline" if self.is_inline(mc) else "block", origin)

    def _register(self) -> None:
        repo = self.repo
        table: dict[str, Registered] = {}
        for mod in ("marko.block", "marko.inline"):
            tree = self.trees[mod]
            names = None
            for st in tree.body:
                if isinstance(st, ast.Assign) and any(isinstance(t, ast.Name) and t.id == "__all__" for t in st.targets):
                    names = [e.value for e in st.value.elts if isinstance(e, ast.Constant)]  # type: ignore[attr-defined]
            if not names:
                raise AnalysisError(f"{mod}.__all__ not found")
            for n in names:
                self._add(table, self.classes[f"{mod}.{n}"], f"{mod}.__all__")
        # repo: classes deriving from marko Parser that replace entries
        for ci in repo.classes.values():
            if "marko.parser.Parser" in repo.external_bases(ci):
                init = ci.methods.get("__init__")
                if init is None:
                    continue
                for n in walk_no_nested(init.node):
                    if isinstance(n, ast.Assign) and len(n.targets) == 1 and isinstance(n.targets[0], ast.Subscript):
                        sub = n.targets[0]
                        if isinstance(sub.value, ast.Attribute) and sub.value.attr in ("block_elements", "inline_elements") \
                                and isinstance(sub.slice, ast.Constant):
                            r = repo.resolve_expr(n.value, ci.module, init)
                            if not isinstance(r, ClassInfo):
                                raise AnalysisError(f"parser element replacement not understood: {ast.unparse(n)}")
                            mc = self._wrap_repo_class(r)
                            key = sub.slice.value
                            table[key] = Registered(key, "render_" + camel_to_snake_case(self.get_type(mc)), mc,
                                                    "inline" if self.is_inline(mc) else "block", f"{ci.qual}.__init__")
                            table[key].type_name = self.get_type(mc)
        # repo: extension loops in _setup_extensions
        se = [f for f in repo.functions.values() if f.name == "_setup_extensions"]
        if len(se) != 1:
            raise AnalysisError("anchor vanished: _setup_extensions of the Markdown subclass")
        se_f = se[0]
        loops = [n for n in walk_no_nested(se_f.node) if isinstance(n, ast.For)]
        n_ext = 0
        for loop in loops:
            it = loop.iter
            src = None
            dotted = repo.dotted_name(it, se_f.module, se_f) if isinstance(it, (ast.Name, ast.Attribute)) else None
            if dotted == "marko.ext.gfm.GFM.elements":
                src = "gfm"
            elif isinstance(it, ast.Attribute) and it.attr == "elements" and isinstance(it.value, ast.Call) \
                    and repo.dotted_name(it.value.func, se_f.module, se_f) == "marko.ext.footnote.make_extension":
                src = "footnote"  # for e in footnote.make_extension().elements
            elif isinstance(it, ast.Attribute) and it.attr == "elements" and isinstance(it.value, ast.Name):
                # footnote_ext = footnote.make_extension()
                for n in walk_no_nested(se_f.node):
                    if isinstance(n, ast.Assign) and isinstance(n.targets[0], ast.Name) and n.targets[0].id == it.value.id \
                            and isinstance(n.value, ast.Call):
                        d = repo.dotted_name(n.value.func, se_f.module, se_f)
                        if d == "marko.ext.footnote.make_extension":
                            src = "footnote"
            if src is None:
                continue
            n_ext += 1
            # replacements inside the loop: `if e is X: e = Y`
            repl: dict[str, ClassInfo] = {}
            for n in ast.walk(loop):
                if isinstance(n, ast.If) and isinstance(n.test, ast.Compare) and isinstance(n.test.ops[0], ast.Is):
                    d = repo.dotted_name(n.test.comparators[0], se_f.module, se_f)
                    for st in n.body:
                        if isinstance(st, ast.Assign):
                            r = repo.resolve_expr(st.value, se_f.module, se_f)
                            if isinstance(r, ClassInfo) and d:
                                repl[d] = r
            # ... or written as a conditional expression: Y if e is X else e
            for n in ast.walk(loop):
                if isinstance(n, ast.IfExp) and isinstance(n.test, ast.Compare) and len(n.test.ops) == 1 and isinstance(n.test.ops[0], ast.Is):
                    d = repo.dotted_name(n.test.comparators[0], se_f.module, se_f)
                    r = repo.resolve_expr(n.body, se_f.module, se_f) if isinstance(n.body, (ast.Name, ast.Attribute)) else None
                    if isinstance(r, ClassInfo) and d:
                        repl[d] = r

            def registers(call: ast.Call) -> bool:
                """parser.add_element(e), directly or through a helper of the package that does just that"""
                if isinstance(call.func, ast.Attribute) and call.func.attr == "add_element":
                    return True
                r = repo.resolve_expr(call.func, se_f.module, se_f) if isinstance(call.func, (ast.Name, ast.Attribute)) else None
                return isinstance(r, FuncInfo) and any(isinstance(x, ast.Call) and isinstance(x.func, ast.Attribute) and x.func.attr == "add_element"
                                                       for x in ast.walk(r.node))

            adds = [n for n in ast.walk(loop) if isinstance(n, ast.Call) and registers(n)]
            if not adds:
                raise AnalysisError("extension loop without add_element")
            for elname in self._extension_elements(src):
                mc = self.classes[elname]
                if elname in repl:
                    mc = self._wrap_repo_class(repl[elname])
                self._add(table, mc, f"{src} extension")
        if n_ext < 2:
            raise AnalysisError("anchor vanished: GFM / footnote element registration loops in _setup_extensions")
        self.registered = list(table.values())

    def _extension_elements(self, src: str) -> list[str]:
        if src == "gfm":
            tree = ast.parse((self.sp / "ext/gfm/__init__.py").read_text())
            for n in ast.walk(tree):
                if isinstance(n, ast.Call) and ast.unparse(n.func).endswith("MarkoExtension"):
                    for kw in n.keywords:
                        if kw.arg == "elements" and isinstance(kw.value, ast.List):
                            return ["marko.ext.gfm.elements." + ast.unparse(e).split(".")[-1] for e in kw.value.elts]
            raise AnalysisError("GFM.elements not found in marko/ext/gfm/__init__.py")
        tree = self.trees["marko.ext.footnote"]
        for n in ast.walk(tree):
            if isinstance(n, ast.FunctionDef) and n.name == "make_extension":
                for c in ast.walk(n):
                    if isinstance(c, ast.Call):
                        for kw in c.keywords:
                            if kw.arg == "elements" and isinstance(kw.value, ast.List):
                                return ["marko.ext.footnote." + ast.unparse(e) for e in kw.value.elts]
        raise AnalysisError("footnote.make_extension elements not found")
