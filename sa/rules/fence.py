"""R-FENCE (C04, C01): where a fenced code block ends.

CustomFencedCode.parse re-implements marko's FencedCode.parse (to keep the fence character and length). The two must agree
on the one decision that determines which lines are code: a line closes the block iff, *as read from the source*, it is at
most three spaces of indentation, a run of the opening fence's character at least as long as the opening run, and nothing
else. "As read" matters: the indentation of the opening fence is removed from code lines afterwards; testing the
de-indented line instead would let a fence-like line indented four or more columns (code, by CommonMark) close the block
of an indented opener.
"""

from __future__ import annotations

import ast
import re

from ..constfold import Folder, Unknown
from ..dataflow import origins, fmt_origin
from ..loader import AnalysisError
from ..report import Ctx
from .common import call_name, guard_atoms, norm, where

PARSE = "flowmark.formats.flowmark_markdown:CustomFencedCode.parse"


def _pattern_text(ctx: Ctx, fi, e: ast.AST) -> str | None:
    if isinstance(e, ast.Constant) and isinstance(e.value, str):
        return e.value
    if isinstance(e, ast.Attribute) and isinstance(e.value, ast.Name) and fi.cls is not None and fi.params and e.value.id in (fi.params[0], fi.cls.name) \
            and e.attr in fi.cls.class_attrs:
        # a pattern kept as a class attribute: cls._closing_fence_re = re.compile(...)
        try:
            v = Folder(ctx.repo).eval(fi.cls.class_attrs[e.attr], fi.module, {}, None)
        except Exception:  # noqa: BLE001
            return None
        return getattr(v, "pattern", v if isinstance(v, str) else None)
    if isinstance(e, (ast.Name, ast.Attribute)):
        r = ctx.repo.resolve_expr(e, fi.module, fi)
        if hasattr(r, "assigns"):
            try:
                v = Folder(ctx.repo).const(r.qual)
            except Unknown:
                return None
            return getattr(v, "pattern", v if isinstance(v, str) else None)
    return None


def check_fence_parse(ctx: Ctx) -> None:
    repo, prog = ctx.repo, ctx.prog
    fi = repo.func(PARSE)
    flow = prog.flow(fi)
    src = fi.params[1] if len(fi.params) > 1 else "source"
    loops = [h for h in flow.cfg.nodes if h.kind in ("test", "for") and flow.loop_body_nodes(h)]
    if not loops:
        raise AnalysisError(f"{PARSE}: the line-reading loop was not found")
    body = set().union(*(flow.loop_body_nodes(h) for h in loops))
    reads = [(n, c) for n, c in flow.all_calls() if n in body and isinstance(c.func, ast.Attribute) and c.func.attr == "next_line"
             and isinstance(c.func.value, ast.Name) and c.func.value.id == src]
    ctx.require("R-FENCE", "source.next_line() in the reading loop of CustomFencedCode.parse", len(reads), 1)
    raw = frozenset(o for n, c in reads for o in origins(prog, fi, c, n))
    # the closing test: a regex match in the loop whose pattern accepts a bare fence line
    tests = []
    for n, c in flow.all_calls():
        if n not in body:
            continue
        nm = call_name(prog, fi, c)
        subj = pat = None
        if nm in ("re.match", "re.fullmatch", "re.search") and len(c.args) >= 2:
            pat, subj = _pattern_text(ctx, fi, c.args[0]), c.args[1]
        elif isinstance(c.func, ast.Attribute) and c.func.attr in ("match", "fullmatch", "search") and c.args and nm not in ("re.match", "re.fullmatch", "re.search"):
            pat, subj = _pattern_text(ctx, fi, c.func.value), c.args[0]
        if pat is None or subj is None:
            continue
        try:
            if not (re.match(pat, "```", re.M) and re.match(pat, "~~~~", re.M)):
                continue
        except re.error:
            continue
        tests.append((n, c, pat, subj))
    ctx.require("R-FENCE", "closing-fence test in CustomFencedCode.parse", len(tests), 1)
    for n, c, pat, subj in tests:
        org = origins(prog, fi, subj, n)
        ctx.ob("R-FENCE", f"{fi.qual} :: the closing-fence test looks at the line as read", bool(org) and org <= raw,
               "whether a line closes the block is decided on the source line itself (at most three spaces of indentation, counted from the "
               "container): a line that was de-indented by the opening fence's own indentation first can pass the test although it is code; "
               "the tested string is " + ", ".join(sorted(fmt_origin(o) for o in org)), where(fi, c))
        ok3 = re.match(pat, "    ```", re.M) is None and re.match(pat, "   ```", re.M) is not None and re.match(pat, "``` x", re.M) is None
        ctx.ob("R-FENCE", f"{fi.qual} :: closing-fence pattern", ok3,
               f"a closing fence has at most three spaces of indentation and nothing after the run but blanks; the pattern is {pat!r}", where(fi, c))
    # the loop is left at a closing fence only when the run contains the opening run (same character, at least as long)
    for n in flow.cfg.nodes:  # (a `break` is not part of the natural loop it leaves)
        if n.kind == "stmt" and isinstance(n.ast, ast.Break):
            atoms = guard_atoms(prog, fi, n)
            m_names = {t.id for nn, c, _p, _s in tests for d in flow.defs_at.get(nn, []) for t in [ast.Name(id=d.var)]}
            by_match = [a for a, truth, _b in atoms if truth and isinstance(a, ast.Name) and a.id in m_names]
            if not by_match:
                continue  # another way out of the loop (end of input)
            ok = any(truth and isinstance(a, ast.Compare) and len(a.ops) == 1 and isinstance(a.ops[0], ast.In) and "leading" in norm(a.left)
                     and "group" in norm(a.comparators[0]) for a, truth, _b in atoms)
            ctx.ob("R-FENCE", f"{fi.qual} :: a run closes the block only if it contains the opening run", ok,
                   "``` inside a ````-fenced block (or ~~~ inside ```) is content: the closing run must contain the opening fence", where(fi, n))
