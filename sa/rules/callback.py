"""Regex replacement callbacks as string templates over the match groups.

`PATTERN.sub(callback, text)`: what the callback returns decides which characters of the match survive. The rules about
smart quotes and ellipses ("only the two quote characters change", "only whitespace around the dots is dropped") are rules
about those returned strings. Here a callback is evaluated path-sensitively (sa.decide.Decider) into the set of strings it
can return, each a flat sequence of parts:

    G(k)        the text of group k (k = 0: the whole match)
    "literal"   a constant
    UNKNOWN     anything else

under an assumption about which optional groups took part in the match (`m.group(2) is not None`). Groups may be read as
m.group(k), m[k], or by unpacking m.groups(); the result may be built by +, f-strings, temporaries, conditional
expressions and private helpers.
"""

from __future__ import annotations

import ast

from ..cfg import Node
from ..decide import UNKNOWN, Decider, Sym
from ..loader import FuncInfo


def G(k: int) -> Sym:
    return Sym(f"<g{k}>")


class Callback:
    """A resolved replacement callback: the function that receives the match, the name of its match parameter, and the
    values bound when the callback object was built (functools.partial arguments, constructor arguments of a callable
    class) as constant strings where they are constants."""

    def __init__(self, func: FuncInfo, mparam: str, bound: dict[str, object] | None = None, how: str = "function") -> None:
        self.func, self.mparam, self.bound, self.how = func, mparam, bound or {}, how

    @property
    def qual(self) -> str:
        return self.func.qual


def _const_str(prog, fi: FuncInfo, e: ast.AST):
    if isinstance(e, ast.Constant) and isinstance(e.value, str):
        return e.value
    if isinstance(e, ast.Name):
        from ..constfold import Folder, Unknown
        from ..loader import ConstInfo

        r = prog.repo.lookup(e.id, fi.module, fi)
        if isinstance(r, ConstInfo):
            try:
                v = Folder(prog.repo).const(r.qual)
            except Unknown:
                return None
            return v if isinstance(v, str) else None
    return None


def resolve_callback(prog, fi: FuncInfo, e: ast.AST, node: Node | None, depth: int = 0) -> Callback | None:
    """What a callable expression denotes: a (nested or module-level) function, functools.partial(f, ...), an instance of a
    class with __call__, or a local variable holding one of those."""
    from ..loader import ClassInfo

    if depth > 3:
        return None
    if isinstance(e, ast.Name):
        r = prog.repo.lookup(e.id, fi.module, fi)
        if isinstance(r, FuncInfo) and not isinstance(r.node, ast.Lambda) and r.params:
            return Callback(r, r.params[0])
        if node is not None:
            defs = prog.flow(fi).reaching(node, e.id)
            if len(defs) == 1 and defs[0].kind == "assign" and defs[0].value is not None:
                return resolve_callback(prog, fi, defs[0].value, defs[0].node, depth + 1)
        return None
    if isinstance(e, ast.Lambda) and len(e.args.args) == 1 and not e.args.kwonlyargs and not e.args.vararg and isinstance(e.body, ast.Call):
        # lambda m: helper(m, " ")  ==  partial(helper, sep=" ") with the match in the position the lambda passes it
        lam_p = e.args.args[0].arg
        inner = resolve_callback(prog, fi, e.body.func, node, depth + 1) if isinstance(e.body.func, (ast.Name, ast.Attribute)) else None
        if inner is not None and inner.how == "function":
            f = inner.func
            from ..dataflow import bind_call as _bind

            b = _bind(f, e.body)
            mparams = [p for p, a in b.items() if isinstance(a, ast.Name) and a.id == lam_p]
            if len(mparams) == 1:
                bound = {p: _const_str(prog, fi, a) for p, a in b.items() if p != mparams[0]}
                if all(v is not None for v in bound.values()):
                    return Callback(f, mparams[0], bound, "partial")
        return None
    if isinstance(e, ast.Attribute):
        # a bound method of an object of the package: obj.method
        rc = prog.receiver_class(fi, e.value)
        m = prog.repo.find_method(rc, e.attr) if rc is not None else None
        if m is not None and not isinstance(m.node, ast.Lambda) and len(m.params) >= 2 and not any(d.endswith(("staticmethod", "classmethod")) for d in m.decorators):
            return Callback(m, m.params[1], {}, "bound")
        return None
    if isinstance(e, ast.Call):
        nm = prog.resolve_call(fi, e)
        if nm in ("functools.partial", "partial") and e.args:
            inner = resolve_callback(prog, fi, e.args[0], node, depth + 1)
            if inner is None or inner.how != "function":
                return None
            f = inner.func
            bound: dict[str, object] = {}
            params = list(f.params)
            for p, a in zip(params, e.args[1:]):
                bound[p] = _const_str(prog, fi, a)
            for k in e.keywords:
                if k.arg:
                    bound[k.arg] = _const_str(prog, fi, k.value)
            rest = [p for p in params if p not in bound]
            if not rest:
                return None
            return Callback(f, rest[0], bound, "partial")
        r = prog.repo.resolve_expr(e.func, fi.module, fi) if isinstance(e.func, (ast.Name, ast.Attribute)) else None
        if isinstance(r, ClassInfo):
            call = prog.repo.find_method(r, "__call__")
            if call is None or len(call.params) < 2:
                return None
            # constructor arguments -> attributes (dataclass fields in order, or `self.x = x` in __init__)
            fields = [st.target.id for st in r.node.body if isinstance(st, ast.AnnAssign) and isinstance(st.target, ast.Name)]
            init = prog.repo.find_method(r, "__init__")
            names = fields
            if init is not None and init.cls is r:
                names = list(init.params[1:])
            bound = {}
            for p, a in zip(names, e.args):
                bound[f"{call.params[0]}.{p}"] = _const_str(prog, fi, a)
            for k in e.keywords:
                if k.arg:
                    bound[f"{call.params[0]}.{k.arg}"] = _const_str(prog, fi, k.value)
            return Callback(call, call.params[1], bound, "instance")
    return None


def callback_of(prog, fi: FuncInfo, call: ast.Call) -> Callback | None:
    """The replacement given to PATTERN.sub(cb, text) / re.sub(pattern, cb, text), resolved."""
    cands: list[ast.AST] = []
    if isinstance(call.func, ast.Attribute) and call.func.attr in ("sub", "subn"):
        nm = prog.resolve_call(fi, call)
        if nm in ("re.sub", "re.subn"):
            if len(call.args) >= 2:
                cands.append(call.args[1])
        elif call.args:
            cands.append(call.args[0])
    cands += [k.value for k in call.keywords if k.arg == "repl"]
    node = prog.flow(fi).node_of(call)
    for c in cands:
        cb = resolve_callback(prog, fi, c, node)
        if cb is not None:
            _note_group_names(prog, fi, call, cb)
            return cb
    return None


def _note_group_names(prog, fi: FuncInfo, call: ast.Call, cb: "Callback") -> None:
    """Named groups of the pattern the callback is run over: m.group("dots") is group 3 when the pattern says so."""
    try:
        from ..constfold import Folder, RegexConst
        import re._parser as _rp  # type: ignore[import-not-found]

        folder = getattr(prog, "_cb_folder", None)
        if folder is None:
            folder = prog._cb_folder = Folder(prog.repo)
        nm = prog.resolve_call(fi, call)
        pat_e = call.args[0] if nm in ("re.sub", "re.subn") and call.args else (call.func.value if isinstance(call.func, ast.Attribute) else None)
        if pat_e is None:
            return
        v = folder.eval(pat_e, fi.module, {}, fi)
        pattern, flags = (v.pattern, v.flags) if isinstance(v, RegexConst) else ((v, 0) if isinstance(v, str) else (None, 0))
        if pattern is None:
            return
        gd = dict(_rp.parse(pattern, flags).state.groupdict)
        if gd:
            table = getattr(prog, "_cb_group_names", None)
            if table is None:
                table = prog._cb_group_names = {}
            table[cb.func.qual] = gd
    except Exception:  # noqa: BLE001 - names stay unresolved: the rule then reports what it cannot read
        return


def group_index(prog, fi: FuncInfo, e: ast.AST, node: Node, mparam: str | None = None, _depth: int = 0) -> int | None:
    """k if `e` is (a copy of) the text of group k of the match object, else None."""
    if _depth > 6:
        return None
    mparam = mparam or (fi.params[0] if fi.params else None)
    flow = prog.flow(fi)

    def is_match(x: ast.AST) -> bool:
        return isinstance(x, ast.Name) and x.id == mparam and all(d.kind == "param" for d in flow.reaching(node, x.id))

    if isinstance(e, ast.Call) and isinstance(e.func, ast.Attribute) and e.func.attr == "group" and is_match(e.func.value):
        if not e.args:
            return 0
        if len(e.args) == 1 and isinstance(e.args[0], ast.Constant) and isinstance(e.args[0].value, int):
            return e.args[0].value
        if len(e.args) == 1 and isinstance(e.args[0], ast.Constant) and isinstance(e.args[0].value, str):
            return getattr(prog, "_cb_group_names", {}).get(fi.qual, {}).get(e.args[0].value)
        return None
    if isinstance(e, ast.Subscript) and is_match(e.value) and isinstance(e.slice, ast.Constant) and isinstance(e.slice.value, int):
        return e.slice.value
    if isinstance(e, ast.Subscript) and is_match(e.value) and isinstance(e.slice, ast.Constant) and isinstance(e.slice.value, str):
        return getattr(prog, "_cb_group_names", {}).get(fi.qual, {}).get(e.slice.value)
    if isinstance(e, ast.Name):
        defs = flow.reaching(node, e.id)
        vals: set = set()
        for d in defs:
            if d.kind == "assign" and d.value is not None:
                vals.add(group_index(prog, fi, d.value, d.node, mparam, _depth + 1))
            elif d.kind == "unpack" and d.value is not None and d.index is not None and isinstance(d.value, ast.Call) \
                    and isinstance(d.value.func, ast.Attribute) and d.value.func.attr == "groups" and not d.value.args \
                    and isinstance(d.value.func.value, ast.Name) and d.value.func.value.id == mparam \
                    and isinstance(d.node.ast, ast.Assign) and isinstance(d.node.ast.targets[0], (ast.Tuple, ast.List)) \
                    and not any(isinstance(x, ast.Starred) for x in d.node.ast.targets[0].elts):
                vals.add(d.index + 1)
            else:
                vals.add(None)
        return next(iter(vals)) if len(vals) == 1 else None
    return None


def flatten(v) -> tuple:
    """("cat", a, b) trees -> flat tuple of parts, adjacent literals merged."""
    out: list = []

    def go(x) -> None:
        if isinstance(x, tuple) and len(x) == 3 and x[0] == "cat":
            go(x[1])
            go(x[2])
        else:
            if out and type(out[-1]) is str and type(x) is str:
                out[-1] = out[-1] + x
            elif x != "":
                out.append(x)

    go(v)
    return tuple(out)


def callback_outcomes(prog, cb, present: dict[int, bool]) -> set[tuple]:
    """The strings (as part tuples) the callback can return when the optional groups took part in the match as `present`
    says. `cb` is a Callback (or a plain FuncInfo whose first parameter is the match)."""
    if isinstance(cb, FuncInfo):
        cb = Callback(cb, cb.params[0])
    f, mparam = cb.func, cb.mparam

    def atom(leaf: ast.AST, _aliases: frozenset) -> bool | None:
        if isinstance(leaf, ast.Compare) and len(leaf.ops) == 1 and isinstance(leaf.comparators[0], ast.Constant) and leaf.comparators[0].value is None \
                and isinstance(leaf.ops[0], (ast.Is, ast.IsNot)) and dec._cur is not None and dec._cur[0] is f:
            k = group_index(prog, f, leaf.left, dec._cur[1], mparam)
            if k in present:
                return present[k] if isinstance(leaf.ops[0], ast.IsNot) else not present[k]
        return None

    def value_leaf(cur: FuncInfo, e: ast.AST, _aliases: frozenset):
        if cur is f and dec._cur is not None and dec._cur[0] is f and isinstance(e, (ast.Call, ast.Subscript, ast.Name)):
            k = group_index(prog, f, e, dec._cur[1], mparam)
            if k is not None:
                return G(k)
        return None

    dec = Decider(prog, atom, value_leaf=value_leaf)
    env0 = {k: frozenset({v}) for k, v in cb.bound.items() if isinstance(v, str)}
    res = dec.func_outcomes(f, frozenset(), env0=env0)
    return {flatten(v) if v is not None else (UNKNOWN,) for v in res}


def fmt_parts(parts: tuple) -> str:
    return " + ".join(repr(p) if type(p) is str else str(p) for p in parts) or "''"
