"""R-REWRITE, R-SUBSHAPE, R-NONINT (C04, C08, C09, C10): text rewrites reach prose nodes only and only replace what they say."""

from __future__ import annotations

import ast
import re

from ..cfg import Node, must_edges, walk_no_nested
from ..constfold import Folder, RegexConst, Unknown
from ..dataflow import bind_call, chain_key, fmt_origin, origins
from ..decide import expand_expr
from ..loader import AnalysisError, ClassInfo, ConstInfo, FuncInfo
from ..regexlang import sre_parse
from ..report import Ctx
from .callback import G, callback_of, callback_outcomes, fmt_parts
from .common import all_guards, call_name, direct_guards, exclusive_helpers, guard_atoms, norm, reachable_functions, where
from .render import get_model

TRANSFORM_MODULES = ("flowmark.transforms.doc_transforms", "flowmark.transforms.doc_cleanups")
CURLY_DOUBLE = ("“", "”")
CURLY_SINGLE = ("‘", "’")
NON_PROSE = [  # element classes whose text must never be rewritten
    "marko.block.FencedCode", "marko.block.CodeBlock", "marko.block.HTMLBlock", "marko.block.LinkRefDef",
    "marko.inline.CodeSpan", "marko.inline.InlineHTML", "marko.inline.AutoLink", "marko.inline.Literal",
    "marko.ext.gfm.elements.Url", "flowmark.formats.flowmark_markdown:CustomFencedCode",
    "flowmark.formats.flowmark_markdown:CustomHTMLBlock",
]


def _isinstance_tests(ctx: Ctx, fi: FuncInfo, node: Node) -> list[tuple[str, list[str], str]]:
    """(object text, [class dotted names], label) of isinstance tests on all per-path guards of a node."""
    prog = ctx.prog
    out = []
    for a, truth, _b in guard_atoms(prog, fi, node):
        if isinstance(a, ast.Call) and isinstance(a.func, ast.Name) and a.func.id == "isinstance" and len(a.args) == 2:
            out.append((norm(a.args[0]), _class_names(ctx, fi, a.args[1]), "T" if truth else "F"))
        elif not truth:
            # a conjunction known to be false: its isinstance parts are reported as "F" (not known individually) for the
            # consumers that list the tests; none of them draws a conclusion from an "F"
            for c in walk_no_nested(a):
                if isinstance(c, ast.Call) and isinstance(c.func, ast.Name) and c.func.id == "isinstance" and len(c.args) == 2:
                    out.append((norm(c.args[0]), _class_names(ctx, fi, c.args[1]), "F"))
    return out


def _class_names(ctx: Ctx, fi: FuncInfo, expr: ast.AST) -> list[str]:
    repo = ctx.repo
    if isinstance(expr, ast.Tuple):
        out: list[str] = []
        for e in expr.elts:
            out += _class_names(ctx, fi, e)
        return out
    r = repo.resolve_expr(expr, fi.module, fi) if isinstance(expr, (ast.Name, ast.Attribute)) else None
    if isinstance(r, ConstInfo) and r.value is not None:
        return _class_names_mod(ctx, r.module, r.value)
    if isinstance(r, ClassInfo):
        return [r.qual]
    if isinstance(r, str):
        return [r]
    return [norm(expr)]


def _class_names_mod(ctx: Ctx, mod, expr: ast.AST) -> list[str]:
    repo = ctx.repo
    if isinstance(expr, ast.Tuple):
        out: list[str] = []
        for e in expr.elts:
            out += _class_names_mod(ctx, mod, e)
        return out
    r = repo.resolve_expr(expr, mod, None) if isinstance(expr, (ast.Name, ast.Attribute)) else None
    if isinstance(r, ClassInfo):
        return [r.qual]
    if isinstance(r, str):
        return [r]
    if isinstance(r, ConstInfo) and r.value is not None:
        return _class_names_mod(ctx, r.module, r.value)
    return [norm(expr)]


def _const_tuple(ctx: Ctx, module: str, name: str) -> tuple[list[str], ConstInfo]:
    mod = ctx.repo.module(module)
    d = mod.defs.get(name)
    if not isinstance(d, ConstInfo):
        d = ctx.repo.lookup(name, mod, None)  # moved to another module and imported back (re-export)
    if not isinstance(d, ConstInfo) or d.value is None:
        raise AnalysisError(f"anchor vanished: {module}:{name}")
    return _class_names_mod(ctx, d.module, d.value), d


def _covers(ctx: Ctx, named: list[str], target: str) -> bool:
    """isinstance(x, named) is true for instances of `target` (marko MRO aware)."""
    rm = get_model(ctx)
    mm = rm.mm
    if target in named:
        return True
    t = mm.classes.get(target.replace(":", "."))
    if t is None and target in ctx.repo.classes:
        ci = ctx.repo.classes[target]
        bases = [b.qual if isinstance(b, ClassInfo) else str(b) for b in ctx.repo.class_bases(ci)]
        return any(_covers(ctx, named, b) for b in bases)
    if t is None:
        return False
    return any(c.qual in named for c in mm.mro(t))


def _check_coalesce_everywhere(ctx: Ctx, co: FuncInfo) -> None:
    """Soft line breaks sit between the text nodes of *every* element with inline children - paragraphs and headings, and
    also emphasis, strong, links, strikethrough inside them. The per-node rewriters (ellipses: rewrite_text_content) see one
    text node at a time; a template tag that the author wrapped over a soft break inside `*...*` is protected only if the
    two halves were merged. So the coalescing visitor may not restrict itself to a subset of the element classes that the
    tree walk reaches and that carry inline children."""
    repo, prog = ctx.repo, ctx.prog
    rm = get_model(ctx)
    mm = rm.mm
    cont, _cd = _const_tuple(ctx, "flowmark.transforms.doc_transforms", "ContainerElement")
    bearing = []
    for q, mc in mm.classes.items():
        pc = mm.class_attr(mc, "parse_children")
        inline_children = mm.is_inline(mc) and isinstance(pc, ast.Constant) and pc.value is True
        if (inline_children or "inline_body" in mm.all_attrs(mc)) and _covers(ctx, cont, q):
            bearing.append(q)
    ctx.note("elements_with_inline_children_reached_by_the_tree_walk", sorted(bearing))
    ctx.require("R-REWRITE-coalesce", "element classes with inline children reached by transform_tree", len(bearing), 4)
    from .. import anchors

    # the visitor: nested in the entry point, or any function it calls / hands to the tree walk
    visitors = [f for f in repo.functions.values() if f.parent is co and not isinstance(f.node, ast.Lambda)]
    visitors += [f for f in anchors._callees(ctx, co, 2) if f not in visitors and f.name != "transform_tree"] + [co]
    n_st = 0
    for v in visitors:
        if not v.params:
            continue
        flow = prog.flow(v)
        for n in flow.cfg.nodes:
            if n.kind != "stmt" or not isinstance(n.ast, ast.Assign):
                continue
            tg = n.ast.targets[0]
            if isinstance(tg, ast.Subscript) and isinstance(tg.value, ast.Attribute):
                tg = tg.value
            if not (isinstance(tg, ast.Attribute) and tg.attr == "children" and isinstance(tg.value, ast.Name) and tg.value.id in v.params):
                continue
            n_st += 1
            obj = tg.value.id
            restrict = [cls for o, cls, lab in _isinstance_tests(ctx, v, n) if o == obj and lab == "T"]
            missing = sorted({q for cls in restrict for q in bearing if not _covers(ctx, cls, q)})
            ctx.ob("R-REWRITE-coalesce", f"{co.qual} :: every element with inline children is coalesced", not missing,
                   "text nodes separated by a soft line break must be merged wherever they occur, or a rewriter sees half a template tag "
                   f"(`*{{% a ⏎ ... b %}}*`) and edits inside it; the visitor skips {', '.join(m.split('.')[-1] for m in missing) or 'nothing'}", where(v, n))
    ctx.require("R-REWRITE-coalesce", "store of the merged children in the coalescing visitor", n_st, 1)


def _is_log_call(st: ast.AST) -> bool:
    """`log.debug(...)` / `logging.getLogger(...).info(...)` as a statement: diagnostics, no effect on results."""
    if not (isinstance(st, ast.Expr) and isinstance(st.value, ast.Call) and isinstance(st.value.func, ast.Attribute)):
        return False
    f = st.value.func
    if f.attr not in ("debug", "info", "warning", "error", "exception", "critical", "log"):
        return False
    base = norm(f.value).lower()
    return "log" in base


def check_rewrite_scope(ctx: Ctx) -> None:
    repo, prog = ctx.repo, ctx.prog
    # (a) every text store to .children in the transforms package is guarded by an isinstance RawText test on the same object
    n_sites = 0
    for fi in repo.functions.values():
        if fi.module.name not in TRANSFORM_MODULES or isinstance(fi.node, ast.Lambda):
            continue
        flow = prog.flow(fi)
        for n in flow.cfg.nodes:
            if n.kind != "stmt" or not isinstance(n.ast, (ast.Assign, ast.AugAssign)):
                continue
            tg = n.ast.targets[0] if isinstance(n.ast, ast.Assign) else n.ast.target
            if not (isinstance(tg, ast.Attribute) and tg.attr == "children"):
                continue
            obj = norm(tg.value)
            val = n.ast.value
            # structural store (a list of the same child nodes) vs text store
            is_struct = False
            if isinstance(val, ast.Name):
                for d in flow.reaching(n, val.id):
                    if d.kind == "assign" and isinstance(d.value, (ast.List, ast.ListComp)):
                        is_struct = True
            if isinstance(val, ast.Attribute) and val.attr == "children":
                is_struct = True  # re-parenting of existing child nodes (cleanups), checked by the C10 guard rule
            n_sites += 1
            if is_struct:
                ctx.ob("R-REWRITE-store", f"{fi.qual} :: {norm(n.ast)} (structure)", True,
                       "re-links existing child nodes, no text is changed", where(fi, n))
                continue
            tests = _isinstance_tests(ctx, fi, n)
            ok = any(o == obj and lab == "T" and all(c == "marko.inline.RawText" for c in cls) and cls for o, cls, lab in tests)
            rec = segment_record_fields(ctx)
            if not ok and (isinstance(tg.value, ast.Name) or (rec is not None and isinstance(tg.value, ast.Attribute) and tg.value.attr == rec[1]
                                                              and isinstance(tg.value.value, ast.Name))):
                # node variable unpacked from the segment list (or the node field of a segment record taken from it): every
                # non-None node stored there is a RawText (checked below)
                org = origins(prog, fi, tg.value.value if isinstance(tg.value, ast.Attribute) else tg.value, n)
                ok = bool(org) and all(o[0] == "iter" for o in org) and any(
                    b.kind == "test" and lab == "T" and norm(b.ast) == f"{obj} is not None" for b, lab in all_guards(prog, fi, n))
                if ok:
                    ok = _segments_nodes_are_rawtext(ctx)
            ctx.ob("R-REWRITE-store", f"{fi.qual} :: {norm(n.ast)}", ok,
                   "text may only be written into a node proven to be a marko RawText (isinstance test on the same object on "
                   f"every path); guards seen: {tests}", where(fi, n))
    ctx.require("R-REWRITE", "stores to .children in the transforms package", n_sites, 2)

    # (b) the container table does not reach code / HTML / literal nodes
    cont, cd = _const_tuple(ctx, "flowmark.transforms.doc_transforms", "ContainerElement")
    ctx.note("ContainerElement", cont)
    for np in NON_PROSE:
        ctx.ob("R-REWRITE-container", f"flowmark.transforms.doc_transforms:ContainerElement excludes {np.split('.')[-1].split(':')[-1]}",
               not _covers(ctx, cont, np),
               f"transform_tree descends only into ContainerElement instances; {np} (or a base class of it) in that tuple would expose "
               "its verbatim text to the rewriters", where(cd, cd.value))
    # transform_tree: recursion only under the container test, over element.children
    tt = repo.func("flowmark.transforms.doc_transforms:transform_tree")
    tflow = prog.flow(tt)
    rec = [(n, c) for n, c in tflow.all_calls() if prog.resolve_call(tt, c) == [tt]]
    ctx.require("R-REWRITE", "recursive call of transform_tree", len(rec), 1)
    for n, c in rec:
        tests = _isinstance_tests(ctx, tt, n)
        ok = any(lab == "T" and set(cls) == set(cont) for o, cls, lab in tests)
        ctx.ob("R-REWRITE-container", f"{tt.qual} :: recursion guarded by ContainerElement", ok,
               "the tree walk must descend only into ContainerElement instances", where(tt, c))

    # (c) _collect_inline_segments: only RawText segments are mutable
    _segments_nodes_are_rawtext(ctx, report=True)

    # (d) an inline scope is an element whose children are inline content (marko parses its `inline_body`); a scope that
    #     holds blocks would glue several paragraphs into one composite text
    rm = get_model(ctx)
    scope, sd = _const_tuple(ctx, "flowmark.transforms.doc_transforms", "InlineScope")
    for q in scope:
        mc = rm.mm.classes.get(q)
        ok = mc is not None and "inline_body" in rm.mm.all_attrs(mc)
        ctx.ob("R-REWRITE-scope", f"flowmark.transforms.doc_transforms:InlineScope member {q.split('.')[-1]}", ok,
               f"{q} does not carry inline content of its own (marko gives it no inline_body): as an inline scope it would join the text of "
               "all its child blocks, so a rewrite could pair quotes across paragraphs", where(sd, sd.value))
    # (e) autolinks: their child text node is reachable by the rewriters, so the renderer must print `dest`, never the children
    for t in ("AutoLink", "Url"):
        m = rm.methods.get(t)
        if m is None:
            continue
        summ = rm.summary(m)
        el = rm.el_param(m)
        reads_children = any(a == f"{el}.children" or a.startswith(f"{el}.children.") for a in summ.attrs()) or any(
            name.endswith("render_children") for name, _ in summ.calls)
        ctx.ob("R-REWRITE-autolink", f"{m.qual} :: prints the destination, not the (rewritable) child text", not reads_children,
               "the text node inside an autolink is visited by the text rewriters; rendering it instead of element.dest lets smart quotes / "
               "ellipses change a URL", where(m, m.node))


def _record_fields(ctx: Ctx, fi: FuncInfo, call: ast.AST) -> list[str] | None:
    """Field names of the small record class (NamedTuple / dataclass without __init__) that `call` constructs."""
    if not (isinstance(call, ast.Call) and isinstance(call.func, (ast.Name, ast.Attribute))):
        return None
    ci = ctx.repo.resolve_expr(call.func, fi.module, fi)
    if not isinstance(ci, ClassInfo) or "__init__" in ci.methods:
        return None
    return [st.target.id for st in ci.node.body if isinstance(st, ast.AnnAssign) and isinstance(st.target, ast.Name)] or None


def _record_as_pair(ctx: Ctx, fi: FuncInfo, call: ast.AST) -> ast.Tuple | None:
    """`_Segment(text=t)` / `_Segment(t, node)` read as the pair (t, node) it stands for (defaults filled in)."""
    fields = _record_fields(ctx, fi, call)
    if fields is None or len(fields) != 2:
        return None
    ci = ctx.repo.resolve_expr(call.func, fi.module, fi)
    defaults = {st.target.id: st.value for st in ci.node.body if isinstance(st, ast.AnnAssign) and isinstance(st.target, ast.Name)}
    vals: dict[str, ast.AST] = {}
    for f_, a in zip(fields, call.args):
        vals[f_] = a
    for k in call.keywords:
        if k.arg in fields:
            vals[k.arg] = k.value
    for f_ in fields:
        if f_ not in vals:
            if defaults.get(f_) is None:
                return None
            vals[f_] = defaults[f_]
    return ast.copy_location(ast.Tuple(elts=[vals[fields[0]], vals[fields[1]]], ctx=ast.Load()), call)


def segment_record_fields(ctx: Ctx) -> list[str] | None:
    """When the inline segments are records instead of (text, node) pairs: their two field names, in that order."""
    from .. import anchors

    cs = anchors.collect_segments_function(ctx)
    for x in ast.walk(cs.node):
        f = _record_fields(ctx, cs, x)
        if f is not None and len(f) == 2:
            return f
    return None


def _segments_nodes_are_rawtext(ctx: Ctx, report: bool = False) -> bool:
    repo, prog = ctx.repo, ctx.prog
    from .. import anchors

    cs = anchors.collect_segments_function(ctx)
    flow = prog.flow(cs)
    ok_all = True
    n = 0
    # where a (text, node-or-None) segment is produced: segments.append((t, n)), return [(t, n)], yield (t, n)
    sites: list[tuple[Node, ast.Tuple]] = []
    for node in flow.cfg.nodes:
        for ex in flow.node_exprs(node):
            for sub in walk_no_nested(ex):
                tup: list[ast.AST] = []
                if isinstance(sub, ast.Call) and isinstance(sub.func, ast.Attribute) and sub.func.attr == "append" and len(sub.args) == 1:
                    tup = [sub.args[0]]
                elif isinstance(sub, (ast.Yield,)) and sub.value is not None:
                    tup = [sub.value]
                elif isinstance(sub, ast.List) and node.kind == "stmt" and isinstance(node.ast, ast.Return) and sub is node.ast.value:
                    tup = list(sub.elts)
                for t in tup:
                    if isinstance(t, ast.Name):
                        # a temporary holding the segment (a spliced constructor helper leaves one)
                        try:
                            t = expand_expr(prog, cs, t, node, depth=1)
                        except Exception:  # noqa: BLE001
                            pass
                    if isinstance(t, ast.Call) and not (isinstance(t, ast.Tuple)) and _record_fields(ctx, cs, t) is None:
                        # a one-line constructor helper: `def _context_segment(text): return _Segment(text=text, node=None)`
                        tg = prog.resolve_call(cs, t)
                        if isinstance(tg, list) and len(tg) == 1 and not isinstance(tg[0].node, ast.Lambda):
                            h = tg[0]
                            hb = [st for st in h.node.body if not (isinstance(st, ast.Expr) and isinstance(st.value, ast.Constant))]
                            if len(hb) == 1 and isinstance(hb[0], ast.Return) and hb[0].value is not None:
                                from ..dataflow import bind_call as _bind
                                from ..inline import clone as _clone
                                b = _bind(h, t)

                                class _Sub(ast.NodeTransformer):
                                    def visit_Name(self, nd):
                                        return _clone(b[nd.id]) if nd.id in b and isinstance(nd.ctx, ast.Load) else nd
                                inner = _Sub().visit(_clone(hb[0].value))
                                if isinstance(inner, ast.Tuple) and len(inner.elts) == 2:
                                    t = ast.copy_location(inner, t)
                                else:
                                    pr = _record_as_pair(ctx, h, inner)
                                    if pr is not None:
                                        t = ast.copy_location(pr, t)
                    if isinstance(t, ast.Tuple) and len(t.elts) == 2:
                        sites.append((node, t))
                    else:
                        pair = _record_as_pair(ctx, cs, t)
                        if pair is not None:
                            sites.append((node, pair))
    for node, c in sites:
        if True:
            n += 1
            second = c.elts[1]
            if isinstance(second, ast.Constant) and second.value is None:
                ok = True
                why = "immutable segment (None)"
            else:
                tests = _isinstance_tests(ctx, cs, node)
                obj = norm(second)
                ok = any(o == obj and lab == "T" and cls == ["marko.inline.RawText"] for o, cls, lab in tests)
                # and not shadowed by an earlier branch for another class: the first matching isinstance arm wins
                why = f"mutable segment for {obj}; guards {tests}"
            ok_all &= ok
            if report:
                ctx.ob("R-REWRITE-segments", f"{cs.qual} :: {norm(c)[:70]}", ok,
                       "a segment may carry a node reference (= be writable) only under an isinstance(element, RawText) test: " + why,
                       where(cs, c))
    if report:
        ctx.require("R-REWRITE", "segment append sites", n, 3)
        # the text component of a mutable segment is that node's own text
        rec = [(nn, c) for nn, c in flow.all_calls() if prog.resolve_call(cs, c) == [cs]]
        for nn, c in rec:
            org = origins(prog, cs, c.args[0], nn) if c.args else frozenset()
            ok = all(o[0] == "iter" and _mentions_children(o) for o in org) and bool(org)
            ctx.ob("R-REWRITE-segments", f"{cs.qual} :: recursion over children", ok,
                   "recursion must range over the element's own children, in order", where(cs, c))
        # mutual recursion through a helper that loops over a list: cs -> helper(children) -> cs(child)
        for nn, c in flow.all_calls():
            t = prog.resolve_call(cs, c)
            if isinstance(t, list) and len(t) == 1 and t[0] is not cs and not isinstance(t[0].node, ast.Lambda):
                h = t[0]
                hflow = prog.flow(h)
                back = [(hn, hc) for hn, hc in hflow.all_calls() if prog.resolve_call(h, hc) == [cs]]
                if not back:
                    continue
                b = bind_call(h, c)
                ok = True
                for hn, hc in back:
                    horg = origins(prog, h, hc.args[0], hn) if hc.args else frozenset()
                    # the helper hands each element of one of its parameters to the collector ...
                    ps = {o[1][1] for o in horg if o[0] == "iter" and isinstance(o[1], tuple) and o[1][0] == "param"}
                    ok = ok and bool(horg) and len(ps) == 1 and all(o[0] == "iter" for o in horg)
                    # ... and that parameter is bound to the element's children
                    for pn in ps:
                        aorg = origins(prog, cs, b.get(pn), nn) if b.get(pn) is not None else frozenset()
                        ok = ok and bool(aorg) and all(_mentions_children(o) for o in aorg)
                ctx.ob("R-REWRITE-segments", f"{cs.qual} :: recursion over children", ok,
                       "recursion must range over the element's own children, in order", where(cs, c))
    return ok_all


def _mentions_children(o) -> bool:
    if isinstance(o, tuple):
        return any(x == "children" or _mentions_children(x) for x in o)
    return False


def check_coalesce_and_tags(ctx: Ctx, which: set[str] | None = None) -> None:
    """Sibling rules: both rewrite entry points see coalesced text; every rewriter protects template tags."""
    repo, prog = ctx.repo, ctx.prog
    want = which or {"coalesce", "tags"}
    fm = repo.func("flowmark.linewrapping.markdown_filling:fill_markdown")
    fflow = prog.flow(fm)
    co = repo.func("flowmark.transforms.doc_transforms:coalesce_raw_text_nodes")
    if "coalesce" in want:
        for q in ("flowmark.transforms.doc_transforms:rewrite_text_across_inlines", "flowmark.transforms.doc_transforms:rewrite_text_content"):
            f = repo.func(q)
            flow = prog.flow(f)
            cos = [n for n, c in flow.all_calls() if prog.resolve_call(f, c) == [co]]
            tts = [n for n, c in flow.all_calls() if call_name(prog, f, c).endswith(":transform_tree")]
            if not cos or not tts:
                ctx.ob("R-REWRITE-coalesce", f"{q} :: coalesces before rewriting", False,
                       "the rewrite must see text coalesced across soft line breaks, else its result depends on where the source lines were broken",
                       where(f, f.node))
                continue
            guards = direct_guards(prog, f, cos[0])
            before = flow.cfg.path_avoiding(cos[0], tts[0], set()) is not None
            if not guards:
                ctx.ob("R-REWRITE-coalesce", f"{q} :: coalesces before rewriting", before,
                       "coalesce_raw_text_nodes must run unconditionally before the tree rewrite", where(f, cos[0]))
            else:
                # conditional on a parameter: every call site in fill_markdown must pass it as True
                pnames = {o[1] for g in guards for o in g[2] if o[0] == "param"}
                ok = before and len(pnames) == 1
                p = next(iter(pnames)) if pnames else None
                for n, c in fflow.all_calls():
                    if prog.resolve_call(fm, c) == [f]:
                        b = bind_call(f, c)
                        v = b.get(p) if p else None
                        ok = ok and isinstance(v, ast.Constant) and v.value is True
                ctx.ob("R-REWRITE-coalesce", f"{q} :: coalesces before rewriting", ok,
                       f"coalescing is optional here (parameter `{p}`): the formatter's call site must enable it", where(f, cos[0]))
    if "coalesce" in want:
        _check_coalesce_everywhere(ctx, co)
    if "tags" in want:
        # every function handed to a rewrite entry point from fill_markdown uses TEMPLATE_TAG_PATTERN
        n_rw = 0
        for n, c in fflow.all_calls():
            t = prog.resolve_call(fm, c)
            if isinstance(t, list) and t[0].module.name == "flowmark.transforms.doc_transforms" and t[0].name.startswith("rewrite_"):
                for a in list(c.args) + [k.value for k in c.keywords]:
                    r = repo.resolve_expr(a, fm.module, fm) if isinstance(a, (ast.Name, ast.Attribute)) else None
                    if isinstance(r, FuncInfo):
                        n_rw += 1
                        reach = reachable_functions(prog, [r])
                        uses = False
                        for g in reach.values():
                            if isinstance(g.node, ast.Lambda):
                                continue
                            for x in walk_no_nested(g.node):
                                if isinstance(x, (ast.Name, ast.Attribute)):
                                    rr = repo.resolve_expr(x, g.module, g)
                                    if isinstance(rr, ConstInfo) and rr.name == "TEMPLATE_TAG_PATTERN":
                                        uses = True
                        ctx.ob("R-REWRITE-tags", f"{r.qual} :: protects template tags", uses,
                               "a text rewriter applied to prose must cut template tags ({% %}, {# #}, {{ }}, <!-- -->) out first "
                               "(TEMPLATE_TAG_PATTERN): tags are ordinary text to the Markdown parser, so their contents would be rewritten",
                               where(r, r.node))
                        # ... and applies that protection to every match on its own (no cursor carried between matches)
                        _check_callback_stateless(ctx, r, "R-REWRITE-tags")
                        _check_tag_scan_unconditional(ctx, r)
        ctx.require("R-REWRITE", "rewriter functions passed from fill_markdown", n_rw, 1)


def alias_groups(ctx: Ctx) -> list[list[str]]:
    """Element types that end up in the same render code (render_setext_heading -> render_heading, ...)."""
    rm = get_model(ctx)
    prog = ctx.prog
    term: dict[str, str] = {}
    for reg in rm.mm.registered:
        m = rm.methods.get(reg.type_name)
        if m is None:
            continue
        cur = m
        for _ in range(4):
            body = [s for s in cur.node.body if not (isinstance(s, ast.Expr) and isinstance(s.value, ast.Constant))]
            if len(body) == 1 and isinstance(body[0], ast.Return) and isinstance(body[0].value, ast.Call):
                t = prog.resolve_call(cur, body[0].value)
                if isinstance(t, list) and t[0].cls is not None:
                    cur = t[0]
                    continue
            break
        term[reg.type_name] = cur.qual
    groups: dict[str, list[str]] = {}
    for t, q in term.items():
        groups.setdefault(q, []).append(t)
    return [sorted(g) for g in groups.values() if len(g) > 1]


def check_alias_coverage(ctx: Ctx) -> None:
    repo, prog = ctx.repo, ctx.prog
    rm = get_model(ctx)
    groups = alias_groups(ctx)
    ctx.note("alias_groups", groups)
    ctx.require("R-REWRITE-alias", "alias groups of element types", len(groups), 1)

    def qual_of(t: str) -> str:
        reg = rm.by_type(t)
        return reg.cls.qual if reg.cls.repo_cls is None else reg.cls.repo_cls.qual  # type: ignore[union-attr]

    # all isinstance dispatch points of the transforms package
    points: list[tuple[str, list[str], str]] = []
    for name in ("ContainerElement", "InlineScope"):
        names, d = _const_tuple(ctx, "flowmark.transforms.doc_transforms", name)
        points.append((f"flowmark.transforms.doc_transforms:{name}", names, where(d, d.value)))
    for fi in repo.functions.values():
        if fi.module.name not in TRANSFORM_MODULES or isinstance(fi.node, ast.Lambda):
            continue
        for c in walk_no_nested(fi.node):
            if isinstance(c, ast.Call) and isinstance(c.func, ast.Name) and c.func.id == "isinstance" and len(c.args) == 2:
                if isinstance(c.args[1], ast.Name) and c.args[1].id in ("ContainerElement", "InlineScope"):
                    continue
                points.append((f"{fi.qual} :: {norm(c)}", _class_names(ctx, fi, c.args[1]), where(fi, c)))
    n = 0
    for key, named, loc in points:
        for g in groups:
            members = [qual_of(t) for t in g]
            covered = [m for m in members if _covers(ctx, named, m)]
            if covered and len(covered) != len(members):
                missing = [t for t, m in zip(g, members) if m not in covered]
                n += 1
                ctx.ob("R-REWRITE-alias", f"{key} :: alias group {'/'.join(g)}", False,
                       f"the renderer treats {', '.join(g)} alike, but this dispatch covers {[t for t, m in zip(g, members) if m in covered]} "
                       f"and not {missing}: the transform is applied to one spelling of the construct and skipped for the other",
                       loc)
            elif covered:
                n += 1
                ctx.ob("R-REWRITE-alias", f"{key} :: alias group {'/'.join(g)}", True, "all members covered", loc)
    ctx.note("isinstance_dispatch_points", len(points))


# ------------------------------------------------------------------------------------ R-SUBSHAPE
def _sre(pattern: str, flags: int):
    return sre_parse.parse(pattern, flags)


def _fold_regex(ctx: Ctx, module: str, name: str) -> RegexConst:
    try:
        v = Folder(ctx.repo).const(f"{module}:{name}")
    except Unknown as e:
        raise AnalysisError(f"{module}:{name} cannot be folded: {e}") from e
    if not isinstance(v, RegexConst):
        raise AnalysisError(f"{module}:{name} is not a regex constant")
    return v


def _group_calls(fi: FuncInfo, expr: ast.AST, flow, node) -> list[int | None]:
    """group numbers of match.group(n) calls reachable by identity from expr."""
    out = []
    for sub in ast.walk(expr):
        if isinstance(sub, ast.Call) and isinstance(sub.func, ast.Attribute) and sub.func.attr == "group":
            if sub.args and isinstance(sub.args[0], ast.Constant):
                out.append(sub.args[0].value)
            else:
                out.append(0)
    return out


def _flatten_concat(e: ast.AST) -> list[ast.AST]:
    if isinstance(e, ast.BinOp) and isinstance(e.op, ast.Add):
        return _flatten_concat(e.left) + _flatten_concat(e.right)
    if isinstance(e, ast.JoinedStr):
        out: list[ast.AST] = []
        for v in e.values:
            out.append(v.value if isinstance(v, ast.FormattedValue) else v)
        return out
    return [e]


def _group_of(prog, fi: FuncInfo, e: ast.AST, node: Node) -> object:
    """group index if e is (a copy of) match.group(k); IfExp over two groups -> tuple."""
    flow = prog.flow(fi)
    if isinstance(e, ast.Call) and isinstance(e.func, ast.Attribute) and e.func.attr == "group":
        return e.args[0].value if e.args and isinstance(e.args[0], ast.Constant) else 0
    if isinstance(e, ast.Name):
        defs = flow.reaching(node, e.id)
        vals = set()
        for d in defs:
            if d.kind == "assign" and d.value is not None:
                vals.add(_group_of(prog, fi, d.value, d.node))
            else:
                vals.add(None)
        return next(iter(vals)) if len(vals) == 1 else None
    if isinstance(e, ast.IfExp):
        a, b = _group_of(prog, fi, e.body, node), _group_of(prog, fi, e.orelse, node)
        return (a, b)
    return None


def _const_where(repo, mod: str, name: str) -> str:
    """location of a module constant, wherever it is defined now (a constant that moved is still imported by `mod`)"""
    m = repo.module(mod)
    r = repo.lookup(name, m, None)
    if isinstance(r, ConstInfo) and r.assigns:
        return where(r.module if hasattr(r, "module") else m, r.assigns[0])
    return str(m.path.name)


def check_quotes_shape(ctx: Ctx) -> None:
    repo, prog = ctx.repo, ctx.prog
    mod = "flowmark.typography.smartquotes"
    qp = _fold_regex(ctx, mod, "QUOTE_PATTERN")
    tree = _sre(qp.pattern, qp.flags)
    items = list(tree)
    # shape: g1 (?: " g2 " | ' g3 ' ) g4
    ok_shape = False
    lits: list[int] = []
    if len(items) == 3 and str(items[0][0]) == "SUBPATTERN" and items[0][1][0] == 1 and str(items[2][0]) == "SUBPATTERN" and items[2][1][0] == 4:
        mid = items[1]
        branches = None
        if str(mid[0]) == "SUBPATTERN" and mid[1][0] is None:
            inner = list(mid[1][-1])
            if len(inner) == 1 and str(inner[0][0]) == "BRANCH":
                branches = inner[0][1][1]
        elif str(mid[0]) == "BRANCH":
            branches = mid[1][1]
        if branches is not None and len(branches) == 2:
            good = True
            for br, gid in zip(branches, (2, 3)):
                b = list(br)
                if not (len(b) == 3 and str(b[0][0]) == "LITERAL" and str(b[2][0]) == "LITERAL" and b[0][1] == b[2][1]
                        and str(b[1][0]) == "SUBPATTERN" and b[1][1][0] == gid):
                    good = False
                else:
                    lits.append(b[0][1])
            ok_shape = good and lits == [34, 39]
    ctx.ob("R-SUBSHAPE-quote", f"{mod}:QUOTE_PATTERN :: shape g1 (\"g2\"|'g3') g4", ok_shape,
           "everything the quote pattern matches must be captured by groups 1-4 except exactly one opening and one closing straight "
           f"quote of the same kind (un-grouped literals found: {[chr(x) for x in lits]})", _const_where(repo, mod, 'QUOTE_PATTERN'))
    # the content groups cannot contain a quote of their own kind (so pairs cannot nest / cross)
    # callback
    from .. import anchors

    ap = anchors.apply_quotes_function(ctx)
    aflow = prog.flow(ap)
    cb = None
    for n, c in aflow.all_calls():
        if isinstance(c.func, ast.Attribute) and c.func.attr == "sub":
            r = repo.resolve_expr(c.func.value, ap.module, ap)
            if isinstance(r, ConstInfo) and r.name == "QUOTE_PATTERN":
                cb = callback_of(prog, ap, c)
    if cb is None:
        raise AnalysisError("replacement callback of QUOTE_PATTERN not found")
    repo.func(cb.qual)  # anchor
    # what the callback can return, by which kind of quote matched (group 2: double, group 3: single)
    n_ret = len(prog.flow(cb.func).cfg.returns())
    for gid, pair, other in ((2, CURLY_DOUBLE, 3), (3, CURLY_SINGLE, 2)):
        outs = callback_outcomes(prog, cb, {gid: True, other: False})
        want = (G(1), pair[0], G(gid), pair[1], G(4))
        bad = [o for o in outs if o not in ((G(0),), want)]
        ctx.ob("R-SUBSHAPE-quote", f"{cb.qual} :: replacement when group {gid} matched", not bad and want in outs,
               "the replacement must be group1 + one curly quote + the content group + the matching curly quote + group4 "
               "(length preserving, only the two quote positions change), or the whole match unchanged; "
               f"with group {gid} set the callback can return: {sorted(fmt_parts(o) for o in outs)}", where(cb.func, cb.func.node))
    ctx.require("R-SUBSHAPE", "returns of the quote callback", n_ret, 2)
    # apostrophes: one-character pattern, one-character replacement; the split keeps its separators
    n_sub = 0
    folder = Folder(repo)

    def const_str(f: FuncInfo, e: ast.AST, node: Node | None) -> str | None:
        if isinstance(e, ast.Constant) and isinstance(e.value, str):
            return e.value
        if isinstance(e, ast.Name) and node is not None and not prog.flow(f).reaching(node, e.id):
            r = repo.lookup(e.id, f.module, f)
            if isinstance(r, ConstInfo):
                try:
                    v = folder.const(r.qual)
                except Unknown:
                    return None
                return v if isinstance(v, str) else None
        return None

    def pattern_of(f: FuncInfo, e: ast.AST) -> str | None:
        """pattern text of a compiled module-level regex"""
        r = repo.resolve_expr(e, f.module, f) if isinstance(e, (ast.Name, ast.Attribute)) else None
        if isinstance(r, ConstInfo):
            try:
                v = folder.const(r.qual)
            except Unknown:
                return None
            return v.pattern if isinstance(v, RegexConst) else None
        return None

    funcs = [ap] + [repo.functions[q] for q in sorted(exclusive_helpers(prog, ap)) if q in repo.functions and repo.functions[q] is not cb.func]
    n_join = 0
    for f in funcs:
        fl = prog.flow(f)
        for n, c in fl.all_calls():
            nm = call_name(prog, f, c)
            if nm == "re.sub" and len(c.args) >= 3:
                n_sub += 1
                p, rpl = const_str(f, c.args[0], n), const_str(f, c.args[1], n)
                okp = p is not None and _single_literal(p) in ("'",)
                okr = rpl is not None and len(rpl) == 1 and rpl in CURLY_SINGLE
                ctx.ob("R-SUBSHAPE-apostrophe", f"{f.qual} :: {norm(c)[:60]}", okp and okr,
                       "an apostrophe rewrite must replace exactly one straight single quote by one curly single quote", where(f, c))
            elif isinstance(c.func, ast.Attribute) and c.func.attr == "replace" and len(c.args) == 2 and nm not in ("re.sub",):
                a0, a1 = const_str(f, c.args[0], n), const_str(f, c.args[1], n)
                if a0 is not None and "'" in a0 or a1 is not None and any(ch in (a1 or "") for ch in CURLY_SINGLE + CURLY_DOUBLE):
                    n_sub += 1
                    ctx.ob("R-SUBSHAPE-apostrophe", f"{f.qual} :: {norm(c)[:60]}", a0 == "'" and a1 is not None and len(a1) == 1 and a1 in CURLY_SINGLE,
                           "an apostrophe rewrite must replace exactly one straight single quote by one curly single quote", where(f, c))
            if nm == "re.split" and c.args:
                p = const_str(f, c.args[0], n)
                ctx.ob("R-SUBSHAPE-apostrophe", f"{f.qual} :: {norm(c)[:60]}", p is not None and _is_single_capture(p),
                       "re.split must capture its separator in one group so that ''.join restores every character", where(f, c))
            elif isinstance(c.func, ast.Attribute) and c.func.attr == "split" and pattern_of(f, c.func.value) is not None:
                p = pattern_of(f, c.func.value)
                ctx.ob("R-SUBSHAPE-apostrophe", f"{f.qual} :: {norm(c)[:60]}", p is not None and _is_single_capture(p),
                       "the split must capture its separator in one group so that ''.join restores every character", where(f, c))
            if isinstance(c.func, ast.Attribute) and c.func.attr == "join" and isinstance(c.func.value, ast.Constant) and c.func.value.value == "":
                n_join += 1
    ctx.require("R-SUBSHAPE", "apostrophe substitutions", n_sub, 1)
    ctx.ob("R-SUBSHAPE-apostrophe", f"{ap.qual} :: words rejoined with the empty string", n_join >= 1,
           "the word list (with captured separators) must be rejoined with ''", where(ap, ap.node))
    # smart_quotes: slices partition the text, tags are copied verbatim. The partition loop (over TEMPLATE_TAG_PATTERN.finditer)
    # may live in smart_quotes or in a private helper / generator it uses; what it emits (append or yield) is examined.
    sq = repo.func(f"{mod}:smart_quotes")
    cands = [sq] + [repo.functions[q] for q in sorted(exclusive_helpers(prog, sq)) if q in repo.functions]
    part = None
    for g in cands:
        if isinstance(g.node, ast.Lambda):
            continue
        gfl = prog.flow(g)
        for h in gfl.cfg.nodes:
            if h.kind == "for" and any(isinstance(x, ast.Attribute) and x.attr == "finditer" for x in ast.walk(h.ast.iter)) and isinstance(h.ast.target, ast.Name):
                part = (g, gfl, h)
    if part is None:
        raise AnalysisError("partition loop over the template tags not found in smart_quotes")
    g, gfl, h = part
    mvar = h.ast.target.id
    tparam = g.params[0]
    emitted: list[tuple[Node, ast.AST]] = []
    for n in gfl.cfg.nodes:
        for ex in gfl.node_exprs(n):
            for x in walk_no_nested(ex):
                if isinstance(x, ast.Call) and isinstance(x.func, ast.Attribute) and x.func.attr == "append" and len(x.args) == 1:
                    emitted.append((n, x.args[0]))
                elif isinstance(x, ast.Yield) and x.value is not None:
                    emitted.append((n, x.value.elts[0] if isinstance(x.value, ast.Tuple) and x.value.elts else x.value))
    n_app = 0
    cursors: set[str] = set()
    for n, a in emitted:
        n_app += 1
        inner = a
        if isinstance(a, ast.Call) and prog.resolve_call(g, a) == [ap] and a.args:
            inner = a.args[0]
        inner = expand_expr(prog, g, inner, n, depth=1)
        if isinstance(inner, ast.Call) and isinstance(inner.func, ast.Attribute) and inner.func.attr == "group" and isinstance(inner.func.value, ast.Name) \
                and inner.func.value.id == mvar and (not inner.args or (isinstance(inner.args[0], ast.Constant) and inner.args[0].value == 0)):
            ctx.ob("R-SUBSHAPE-tags", f"{sq.qual} :: tag emitted verbatim", inner is expand_expr(prog, g, a, n, depth=1) or not (isinstance(a, ast.Call) and prog.resolve_call(g, a) == [ap]),
                   "a template tag is copied verbatim (never handed to the rewriter)", where(g, n))
            continue
        ok = False
        if isinstance(inner, ast.Subscript) and isinstance(inner.slice, ast.Slice) and inner.slice.step is None and isinstance(inner.value, ast.Name) \
                and inner.value.id == tparam and isinstance(inner.slice.lower, ast.Name):
            cur = inner.slice.lower.id
            hi = inner.slice.upper
            hi_ok = hi is None
            if isinstance(hi, ast.Name):
                # upper bound = start of the current tag: unpacked from match.span() (index 0) or match.start()
                for o in origins(prog, g, hi, n):
                    if (o[0] == "unpack" and o[2] == 0 and isinstance(o[1], tuple) and o[1][0] == "call" and str(o[1][1]).endswith(".span")) or \
                            (o[0] == "call" and str(o[1]).endswith(".start")):
                        hi_ok = True
            if hi_ok:
                ok = True
                cursors.add(cur)
        ctx.ob("R-SUBSHAPE-tags", f"{sq.qual} :: {norm(a)[:70]}", ok,
               "outside tags the rewriter is applied to the slices text[cursor:start] / text[cursor:], which partition the text", where(g, n))
    ctx.require("R-SUBSHAPE", "segment appends in smart_quotes", n_app, 2)
    # the cursor is moved to the end of each tag, in every iteration
    adv = False
    for cur in cursors:
        for n in gfl.loop_body_nodes(h):
            if n.kind == "stmt" and isinstance(n.ast, ast.Assign) and len(n.ast.targets) == 1 and isinstance(n.ast.targets[0], ast.Name) and n.ast.targets[0].id == cur:
                for o in origins(prog, g, n.ast.value, n):
                    if (o[0] == "unpack" and o[2] == 1 and isinstance(o[1], tuple) and o[1][0] == "call" and str(o[1][1]).endswith(".span")) or \
                            (o[0] == "call" and str(o[1]).endswith(".end")):
                        if not {(b, lab) for b, lab in (must_edges(gfl.cfg, h, n) or set()) if b is not h}:
                            adv = True
    ctx.ob("R-SUBSHAPE-tags", f"{sq.qual} :: cursor advances to the end of each tag", adv and len(cursors) == 1,
           "the cursor is set to the end of the tag after every tag, so no character is skipped or duplicated", where(g, h))
    # non-ASCII literals
    _check_literals(ctx, mod, set(CURLY_DOUBLE + CURLY_SINGLE + ("—",)))


def _single_literal(pat: str) -> str | None:
    try:
        t = list(_sre(pat, 0))
    except Exception:  # noqa: BLE001
        return None
    if len(t) == 1 and str(t[0][0]) == "LITERAL":
        return chr(t[0][1])
    return None


def _is_single_capture(pat: str) -> bool:
    try:
        t = list(_sre(pat, 0))
    except Exception:  # noqa: BLE001
        return False
    return len(t) == 1 and str(t[0][0]) == "SUBPATTERN" and t[0][1][0] == 1


def _check_literals(ctx: Ctx, module: str, allowed: set[str]) -> None:
    mod = ctx.repo.module(module)
    bad = set()
    for n in ast.walk(mod.tree):
        if isinstance(n, ast.Constant) and isinstance(n.value, str):
            # docstrings are not code
            from ..loader import parent

            p = parent(n)
            if isinstance(p, ast.Expr):
                continue
            for ch in n.value:
                if ord(ch) > 127 and ch not in allowed:
                    bad.add(ch)
    ctx.ob("R-SUBSHAPE-literals", f"{module} :: non-ASCII literals", not bad,
           f"the only non-ASCII characters the module can emit are {sorted(allowed)}; found also {sorted(bad)}", str(mod.path.name))


def check_writeback(ctx: Ctx) -> None:
    """rewrite_text_across_inlines: the write-back slices `converted` by the segment lengths under the length assertion."""
    repo, prog = ctx.repo, ctx.prog
    rw = repo.func("flowmark.transforms.doc_transforms:rewrite_text_across_inlines")
    # the function handed to transform_tree: a nested closure, a module-level function, or functools.partial of one
    from .callback import resolve_callback

    tr = None
    for n_, c_ in prog.flow(rw).all_calls():
        if call_name(prog, rw, c_).endswith(":transform_tree") and len(c_.args) >= 2:
            cb_ = resolve_callback(prog, rw, c_.args[1], n_)
            if cb_ is not None:
                tr = cb_.func
    if tr is None:
        raise AnalysisError("transformer closure of rewrite_text_across_inlines not found")
    repo.func(tr.qual)  # anchor
    flow = prog.flow(tr)
    # (an assert is a test node of the CFG whose F edge raises; an explicit `if len(a) != len(b): raise` is as good)
    asserts = [n for n in flow.cfg.nodes if n.kind == "test" and isinstance(n.owner, ast.Assert)]
    len_assert = [n for n in asserts if isinstance(n.ast, ast.Compare) and isinstance(n.ast.ops[0], ast.Eq)
                  and all(isinstance(x, ast.Call) and isinstance(x.func, ast.Name) and x.func.id == "len" for x in [n.ast.left, n.ast.comparators[0]])]
    stores = [n for n in flow.cfg.nodes if n.kind == "stmt" and isinstance(n.ast, ast.Assign) and isinstance(n.ast.targets[0], ast.Attribute)
              and n.ast.targets[0].attr == "children"]
    ctx.require("R-SUBSHAPE", "write-back store in rewrite_text_across_inlines", len(stores), 1)
    for s in stores:
        dom = bool(len_assert) and flow.cfg.path_avoiding(flow.cfg.entry, s, set(len_assert)) is None
        ctx.ob("R-SUBSHAPE-writeback", f"{tr.qual} :: write-back under the length assertion", dom,
               "the mapping back into nodes slices the converted text by the original segment lengths; it is only meaningful if "
               "len(converted) == len(composite) is asserted on every path before it", where(tr, s))
        v = s.ast.value
        heads = [h for h in flow.cfg.nodes if h.kind == "for" and s in flow.loop_body_nodes(h)]
        head = min(heads, key=lambda h: len(flow.loop_body_nodes(h))) if heads else None
        text_var = None
        if head is not None and isinstance(head.ast.target, ast.Tuple) and head.ast.target.elts and isinstance(head.ast.target.elts[0], ast.Name):
            text_var = head.ast.target.elts[0].id
        elif head is not None and isinstance(head.ast.target, ast.Name) and segment_record_fields(ctx) is not None:
            text_var = f"{head.ast.target.id}.{segment_record_fields(ctx)[0]}"  # for segment in segments: segment.text
        ok = False
        cursor = None
        zipped_offsets = False
        if head is not None and text_var is None and isinstance(head.ast.target, ast.Tuple) and len(head.ast.target.elts) == 2:
            # for (text, node), pos in zip(segments, accumulate((len(t) for t, _ in segments), initial=0)): offsets are the running
            # totals of the segment lengths, computed outside the loop body (nothing in the body can skip an advance)
            t0, t1 = head.ast.target.elts
            it = expand_expr(prog, tr, head.ast.iter, head, strict=False)
            pair_bounds = None
            if isinstance(t1, ast.Tuple) and len(t1.elts) == 2 and all(isinstance(e, ast.Name) for e in t1.elts) and isinstance(it, ast.Call) \
                    and norm(it.func) == "zip" and len(it.args) == 2 and isinstance(it.args[1], ast.Call) and norm(it.args[1].func) in ("pairwise", "itertools.pairwise") \
                    and len(it.args[1].args) == 1:
                # for (text, node), (start, end) in zip(segments, pairwise(accumulate(lengths, initial=0))): consecutive running totals
                pair_bounds = (t1.elts[0].id, t1.elts[1].id)
                it = ast.Call(func=it.func, args=[it.args[0], it.args[1].args[0]], keywords=it.keywords)
                t1 = t1.elts[0]
            if isinstance(t0, ast.Tuple) and t0.elts and isinstance(t0.elts[0], ast.Name) and isinstance(t1, ast.Name) and isinstance(it, ast.Call) \
                    and norm(it.func) == "zip" and len(it.args) == 2 and all(k.arg == "strict" for k in it.keywords):
                acc = expand_expr(prog, tr, it.args[1], head, strict=False)
                raw_it = head.ast.iter
                seq = norm(raw_it.args[0]) if isinstance(raw_it, ast.Call) and len(raw_it.args) == 2 else norm(it.args[0])  # (the name, not what it was built from)
                if isinstance(acc, ast.Call) and norm(acc.func) in ("accumulate", "itertools.accumulate") and acc.args \
                        and any(k.arg == "initial" and isinstance(k.value, ast.Constant) and k.value.value == 0 for k in acc.keywords):
                    g0 = acc.args[0]
                    if isinstance(g0, (ast.GeneratorExp, ast.ListComp)) and len(g0.generators) == 1 and not g0.generators[0].ifs \
                            and norm(g0.generators[0].iter) == seq and isinstance(g0.elt, ast.Call) and norm(g0.elt.func) == "len":
                        text_var = t0.elts[0].id
                        zipped_offsets = True
        if isinstance(v, ast.Subscript) and isinstance(v.slice, ast.Slice) and v.slice.lower is not None and v.slice.upper is not None \
                and v.slice.step is None and isinstance(v.slice.lower, ast.Name) and text_var is not None:
            cursor = v.slice.lower.id
            up = norm(expand_expr(prog, tr, v.slice.upper, s))
            ok = up in (f"{cursor} + len({text_var})", f"len({text_var}) + {cursor}")
            if zipped_offsets and locals().get("pair_bounds"):
                ok = (cursor, norm(v.slice.upper)) == pair_bounds  # [start:end] of the consecutive totals
        ctx.ob("R-SUBSHAPE-writeback", f"{tr.qual} :: slice [pos : pos + len(segment)]", bool(ok),
               "each node gets exactly its own stretch of the converted text", where(tr, s))
        # the cursor advances by the segment length for every segment, mutable or not
        if head is not None and cursor is not None and zipped_offsets:
            ctx.ob("R-SUBSHAPE-writeback", f"{tr.qual} :: cursor advances for every segment", True,
                   "offsets are the running totals of all segment lengths (accumulate over every segment, zipped with the segments)", where(tr, head))
        elif head is not None and cursor is not None:
            okc = False
            for a in flow.loop_body_nodes(head):
                if a.kind != "stmt":
                    continue
                step = None
                if isinstance(a.ast, ast.AugAssign) and isinstance(a.ast.op, ast.Add) and isinstance(a.ast.target, ast.Name) and a.ast.target.id == cursor:
                    step = norm(expand_expr(prog, tr, a.ast.value, a))
                elif isinstance(a.ast, ast.Assign) and len(a.ast.targets) == 1 and isinstance(a.ast.targets[0], ast.Name) and a.ast.targets[0].id == cursor:
                    full = norm(expand_expr(prog, tr, a.ast.value, a))
                    for pre_, suf_ in ((f"{cursor} + ", ""), ("", f" + {cursor}")):
                        if full.startswith(pre_) and full.endswith(suf_) and len(full) > len(pre_) + len(suf_):
                            step = full[len(pre_):len(full) - len(suf_)]
                            break
                if step == f"len({text_var})":
                    edges = {(b, lab) for b, lab in (must_edges(flow.cfg, head, a) or set()) if b is not head}
                    if not edges:
                        okc = True
            ctx.ob("R-SUBSHAPE-writeback", f"{tr.qual} :: cursor advances for every segment", okc,
                   "the position must advance by the segment length unconditionally (immutable segments too)", where(tr, head))
    # the composite is the concatenation of the segment texts in order, and the scope is one element
    comp = [n for n in flow.cfg.nodes if n.kind == "stmt" and isinstance(n.ast, ast.Assign) and isinstance(n.ast.value, ast.Call)
            and isinstance(n.ast.value.func, ast.Attribute) and n.ast.value.func.attr == "join"]
    ok = any(isinstance(n.ast.value.func.value, ast.Constant) and n.ast.value.func.value.value == "" for n in comp)
    ctx.ob("R-SUBSHAPE-writeback", f"{tr.qual} :: composite = ''.join(segment texts)", ok,
           "the composite text must be the plain concatenation of the segment texts", where(tr, tr.node))
    # per-scope: segments / composite are locals of one transformer invocation (pairing cannot cross paragraphs)
    free_writes = [n for n in walk_no_nested(tr.node) if isinstance(n, ast.Nonlocal)]
    ctx.ob("R-SUBSHAPE-writeback", f"{tr.qual} :: per-scope state", not free_writes,
           "segments and composite must be local to one inline scope (quotes are only paired within one paragraph / heading / cell)", where(tr, tr.node))
    scope_names, sd = _const_tuple(ctx, "flowmark.transforms.doc_transforms", "InlineScope")
    ctx.note("InlineScope", scope_names)


def check_ellipsis_shape(ctx: Ctx) -> None:
    repo, prog = ctx.repo, ctx.prog
    mod = "flowmark.typography.ellipses"
    ep = _fold_regex(ctx, mod, "ELLIPSIS_PATTERN")
    tree = list(_sre(ep.pattern, ep.flags))
    groups = [it for it in tree if str(it[0]) == "SUBPATTERN" and it[1][0] is not None]
    ungrouped = [it for it in tree if not (str(it[0]) == "SUBPATTERN" and it[1][0] is not None)]
    g3 = next((g for g in groups if g[1][0] == 3), None)
    dots = g3 is not None and [(str(o), a) for o, a in g3[1][-1]] == [("LITERAL", 46)] * 3
    ctx.ob("R-SUBSHAPE-ellipsis", f"{mod}:ELLIPSIS_PATTERN :: group 3 is exactly three dots", bool(dots) and not ungrouped and len(groups) == 5,
           "the pattern must consist of five groups with group 3 = `\\.\\.\\.` and nothing matched outside a group", _const_where(repo, mod, 'ELLIPSIS_PATTERN'))
    # groups 2 and 5 are whitespace only
    for gi in (2, 5):
        g = next((x for x in groups if x[1][0] == gi), None)
        ok = False
        if g is not None:
            inner = list(g[1][-1])
            ok = len(inner) == 1 and str(inner[0][0]) in ("MAX_REPEAT", "MIN_REPEAT") and [(str(o), str(a)) for o, a in inner[0][1][2]] == [("IN", "[(CATEGORY, CATEGORY_SPACE)]")]
        ctx.ob("R-SUBSHAPE-ellipsis", f"{mod}:ELLIPSIS_PATTERN :: group {gi} is whitespace", ok,
               "only whitespace directly around the dots may be normalised", _const_where(repo, mod, 'ELLIPSIS_PATTERN'))
    el = repo.func(f"{mod}:ellipses")
    cb = None
    for n, c in prog.flow(el).all_calls():
        if isinstance(c.func, ast.Attribute) and c.func.attr == "sub":
            r = repo.resolve_expr(c.func.value, el.module, el)
            if isinstance(r, ConstInfo) and r.name == "ELLIPSIS_PATTERN":
                cb = callback_of(prog, el, c)
    if cb is None:
        raise AnalysisError("replacement callback of ELLIPSIS_PATTERN not found")
    repo.func(cb.qual)  # anchor
    n_ret = len(prog.flow(cb.func).cfg.returns())
    outs = callback_outcomes(prog, cb, {})
    from .callback import flatten as _flat

    allowed = {(G(0),)}
    for a in (" ", G(2)):
        for b in (" ", G(5)):
            allowed.add(_flat(("cat", ("cat", ("cat", ("cat", G(1), a), "…"), G(4)), b)))
    bad = [o for o in outs if o not in allowed]
    keeps = _flat(("cat", ("cat", ("cat", ("cat", G(1), G(2)), "…"), G(4)), G(5)))
    ctx.ob("R-SUBSHAPE-ellipsis", f"{cb.qual} :: replacement built from groups 1,2,4,5", not bad and keeps in outs,
           "the replacement may only be: the whole match, or group1 + (group2 | one space) + the ellipsis character + group4 + (group5 | one space) - "
           "only the three dots and the whitespace directly around them change; "
           f"the callback can return: {sorted(fmt_parts(o) for o in outs)}", where(cb.func, cb.func.node))
    ctx.require("R-SUBSHAPE", "returns of the ellipsis callback", n_ret, 1)
    _check_callback_stateless(ctx, el, "R-SUBSHAPE-ellipsis")
    _check_literals(ctx, mod, {"…", "“", "‘", "”", "’", "—"})


def check_rewrite_order(ctx: Ctx) -> None:
    """The ellipsis pass is the last text rewrite: nothing that reads the text runs after it (before rendering). A pass that
    ran later would see `…` where it used to see `...`, so switching ellipses on would change what *that* pass does - e.g. a
    closing quote followed by dots is no longer recognised by the quote rewriter."""
    repo, prog = ctx.repo, ctx.prog
    fm = repo.func("flowmark.linewrapping.markdown_filling:fill_markdown")
    sites: list[tuple[FuncInfo, Node, ast.Call, set[str]]] = []
    work = [fm] + [repo.functions[q] for q in sorted(exclusive_helpers(prog, fm)) if q in repo.functions]
    for f in work:
        flow = prog.flow(f)
        for n, c in flow.all_calls():
            t = prog.resolve_call(f, c)
            if isinstance(t, list) and t[0].module.name in ("flowmark.transforms.doc_transforms", "flowmark.transforms.doc_cleanups") \
                    and (t[0].name.startswith("rewrite_") or t[0].name == "doc_cleanups"):
                passed = set()
                for a in list(c.args) + [k.value for k in c.keywords]:
                    r = repo.resolve_expr(a, f.module, f) if isinstance(a, (ast.Name, ast.Attribute)) else None
                    if isinstance(r, FuncInfo):
                        passed.add(r.qual)
                sites.append((f, n, c, passed))
    ell = [(f, n, c) for f, n, c, passed in sites if "flowmark.typography.ellipses:ellipses" in passed]
    ctx.require("R-REWRITE-order", "ellipsis rewrite call on the formatting path", len(ell), 1)
    for f, n, c in ell:
        later = []
        for f2, n2, c2, _p in sites:
            if f2 is f and n2 is not n and prog.flow(f).cfg.path_avoiding(n, n2, set()) is not None:
                later.append(c2)
        ctx.ob("R-REWRITE-order", f"{f.qual} :: no text rewrite runs after the ellipsis pass", not later,
               "the ellipsis conversion must be the last pass over the text: a later pass would read its output and behave differently "
               "with the option on; runs afterwards: " + ", ".join(norm(x)[:60] for x in later), where(f, c))


def _check_tag_scan_unconditional(ctx: Ctx, r: FuncInfo) -> None:
    """Every path through the rewriter either runs the TEMPLATE_TAG_PATTERN scan or returns its input untouched; the scan is
    not the arm of a conditional expression (a hand-written "does the text contain a tag opener" shortcut has to list every
    tag family and is a second copy of the pattern)."""
    repo, prog = ctx.repo, ctx.prog
    flow = prog.flow(r)
    scans: list[Node] = []
    conditional = []
    from ..loader import parent

    for n in flow.cfg.nodes:
        for ex in flow.node_exprs(n):
            for x in ast.walk(ex):
                if isinstance(x, (ast.Name, ast.Attribute)):
                    rr = repo.resolve_expr(x, r.module, r)
                    if isinstance(rr, ConstInfo) and rr.name == "TEMPLATE_TAG_PATTERN":
                        scans.append(n)
                        p = parent(x)
                        while p is not None and not isinstance(p, ast.stmt):
                            if isinstance(p, ast.IfExp) and not any(y is x for y in ast.walk(p.test)):
                                conditional.append((n, p))
                            if isinstance(p, ast.BoolOp) and not any(y is x for y in ast.walk(p.values[0])):
                                conditional.append((n, p))
                            p = parent(p)
    if not scans:
        return
    skipping = []
    for ret in flow.cfg.returns():
        if flow.cfg.path_avoiding(flow.cfg.entry, ret, set(scans)) is not None and ret not in scans:
            org = origins(prog, r, ret.ast.value, ret)
            if org != frozenset({("param", r.params[0])}):
                skipping.append(ret)
    ctx.ob("R-REWRITE-tags", f"{r.qual} :: the tag scan runs on every path that changes the text", not conditional and not skipping,
           "template tags are found by TEMPLATE_TAG_PATTERN alone: the scan must not be skipped on a condition of the rewriter's own "
           "(a shortcut that looks for tag openers misses the families it forgets, e.g. `{#`)"
           + (f"; the scan is an arm of `{norm(conditional[0][1])[:80]}`" if conditional else "")
           + (f"; `{norm(skipping[0].ast)[:60]}` is reached without it" if skipping else ""),
           where(r, conditional[0][0] if conditional else (skipping[0] if skipping else r.node)))


def _check_callback_stateless(ctx: Ctx, outer: FuncInfo, rule: str) -> None:
    """The decision for one match may depend on the match and on data fixed before the substitution starts - not on what
    earlier matches did: no nested function of `outer` rebinds (nonlocal) or consumes / mutates a captured variable."""
    bad: list[tuple[FuncInfo, ast.AST, str]] = []
    nested: list[FuncInfo] = []
    work = [outer]
    while work:
        g = work.pop()
        for d in g.local_defs.values():
            if isinstance(d, FuncInfo) and not isinstance(d.node, ast.Lambda):
                nested.append(d)
                work.append(d)
    outer_locals = {x.id for x in ast.walk(outer.node) if isinstance(x, ast.Name) and isinstance(x.ctx, ast.Store)} | set(outer.params)
    # locals of the enclosing call that hold a one-shot iterator (a generator expression, map / filter / zip / finditer ...):
    # the first match that walks it leaves nothing for the later ones
    one_shot: dict[str, str] = {}
    for st in walk_no_nested(outer.node):
        if isinstance(st, ast.Assign) and len(st.targets) == 1 and isinstance(st.targets[0], ast.Name):
            v = st.value
            kind = None
            if isinstance(v, ast.GeneratorExp):
                kind = "a generator expression"
            elif isinstance(v, ast.Call) and isinstance(v.func, ast.Name) and v.func.id in ("map", "filter", "zip", "iter", "enumerate", "reversed"):
                kind = f"{v.func.id}(...)"
            elif isinstance(v, ast.Call) and isinstance(v.func, ast.Attribute) and v.func.attr in ("finditer", "iterdir", "glob", "rglob"):
                kind = f".{v.func.attr}(...)"
            elif isinstance(v, ast.Call):
                t_ = ctx.prog.resolve_call(outer, v)
                if isinstance(t_, list) and len(t_) == 1 and not isinstance(t_[0].node, ast.Lambda) \
                        and any(isinstance(y, (ast.Yield, ast.YieldFrom)) for y in walk_no_nested(t_[0].node)):
                    kind = f"the generator {t_[0].name}(...)"
            if kind is not None:
                one_shot[st.targets[0].id] = kind
    for f in nested:
        own = {x.id for x in ast.walk(f.node) if isinstance(x, ast.Name) and isinstance(x.ctx, ast.Store)} | set(f.params)
        declared_nonlocal = {nm for x in walk_no_nested(f.node) if isinstance(x, ast.Nonlocal) for nm in x.names}
        for x in ast.walk(f.node):
            if isinstance(x, ast.Name) and isinstance(x.ctx, ast.Load) and x.id in one_shot and x.id not in own:
                bad.append((f, x, f"walks the captured `{x.id}`, which is {one_shot[x.id]}: exhausted by the first match that reads it"))
        for x in walk_no_nested(f.node):
            if isinstance(x, ast.Nonlocal):
                bad.append((f, x, f"rebinds {', '.join(x.names)} of the enclosing call"))
            if isinstance(x, ast.Call):
                captured = lambda e: isinstance(e, ast.Name) and e.id in outer_locals and (e.id not in own or e.id in declared_nonlocal)  # noqa: E731
                if isinstance(x.func, ast.Name) and x.func.id == "next" and x.args and captured(x.args[0]):
                    bad.append((f, x, f"consumes the captured iterator `{x.args[0].id}`"))
                if isinstance(x.func, ast.Attribute) and x.func.attr in ("append", "extend", "pop", "remove", "insert", "clear", "update", "add", "popleft") \
                        and captured(x.func.value):
                    bad.append((f, x, f"changes the captured `{x.func.value.id}` in place"))
    # the protected spans and the substitution speak about the same string: spans found in the whole text cannot be compared
    # with match offsets of a substitution that runs over a piece of it (a line, a slice)
    scans = [c for c in ast.walk(outer.node) if isinstance(c, ast.Call) and isinstance(c.func, ast.Attribute) and c.func.attr == "finditer" and len(c.args) == 1]
    subs = [c for c in ast.walk(outer.node) if isinstance(c, ast.Call) and isinstance(c.func, ast.Attribute) and c.func.attr in ("sub", "subn") and len(c.args) >= 2
            and isinstance(c.args[0], (ast.Name, ast.Attribute, ast.Lambda))]
    if scans and subs and any(isinstance(x, ast.Call) and isinstance(x.func, ast.Attribute) and x.func.attr in ("span", "start", "end") for f in nested for x in ast.walk(f.node)):
        a_, b_ = norm(scans[0].args[0]), norm(subs[0].args[1])
        ctx.ob(rule, f"{outer.qual} :: tag spans and substitution run over the same string", a_ == b_,
               f"the spans come from a scan of `{a_}`, the substitution (whose match offsets they are compared with) runs over `{b_}`: "
               "offsets into different strings do not compare, a tag on a later line is no longer recognised as protected", where(outer, subs[0]))
    ctx.ob(rule, f"{outer.qual} :: the replacement decision does not depend on earlier matches", not bad,
           "every match is judged on its own (against all tag spans): a cursor or other state carried from one match to the next makes the "
           "result depend on the order and position of unrelated matches; " + "; ".join(f"{f.name}: {why}" for f, _x, why in bad),
           where(bad[0][0], bad[0][1]) if bad else where(outer, outer.node))


def _emitted_constants(prog, fi: FuncInfo, expr: ast.AST, node: Node, depth: int = 0) -> set[str]:
    """String constants that can be part of the value (data flow only, not conditions)."""
    flow = prog.flow(fi)
    out: set[str] = set()
    seen: set[int] = set()

    def go(e: ast.AST, n: Node) -> None:
        if isinstance(e, ast.Constant) and isinstance(e.value, str):
            out.add(e.value)
        elif isinstance(e, ast.Name):
            for d in flow.reaching(n, e.id):
                if d.id in seen:
                    continue
                seen.add(d.id)
                if d.value is not None and d.kind in ("assign", "aug"):
                    go(d.value, d.node)
                if d.kind == "aug":
                    go(ast.Name(id=e.id, ctx=ast.Load()), d.node)  # x += v also keeps the previous value of x
        elif isinstance(e, ast.BinOp):
            go(e.left, n)
            go(e.right, n)
        elif isinstance(e, ast.JoinedStr):
            for v in e.values:
                go(v.value if isinstance(v, ast.FormattedValue) else v, n)
        elif isinstance(e, ast.IfExp):
            go(e.body, n)
            go(e.orelse, n)

    go(expr, node)
    return out


# -------------------------------------------------------------------------------------- R-NONINT
def check_nonint(ctx: Ctx, options: tuple[str, ...]) -> None:
    """An on/off option of fill_markdown influences nothing but its guarded consumer call."""
    repo, prog = ctx.repo, ctx.prog
    fm = repo.func("flowmark.linewrapping.markdown_filling:fill_markdown")
    flow = prog.flow(fm)
    for opt in options:
        touched = []
        for n in flow.cfg.nodes:
            for ex in flow.node_exprs(n):
                sl = prog.slice(fm, ex, n, control=True)
                if opt in sl.params():
                    touched.append(n)
                    break
        tests = [n for n in touched if n.kind == "test"]
        others = [n for n in touched if n.kind != "test"]
        # a plain copy of the option into a local (`x = opt`) is the option under another name: what x influences is in
        # `touched` as well, the copy itself does nothing
        others = [n for n in others if not (n.kind == "stmt" and isinstance(n.ast, ast.Assign) and len(n.ast.targets) == 1 and isinstance(n.ast.targets[0], ast.Name)
                                            and isinstance(n.ast.value, ast.Name) and origins(prog, fm, n.ast.value, n) == frozenset({("param", opt)}))]
        ok = len(tests) == 1 and origins(prog, fm, tests[0].ast, tests[0]) == frozenset({("param", opt)}) and len(others) == 1 \
            and others[0].kind == "stmt" and isinstance(others[0].ast, ast.Expr) and isinstance(others[0].ast.value, ast.Call)
        ctx.ob("R-NONINT", f"{fm.qual} :: `{opt}` influences only its consumer call", ok,
               f"statements depending on `{opt}`: {[x.text()[:50] for x in touched]} - expected exactly `if {opt}:` and the one call it guards",
               where(fm, tests[0] if tests else fm.node))


def check_list_spacing_confinement(ctx: Ctx) -> None:
    """list_spacing can change nothing but the blank lines between items."""
    from .common import callers_index
    repo, prog = ctx.repo, ctx.prog
    rm = get_model(ctx)
    cls = repo.cls("flowmark.formats.flowmark_markdown:MarkdownNormalizer")
    init = cls.methods["__init__"]
    # attribute that stores the option
    attr = None
    for n in walk_no_nested(init.node):
        if isinstance(n, (ast.Assign, ast.AnnAssign)) and n.value is not None and isinstance(n.value, ast.Name) and n.value.id == "list_spacing":
            tg = n.targets[0] if isinstance(n, ast.Assign) else n.target
            if isinstance(tg, ast.Attribute):
                attr = tg.attr
    if attr is None:
        raise AnalysisError("renderer attribute holding list_spacing not found")
    lm = rm.methods.get("List")
    im = rm.methods.get("ListItem")
    readers = []
    for m in cls.methods.values():
        for n in walk_no_nested(m.node):
            if isinstance(n, ast.Attribute) and n.attr == attr and isinstance(n.ctx, ast.Load):
                readers.append(m)
    own = exclusive_helpers(prog, lm)

    def _dead_private(m_) -> bool:
        """a private helper nothing refers to any more (its text was spliced into its caller): not part of the program"""
        return m_.name.startswith("_") and not m_.name.startswith("__") and not callers_index(prog).get(m_.qual) \
            and not any(isinstance(x, ast.Attribute) and x.attr == m_.name for mm in cls.methods.values() if mm is not m_ for x in ast.walk(mm.node))

    readers = [m for m in readers if not _dead_private(m)]
    ctx.ob("R-NONINT-spacing", f"{cls.qual} :: self.{attr} is read only by the list renderer", bool(readers) and all(m is lm or m.qual in own for m in readers),
           f"the list-spacing mode may be consulted only where list tightness is decided; read in {sorted({m.name for m in readers})}",
           where(cls, cls.node))
    # it flows only into the tightness flag
    flow = prog.flow(lm)
    tight_attr = None
    dependents = []
    for n in flow.cfg.nodes:
        for ex in flow.node_exprs(n):
            sl = prog.slice(lm, ex, n, control=True)
            if f"self.{attr}" in sl.attrs() and n.kind == "stmt":
                if isinstance(n.ast, ast.Expr) and not any(isinstance(x, (ast.Call, ast.Await, ast.Yield, ast.YieldFrom)) for x in ast.walk(n.ast)):
                    continue  # the subject of a `match`: evaluated, nothing stored
                dependents.append(n)
    self_stores = []
    for n in dependents:
        if isinstance(n.ast, (ast.Assign,)) and isinstance(n.ast.targets[0], ast.Attribute):
            self_stores.append(n.ast.targets[0].attr)
            tight_attr = n.ast.targets[0].attr
    dependents = [n for n in dependents if not _is_log_call(n.ast) and not isinstance(n.ast, (ast.Break, ast.Continue, ast.Pass))]  # (jumps store nothing)
    nonlocal_dep = [n for n in dependents if not (isinstance(n.ast, ast.Assign) and (isinstance(n.ast.targets[0], ast.Name) or
                    (isinstance(n.ast.targets[0], ast.Attribute) and n.ast.targets[0].attr == tight_attr)))]
    ctx.ob("R-NONINT-spacing", f"{lm.qual} :: the mode flows only into the tightness flag", tight_attr is not None and not nonlocal_dep and len(set(self_stores)) == 1,
           f"statements depending on the mode: {[x.text()[:50] for x in dependents]}; it may only set the current-list tightness",
           where(lm, lm.node))
    if tight_attr is None:
        return
    # the tightness flag is read only by the item-separator guard (+ the save in render_list)
    reads = []
    for m in cls.methods.values():
        mflow = prog.flow(m)
        for n in mflow.cfg.nodes:
            for ex in mflow.node_exprs(n):
                for sub in walk_no_nested(ex):
                    if isinstance(sub, ast.Attribute) and sub.attr == tight_attr and isinstance(sub.ctx, ast.Load):
                        reads.append((m, n))
    ok = True
    for m, n in reads:
        if m is im and n.kind == "test":
            continue
        if m is lm and n.kind == "stmt" and isinstance(n.ast, ast.Assign) and isinstance(n.ast.targets[0], ast.Name):
            continue  # old_tight = self._current_list_tight
        if m.name == "__init__":
            continue
        if m.qual in own and n.kind == "stmt" and isinstance(n.ast, ast.Assign) and isinstance(n.ast.targets[0], ast.Name):
            continue  # the same save, in a helper only the list renderer uses
        if m.name.startswith("_") and not m.name.startswith("__") and not callers_index(prog).get(m.qual) \
                and not any(isinstance(x, ast.Attribute) and x.attr == m.name for mm in cls.methods.values() if mm is not m for x in ast.walk(mm.node)):
            continue  # a private helper nothing refers to any more (its text was spliced into its caller): not part of the program
        ok = False
    ctx.ob("R-NONINT-spacing", f"{cls.qual} :: self.{tight_attr} is read only by the item separator", ok and bool(reads),
           f"reads of the tightness flag: {[(m.name, n.text()[:40]) for m, n in reads]}", where(cls, cls.node))
    # in render_list_item the flag guards only the emission of the separator line
    iflow = prog.flow(im)
    for n in iflow.cfg.nodes:
        if n.kind == "test" and tight_attr in norm(n.ast):
            controlled = [x for x in iflow.cfg.nodes if any(b is n for b, _ in all_guards(prog, im, x))]
            # what is emitted under the test: `result += ...`, or a local holding the separator (`item_break = ...`)
            emits = [x for x in controlled if x.kind == "stmt" and (isinstance(x.ast, ast.AugAssign) or (
                isinstance(x.ast, ast.Assign) and len(x.ast.targets) == 1 and isinstance(x.ast.targets[0], ast.Name)))]
            bad = []
            for x in emits:
                v = _emitted_constants(prog, im, x.ast.value, x)
                if not v <= {"\n", ""}:
                    bad.append(x)
            other = [x for x in controlled if x.kind == "stmt" and not isinstance(x.ast, (ast.AugAssign, ast.Pass)) and x not in emits
                     and not (isinstance(x.ast, ast.Assign) and isinstance(x.ast.targets[0], ast.Attribute))]
            ctx.ob("R-NONINT-spacing", f"{im.qual} :: tightness controls only the blank separator line", not bad and not other and bool(emits),
                   "under the tightness test only a (prefix-stripped) blank line may be emitted; "
                   f"controlled statements: {[x.text()[:40] for x in controlled]}", where(im, n))
    # save / restore pairing around the item loop
    saves = [n for n in flow.cfg.nodes if n.kind == "stmt" and isinstance(n.ast, ast.Assign) and isinstance(n.ast.targets[0], ast.Name)
             and isinstance(n.ast.value, ast.Attribute) and n.ast.value.attr == tight_attr]
    restores = [n for n in flow.cfg.nodes if n.kind == "stmt" and isinstance(n.ast, ast.Assign) and isinstance(n.ast.targets[0], ast.Attribute)
                and n.ast.targets[0].attr == tight_attr and isinstance(n.ast.value, ast.Name)
                and any(d.node in saves for d in flow.reaching(n, n.ast.value.id))]
    ok = bool(saves) and bool(restores)
    if ok:
        for r in flow.cfg.returns():
            if flow.cfg.path_avoiding(flow.cfg.entry, r, set(restores)) is not None:
                ok = False
    ctx.ob("R-NONINT-spacing", f"{lm.qual} :: tightness saved and restored around the item loop", ok,
           "a nested list must not leak its tightness into the enclosing list: the previous value is saved and restored on every path",
           where(lm, lm.node))
