"""R-HAZARD (C01): the line-start escaper covers the block starts that can interrupt a paragraph."""

from __future__ import annotations

import ast
import re

from ..cfg import walk_no_nested
from ..constfold import Folder, RegexConst, Unknown
from ..dataflow import origins
from ..decide import Decider, LoopFacts, expand_expr, role_of
from ..loader import AnalysisError, ConstInfo, FuncInfo, site_packages
from ..regexlang import Regex, first_word_language, included, product, shortest_word
from ..report import Ctx
from .common import direct_guards, norm, where

PRINTABLE = ((33, 126),)

# shape classes of first words (the key of a finding is the class, so a *new* uncovered class is a new violation)
SUBCLASSES = [
    ("heading `#...`", r"#+"),
    ("bullet marker `-`/`*`/`+`", r"[-*+]"),
    ("ordered marker `1.`/`1)`", r"[0-9]+[.)]"),
    ("bare quote marker `>`", r">"),
    ("quote marker glued to text `>x`", r">[^\s]+"),
    ("setext underline `=`, `===`", r"=+"),
    ("dash run `--`, `---` (setext underline / thematic break)", r"-{2,}"),
    ("star run `**`, `***` (thematic break)", r"\*{2,}"),
    ("underscore run `_`, `___` (thematic break)", r"_+"),
    ("backtick fence", r"`{3,}[^\s]*"),
    ("tilde fence", r"~{3,}[^\s]*"),
]


def marko_block_patterns() -> dict[str, tuple[str, int, str]]:
    """name -> (pattern, flags, where) of the marko constants that decide whether a line interrupts a paragraph."""
    path = site_packages() / "marko" / "block.py"
    try:
        tree = ast.parse(path.read_text())
    except (OSError, SyntaxError) as e:
        raise AnalysisError(f"cannot read {path}: {e}") from e
    out: dict[str, tuple[str, int, str]] = {}
    breaking: set[str] = set()

    def flags_of(call: ast.Call) -> int:
        fl = 0
        exprs = [k.value for k in call.keywords if k.arg == "flags"] + list(call.args[1:2])
        for ex in exprs:
            for n in ast.walk(ex):
                if isinstance(n, ast.Attribute) and n.attr in ("MULTILINE", "M"):
                    fl |= re.M
                if isinstance(n, ast.Attribute) and n.attr in ("DOTALL", "S"):
                    fl |= re.S
                if isinstance(n, ast.Attribute) and n.attr in ("IGNORECASE", "I"):
                    fl |= re.I
        return fl

    for c in tree.body:
        if not isinstance(c, ast.ClassDef):
            continue
        for st in c.body:
            if isinstance(st, ast.Assign) and isinstance(st.targets[0], ast.Name):
                name = st.targets[0].id
                if name == "breaks_paragraph" and isinstance(st.value, ast.Constant) and st.value.value is True:
                    breaking.add(c.name)
                if name == "pattern" and isinstance(st.value, ast.Call) and st.value.args and isinstance(st.value.args[0], ast.Constant):
                    if c.name in ("Heading", "FencedCode", "ThematicBreak", "List"):
                        out[c.name] = (st.value.args[0].value, flags_of(st.value), f"marko/block.py:{st.lineno}")
            if isinstance(st, ast.FunctionDef) and c.name == "Quote" and st.name == "match":
                for n in ast.walk(st):
                    if isinstance(n, ast.Call) and isinstance(n.func, ast.Attribute) and n.func.attr == "expect_re" and n.args \
                            and isinstance(n.args[0], ast.Constant):
                        out["Quote"] = (n.args[0].value, 0, f"marko/block.py:{n.lineno}")
            if isinstance(st, ast.FunctionDef) and c.name == "Paragraph" and st.name == "is_setext_heading":
                for n in ast.walk(st):
                    if isinstance(n, ast.Call) and isinstance(n.func, ast.Attribute) and n.func.attr == "match" and n.args \
                            and isinstance(n.args[0], ast.Constant):
                        out["SetextUnderline"] = (n.args[0].value, 0, f"marko/block.py:{n.lineno}")
    want = {"Heading", "FencedCode", "ThematicBreak", "List", "Quote", "SetextUnderline"}
    if set(out) != want:
        raise AnalysisError(f"marko block patterns: found {sorted(out)}, expected {sorted(want)} (dependency changed)")
    if breaking != {"BlankLine", "Heading", "FencedCode", "Quote"}:
        raise AnalysisError(f"marko classes with breaks_paragraph=True are {sorted(breaking)}; the hazard table was confirmed for "
                            "BlankLine/Heading/FencedCode/Quote (+ List, ThematicBreak, setext in Paragraph.break_paragraph)")
    return out


def escaper_regexes(ctx: Ctx) -> tuple[object, list[tuple[str, RegexConst]]]:
    repo = ctx.repo
    fi = repo.func("flowmark.linewrapping.text_wrapping:markdown_escape_word")
    folder = Folder(repo)
    regs: list[tuple[str, RegexConst]] = []
    for n in walk_no_nested(fi.node):
        if isinstance(n, ast.Call) and isinstance(n.func, ast.Attribute) and n.func.attr in ("match", "fullmatch", "search"):
            r = repo.resolve_expr(n.func.value, fi.module, fi)
            if isinstance(r, ConstInfo):
                try:
                    v = folder.const(r.qual)
                except Unknown as e:
                    raise AnalysisError(f"escaper pattern {r.qual} cannot be folded: {e}") from e
                if isinstance(v, RegexConst):
                    regs.append((r.qual, v))
            elif isinstance(n.func.value, ast.Name) and n.func.value.id == "re" and n.args and isinstance(n.args[0], ast.Constant):
                regs.append((f"{fi.qual}:inline", RegexConst(n.args[0].value, 0)))
    return fi, regs


def check_hazards(ctx: Ctx) -> None:
    prog = ctx.prog
    fi, regs = escaper_regexes(ctx)
    ctx.require("R-HAZARD", "regex constants consulted by markdown_escape_word", len(regs), 1)
    if not regs:
        return
    esc = []
    for q, rc in regs:
        rx = Regex(rc.pattern, rc.flags, q)
        if not rx.end_anchored:
            # .match without `$`: any word with a matching prefix is escaped
            esc.append(first_word_language(rx, strip_indent=False))
        else:
            esc.append(rx.glushkov())
    ctx.note("escaper_patterns", {q: rc.pattern for q, rc in regs})
    pats = marko_block_patterns()
    ctx.note("marko_block_start_patterns", {k: v[0] for k, v in pats.items()})
    fws = {}
    for name, (p, fl, loc) in pats.items():
        fws[name] = first_word_language(Regex(p, fl, name))
    # ThematicBreak.match additionally requires one distinct character (confirmed in the marko source)
    src = (site_packages() / "marko" / "block.py").read_text()
    if 'len(set(re.sub(r"\\s+", "", m.group()))) == 1' not in src:
        raise AnalysisError("marko ThematicBreak.match no longer has the single-character condition the hazard table assumes")
    fws["ThematicBreak"] = product(fws["ThematicBreak"], Regex(r"-+|_+|\*+").glushkov())
    filters = [(label, Regex(p).glushkov()) for label, p in SUBCLASSES]
    # every hazard word falls into one of the shape classes (otherwise the table is incomplete)
    for name, fw in fws.items():
        w = included(fw, [f for _, f in filters], PRINTABLE)
        ctx.ob("R-HAZARD", f"marko {name} :: first words classified", w is None,
               f"a first word that starts a {name} block is outside every shape class of the hazard table: {w!r}", pats[name][2])
    n_cov = 0
    for label, flt in filters:
        witness = None
        src = None
        nonempty = False
        for name, fw in fws.items():
            h = product(fw, flt)
            sw = shortest_word(h, PRINTABLE)
            if sw is None:
                continue
            nonempty = True
            w = included(h, esc, PRINTABLE)
            if w is not None and witness is None:
                witness, src = w, name
        if not nonempty:
            continue
        n_cov += 1
        ctx.ob("R-HAZARD", f"{fi.qual} :: {label}", witness is None,
               (f"a wrapped line whose first word is {witness!r} is read by the parser as the start of a {src} block "
                f"({pats[src][0]!r}), and markdown_escape_word leaves that word unchanged" if witness is not None
                else "every first word of this shape that can start a block is rewritten by the escaper"),
               where(fi, fi.node))
    ctx.require("R-HAZARD", "hazard shape classes with a non-empty language", n_cov, 6)


def check_escape_site(ctx: Ctx) -> None:
    """The escaper is applied to the first word of every wrapped continuation line in Markdown mode, on both wrapper chains."""
    repo, prog = ctx.repo, ctx.prog
    wl = repo.func("flowmark.linewrapping.text_wrapping:wrap_paragraph_lines")
    esc = repo.func("flowmark.linewrapping.text_wrapping:markdown_escape_word")
    flow = prog.flow(wl)
    sites = [(n, c) for n, c in flow.all_calls() if prog.resolve_call(wl, c) == [esc]]
    ctx.require("R-ESCAPE-SITE", "call to markdown_escape_word in wrap_paragraph_lines", len(sites), 1)
    # where a new output line is started: `current_line = [X]` inside the word loop. Under "Markdown mode, a line has already
    # been emitted" X must be escape(word); without Markdown mode it must be the word. Decided by evaluating the loop body
    # under those valuations, so that the guard may be spelled as an if, a conditional expression or a named temporary -
    # and so that an extra conjunct that narrows it shows up as a second possible outcome.
    starts = []
    for n in flow.cfg.nodes:
        if n.kind == "stmt" and isinstance(n.ast, ast.Assign) and isinstance(n.ast.value, ast.List) and len(n.ast.value.elts) == 1 \
                and isinstance(n.ast.targets[0], ast.Name):
            heads = [h for h in flow.cfg.nodes if h.kind == "for" and n in flow.loop_body_nodes(h) and isinstance(h.ast.target, ast.Name)]
            if heads:
                starts.append((n, min(heads, key=lambda h: len(flow.loop_body_nodes(h)))))
    ctx.require("R-ESCAPE-SITE", "new-line starts in wrap_paragraph_lines", len(starts), 1)
    for n, h in starts:
        facts = LoopFacts(prog, wl, h)
        word = h.ast.target.id

        def value_leaf(cur: FuncInfo, e: ast.AST, aliases: frozenset):
            if isinstance(e, ast.Name) and "word" in role_of(e, aliases):
                return "WORD"
            if isinstance(e, ast.Call) and len(e.args) == 1 and prog.resolve_call(cur, e) == [esc] and "word" in role_of(e.args[0], aliases):
                return "ESC(WORD)"
            return None

        # the output lines: lists the loop only ever appends to (never rebinds). "A line has already been emitted" may be
        # spelled as a latch (first_line) or as a test on such a list (len(lines) > 0, `if lines`, not lines ...)
        from .term import _facts as _nonempty_facts

        body_ = flow.loop_body_nodes(h)
        appended = {d.var for x in body_ for d in flow.defs_at[x] if d.kind == "mutate" and isinstance(d.value, ast.Call)
                    and isinstance(d.value.func, ast.Attribute) and d.value.func.attr == "append"}
        out_lists = {v for v in appended if not any(d.var == v and d.kind != "mutate" for x in body_ for d in flow.defs_at[x])}
        res: dict[str, set] = {}
        for label, md, later in (("markdown, continuation line", True, True), ("plain text", False, True)):
            def atom(leaf: ast.AST, aliases: frozenset, md=md, later=later) -> bool | None:
                if isinstance(leaf, ast.Name):
                    if "md" in role_of(leaf, aliases):
                        return md
                    if leaf.id in facts.latches:
                        return (not facts.latches[leaf.id]) if later else facts.latches[leaf.id]
                if isinstance(leaf, (ast.Name, ast.Compare, ast.Call)):
                    t_, f_ = _nonempty_facts(leaf, True), _nonempty_facts(leaf, False)
                    if len(t_) == 1 and t_ <= out_lists and not f_:
                        return later       # true exactly when a line has been emitted
                    if len(f_) == 1 and f_ <= out_lists and not t_:
                        return not later
                return None

            dec = Decider(prog, atom, value_leaf=value_leaf)
            al = frozenset({f"word={word}", "md=is_markdown"})
            vals: set = set()
            for be in [x for x, lab in h.succ if lab == "iter"]:
                for end, env, benv, _outs in dec.walk(wl, be, lambda x, n=n, h=h: x is n or x is h, al):
                    if end is n:
                        vals |= dec.ev(wl, n.ast.value.elts[0], env, benv, env.get("__aliases__", al), 0)
            res[label] = vals
        ctx.note("new_line_start_values", {k: sorted(map(str, v)) for k, v in res.items()})
        got = res["markdown, continuation line"]
        ctx.ob("R-ESCAPE-SITE", f"{wl.qual} :: escape guarded by is_markdown and not first line", got == {"ESC(WORD)"},
               "the escaper must run for every continuation line in Markdown mode: with is_markdown set and a line already emitted, "
               f"the word that starts the new line is {sorted(map(str, got))}", where(wl, n))
        ctx.ob("R-ESCAPE-SITE", f"{wl.qual} :: new line starts with the escaped word", "ESC(WORD)" in got and got <= {"ESC(WORD)", "WORD"},
               f"the word placed at the start of a wrapped line must be the (possibly) escaped one; it is {sorted(map(str, got))}", where(wl, n))
        ctx.ob("R-ESCAPE-SITE", f"{wl.qual} :: escaped value is the loop word", res["plain text"] == {"WORD"},
               f"without Markdown mode the word is placed unchanged; it is {sorted(map(str, res['plain text']))}", where(wl, n))
    # is_markdown reaches wrap_paragraph_lines on both wrapper chains
    for q in ("flowmark.linewrapping.line_wrappers:line_wrap_to_width", "flowmark.linewrapping.line_wrappers:line_wrap_by_sentence"):
        fac = repo.func(q)
        ok = False
        stack = [d for d in fac.local_defs.values() if hasattr(d, "node")]
        for inner in stack:
            iflow = prog.flow(inner)
            for n, c in iflow.all_calls():
                t = prog.resolve_call(inner, c)
                if isinstance(t, list) and t[0].name in ("wrap_paragraph", "wrap_paragraph_lines"):
                    for kw in c.keywords:
                        if kw.arg == "is_markdown" and origins(prog, inner, kw.value, n) == frozenset({("free", "is_markdown")}):
                            ok = True
        ctx.ob("R-ESCAPE-SITE", f"{q} :: is_markdown threaded to the wrapping core", ok,
               "the factory's is_markdown must reach wrap_paragraph(_lines) unchanged (line-start escaping is off otherwise)", where(fac, fac.node))
    wp = repo.func("flowmark.linewrapping.text_wrapping:wrap_paragraph")
    wflow = prog.flow(wp)
    ok = False
    for n, c in wflow.all_calls():
        if prog.resolve_call(wp, c) == [wl]:
            for kw in c.keywords:
                if kw.arg == "is_markdown" and origins(prog, wp, kw.value, n) == frozenset({("param", "is_markdown")}):
                    ok = True
    ctx.ob("R-ESCAPE-SITE", f"{wp.qual} :: is_markdown threaded to wrap_paragraph_lines", ok,
           "wrap_paragraph must pass is_markdown on unchanged", where(wp, wp.node))


def check_escaper_on_tokens(ctx: Ctx) -> None:
    """The line-start escaper inserts a backslash into the word it is given. It may only ever be given a *token* of the
    atomic-aware word splitter (a word of the fill loop): a code span, link or tag is one token there, so the escaper sees its
    first characters only when the whole construct starts the line. Applied to a piece cut out of an assembled line
    (`line.partition(" ")[0]`, a slice, a re-split) it can land inside a construct that contains spaces."""
    repo, prog = ctx.repo, ctx.prog
    esc = repo.func("flowmark.linewrapping.text_wrapping:markdown_escape_word")
    n_sites = 0
    for fi in repo.functions.values():
        if isinstance(fi.node, ast.Lambda) or fi is esc or not fi.module.name.startswith("flowmark."):
            continue
        if not any(isinstance(x, ast.Name) and x.id == esc.name or isinstance(x, ast.Attribute) and x.attr == esc.name for x in ast.walk(fi.node)):
            continue
        flow = prog.flow(fi)
        for n, c in flow.all_calls():
            if prog.resolve_call(fi, c) != [esc] or not c.args:
                continue
            n_sites += 1
            org = origins(prog, fi, c.args[0], n)
            # a loop variable over the splitter's words (directly, or over a list of them)
            ok = bool(org) and all(o[0] in ("iter", "for") for o in org)
            ctx.ob("R-ESCAPE-SITE", f"{fi.qual} :: {norm(c)[:60]} escapes a whole token", ok,
                   "the escaper must be applied to a word of the word splitter (one token per atomic construct), not to a piece cut out "
                   "of text by other means; its argument comes from " + ", ".join(sorted(str(o)[:60] for o in org)), where(fi, c))
    ctx.require("R-ESCAPE-SITE", "call sites of the line-start escaper", n_sites, 1)


def check_escape_action(ctx: Ctx) -> None:
    """L2: every return of the escaper is the word itself or the word with one backslash inserted."""
    repo, prog = ctx.repo, ctx.prog
    fi = repo.func("flowmark.linewrapping.text_wrapping:markdown_escape_word")
    flow = prog.flow(fi)
    p = fi.params[0]
    n_ret = 0
    for r in flow.cfg.returns():
        v = r.ast.value
        n_ret += 1
        ok, why = _is_word_plus_backslash(expand_expr(prog, fi, v, r) if v is not None else v, p)
        ctx.ob("R-ESCAPE-ACTION", f"{fi.qual} :: {norm(v)}", ok,
               f"the escaper may only return its argument or the argument with a single backslash inserted ({why})", where(fi, r))
    ctx.require("R-ESCAPE-ACTION", "returns of markdown_escape_word", n_ret, 2)
    # the guarded returns do insert the backslash
    for r in flow.cfg.returns():
        guards = direct_guards(prog, fi, r)
        if any(lab == "T" for _, lab, _ in guards):
            has_bs = any(isinstance(c, ast.Constant) and c.value == "\\" for c in ast.walk(expand_expr(prog, fi, r.ast.value, r)))
            ctx.ob("R-ESCAPE-ACTION", f"{fi.qual} :: matched word gets a backslash: {norm(r.ast.value)}", has_bs,
                   "a word recognised as a block marker must be returned with a backslash", where(fi, r))


def _is_word_plus_backslash(v: ast.AST, p: str) -> tuple[bool, str]:
    if isinstance(v, ast.Name) and v.id == p:
        return True, "identity"
    parts: list[ast.AST] = []

    def flat(e: ast.AST) -> None:
        if isinstance(e, ast.BinOp) and isinstance(e.op, ast.Add):
            flat(e.left)
            flat(e.right)
        elif isinstance(e, ast.JoinedStr):
            for x in e.values:
                parts.append(x.value if isinstance(x, ast.FormattedValue) else x)
        else:
            parts.append(e)

    flat(v)
    bs = [x for x in parts if isinstance(x, ast.Constant)]
    if len(bs) != 1 or bs[0].value != "\\":
        return False, f"constants {[getattr(x, 'value', None) for x in bs]}"
    rest = [x for x in parts if not isinstance(x, ast.Constant)]
    txt = [norm(x) for x in rest]
    if txt == [p]:
        return True, "backslash + word"
    # word[:k] + "\\" + word[k:]  (k = -1 here): the slices must partition the word
    if len(rest) == 2 and all(isinstance(x, ast.Subscript) and isinstance(x.value, ast.Name) and x.value.id == p for x in rest):
        a, b = rest
        if isinstance(a.slice, ast.Slice) and a.slice.lower is None and a.slice.upper is not None:
            k = norm(a.slice.upper)
            if isinstance(b.slice, ast.Slice) and b.slice.upper is None and b.slice.lower is not None and norm(b.slice.lower) == k:
                return True, "partition"
            if not isinstance(b.slice, ast.Slice) and norm(b.slice) == k and k == "-1":
                return True, "partition word[:-1] + word[-1]"
    return False, f"parts {txt}"
