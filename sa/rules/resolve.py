"""R-RESOLVE (C17, C18): the filter pipeline of the file resolver."""

from __future__ import annotations

import ast

from ..cfg import Node, must_edges, walk_no_nested
from ..dataflow import bind_call, chain_key, fmt_origin, origins
from ..loader import AnalysisError, FuncInfo
from ..report import Ctx
from .common import all_guards, call_name, direct_guards, norm, where

RESOLVER = "flowmark.file_resolver.resolver:FileResolver"


_ROLE = {"_walk_directory": "walk", "_expand_glob": "glob", "_should_include_explicit": "explicit", "_exceeds_max_size": "size",
         "_is_dir_excluded": "dirprune", "resolve": "resolve"}


def _method(ctx: Ctx, name: str) -> FuncInfo:
    """A method of the resolver by its role (sa.anchors); `name` is the conventional spelling of that role."""
    from .. import anchors

    return anchors.resolver_method(ctx, _ROLE[name])


def _attr_kind(ctx: Ctx, key: str) -> str | None:
    """What the resolver attribute behind a chain key (`self._exclude_spec`) holds."""
    from .. import anchors

    return anchors.resolver_attr_kinds(ctx).get(key.rpartition(".")[2])


def _loader_kinds(ctx: Ctx, names) -> set[str]:
    from .. import anchors

    out: set[str] = set()
    for n in names:
        out |= anchors.loader_kinds(ctx, n)
    return out


def _is_resolver_helper(f: FuncInfo) -> bool:
    """A predicate of the discovery code: a method of the resolver, or a private function / method of the file_resolver
    package (helpers move between the class and module level)."""
    if isinstance(f.node, ast.Lambda):
        return False
    if f.parent is not None:
        return _is_resolver_helper(f.parent)  # a local function of such a helper
    if f.cls is not None and f.cls.qual == RESOLVER:
        return True
    return f.module.name.startswith("flowmark.file_resolver") and f.name.startswith("_") and not f.name.startswith("__")


def _yields(flow) -> list[Node]:
    out = []
    for n in flow.cfg.nodes:
        for ex in flow.node_exprs(n):
            if any(isinstance(s, (ast.Yield, ast.YieldFrom)) for s in walk_no_nested(ex)):
                out.append(n)
    return out


def filter_kinds(ctx: Ctx, fi: FuncInfo, expr: ast.AST, node: Node, depth: int = 0, comp_bind_extra: dict | None = None) -> set[str]:
    """Which filters does this condition consult: include / exclude / size / gitignore / toolignore / symlink / isfile."""
    prog = ctx.prog
    kinds: set[str] = set()
    comp_bind: dict[str, ast.AST] = dict(comp_bind_extra or {})
    for g in walk_no_nested(expr):
        if isinstance(g, ast.comprehension) and isinstance(g.target, ast.Name):
            comp_bind[g.target.id] = g.iter
    # a flag computed earlier from the size limit (`too_big = ... st_size > files_max_size ...; if too_big: continue`)
    for x in walk_no_nested(expr):
        if isinstance(x, ast.Name) and isinstance(x.ctx, ast.Load) and depth == 0:
            defs = prog.flow(fi).reaching(node, x.id)
            if defs and all(d.kind == "assign" for d in defs):
                sl0 = prog.slice(fi, x, node, control=True)
                if any(a.endswith("files_max_size") for a in sl0.attrs()) and any(op == ".st_size" or "st_size" in str(op) for op, _ in sl0.ops):
                    kinds.add("size")
    for c in walk_no_nested(expr):
        if not isinstance(c, ast.Call):
            continue
        f = c.func
        if isinstance(f, ast.Attribute):
            if f.attr == "is_symlink":
                kinds.add("symlink")
            elif f.attr == "is_file":
                kinds.add("isfile")
            elif f.attr in ("match_file", "check_file", "match_files"):
                recv = f.value
                if isinstance(recv, ast.Name) and recv.id in comp_bind:
                    recv = comp_bind[recv.id]  # `any(spec.match_file(x) for spec in specs)`: classify by the iterable
                # ... and the iterable by what it re-packages: specs = [s for s in (self._exclude_spec, tool_ignore) if s], also
                # when that local belongs to the enclosing function (the test sits in a nested helper)
                rfi, rnode = fi, node
                for _step in range(4):
                    if not isinstance(recv, ast.Name):
                        break
                    rflow_ = prog.flow(rfi)
                    ds_ = rflow_.reaching(rnode, recv.id) if recv.id in rflow_.defs_of_var else []
                    if not ds_ and rfi.parent is not None and recv.id in prog.flow(rfi.parent).defs_of_var:
                        pf_ = prog.flow(rfi.parent)
                        ds_ = [d for d in pf_.defs if d.var == recv.id]
                        rfi = rfi.parent
                    if len(ds_) != 1 or ds_[0].kind != "assign" or ds_[0].value is None:
                        break
                    v_ = ds_[0].value
                    rnode = ds_[0].node
                    if isinstance(v_, (ast.ListComp, ast.GeneratorExp)) and len(v_.generators) == 1 and isinstance(v_.elt, ast.Name) \
                            and isinstance(v_.generators[0].target, ast.Name) and v_.elt.id == v_.generators[0].target.id:
                        recv = v_.generators[0].iter
                    elif isinstance(v_, ast.Call) and isinstance(v_.func, ast.Name) and v_.func.id in ("list", "tuple") and len(v_.args) == 1:
                        recv = v_.args[0]
                    elif isinstance(v_, ast.Call) and isinstance(v_.func, ast.Name) and v_.func.id == "filter" and len(v_.args) == 2:
                        recv = v_.args[1]
                    elif isinstance(v_, (ast.Tuple, ast.List)):
                        recv = v_
                    else:
                        break
                if rfi is not fi:
                    kinds |= _classify_spec_elements(ctx, rfi, recv, rnode, depth)
                    continue
                k = chain_key(recv) or ""
                if k and _attr_kind(ctx, k) in ("include", "exclude"):
                    kinds.add(_attr_kind(ctx, k))
                else:
                    sl = prog.slice(fi, recv, node)
                    names = sl.callees()
                    found = False
                    via_callers = set()
                    # a literal tuple / list of specs is classified element by element
                    for el in (recv.elts if isinstance(recv, (ast.Tuple, ast.List)) else [recv]):
                        via_callers |= _spec_kinds_from_callers(ctx, fi, el, node, depth)
                        if isinstance(el, ast.Name):
                            # a local that names a field of a record parameter: tool_ignore = walk.tool_ignore
                            from ..decide import expand_expr as _xp

                            el2 = _xp(prog, fi, el, node, strict=False)
                            if isinstance(el2, ast.Attribute):
                                via_callers |= _spec_kinds_from_callers(ctx, fi, el2, node, depth)
                    if via_callers:
                        kinds |= via_callers
                        found = True
                    lk = _loader_kinds(ctx, names)
                    ak = {_attr_kind(ctx, a) for a in sl.attrs()}
                    if "gitignore" in lk or "gitignore" in ak or any(p == "gitignore_specs" for p in sl.params()):
                        kinds.add("gitignore")
                        found = True
                    if "toolignore" in lk or "toolignore" in ak or "tool_ignore" in sl.params():
                        kinds.add("toolignore")
                        found = True
                    if "exclude" in ak:
                        kinds.add("exclude")
                        found = True
                    if "include" in ak:
                        kinds.add("include")
                        found = True
                    if not found:
                        kinds.add("spec?")
            else:
                t = prog.resolve_call(fi, c)
                if isinstance(t, list) and depth < 3 and _is_resolver_helper(t[0]):
                    callee = t[0]
                    if any(isinstance(x, ast.Attribute) and x.attr == "files_max_size" for x in walk_no_nested(callee.node)):
                        kinds.add("size")
                    cflow = prog.flow(callee)
                    for n2 in cflow.cfg.nodes:
                        for ex in cflow.node_exprs(n2):
                            kinds |= filter_kinds(ctx, callee, ex, n2, depth + 1) - {"isfile"}
        elif isinstance(f, ast.Name):
            if True:
                t = prog.resolve_call(fi, c)
                if isinstance(t, list) and depth < 3 and _is_resolver_helper(t[0]):
                    callee = t[0]
                    if any(isinstance(x, ast.Attribute) and x.attr == "files_max_size" for x in walk_no_nested(callee.node)):
                        kinds.add("size")
                    cflow = prog.flow(callee)
                    for n2 in cflow.cfg.nodes:
                        for ex in cflow.node_exprs(n2):
                            kinds |= filter_kinds(ctx, callee, ex, n2, depth + 1) - {"isfile"}
    return kinds


def _classify_spec_elements(ctx: Ctx, fi: FuncInfo, recv: ast.AST, node: Node, depth: int) -> set[str]:
    """kinds of the specs in a literal tuple / list (or of one spec expression), read in function `fi`"""
    out: set[str] = set()
    for el in (recv.elts if isinstance(recv, (ast.Tuple, ast.List)) else [recv]):
        k = chain_key(el) or ""
        if k and _attr_kind(ctx, k) in ("include", "exclude", "gitignore", "toolignore"):
            out.add(_attr_kind(ctx, k))
            continue
        got = _spec_kinds_from_callers(ctx, fi, el, node, depth)
        if not got:
            sl = ctx.prog.slice(fi, el, node)
            lk = _loader_kinds(ctx, sl.callees())
            ak = {_attr_kind(ctx, a) for a in sl.attrs()}
            for kind in ("gitignore", "toolignore", "exclude", "include"):
                if kind in lk or kind in ak:
                    got.add(kind)
            if "tool_ignore" in sl.params():
                got.add("toolignore")
        out |= got or {"spec?"}
    return out


def _spec_kinds_from_callers(ctx: Ctx, fi: FuncInfo, recv: ast.AST, node: Node, depth: int) -> set[str]:
    """A spec that reaches this function as a parameter, or as a field of a record parameter (`walk.tool_ignore`), is
    classified by what the callers put there."""
    from ..dataflow import bind_call
    from ..loader import ClassInfo
    from .common import callers_index

    prog = ctx.prog
    if depth > 2:
        return set()
    base, attr = recv, None
    if isinstance(recv, ast.Attribute) and isinstance(recv.value, ast.Name):
        base, attr = recv.value, recv.attr
    if not (isinstance(base, ast.Name) and base.id in fi.params and all(d.kind == "param" for d in prog.flow(fi).reaching(node, base.id))):
        return set()
    out: set[str] = set()
    for cq in sorted(callers_index(prog).get(fi.qual, ())):
        caller = prog.repo.functions.get(cq)
        if caller is None or isinstance(caller.node, ast.Lambda):
            continue
        cflow = prog.flow(caller)
        for cn, call in cflow.all_calls():
            if prog.resolve_call(caller, call) != [fi]:
                continue
            arg = bind_call(fi, call).get(base.id)
            if arg is None:
                continue
            exprs: list[tuple[ast.AST, Node]] = [(arg, cn)]
            if attr is not None:
                exprs = []
                if isinstance(arg, ast.Name):
                    for d in cflow.reaching(cn, arg.id):
                        if d.kind == "assign" and isinstance(d.value, ast.Call):
                            ci = prog.repo.resolve_expr(d.value.func, caller.module, caller) if isinstance(d.value.func, (ast.Name, ast.Attribute)) else None
                            if isinstance(ci, ClassInfo):
                                fields = [st.target.id for st in ci.node.body if isinstance(st, ast.AnnAssign) and isinstance(st.target, ast.Name)]
                                val = next((k.value for k in d.value.keywords if k.arg == attr), None)
                                if val is None and attr in fields and fields.index(attr) < len(d.value.args):
                                    val = d.value.args[fields.index(attr)]
                                if val is not None:
                                    exprs.append((val, d.node))
            for e, en in exprs:
                probe = ast.Call(func=ast.Attribute(value=e, attr="match_file", ctx=ast.Load()), args=[], keywords=[])
                out |= filter_kinds(ctx, caller, probe, en, depth + 1) - {"spec?"}
    return out


def _polarity_matched(test: ast.AST, label: str) -> bool:
    """True if taking `label` at this test means the consulted filter *matched* (truthy result)."""
    neg = isinstance(test, ast.UnaryOp) and isinstance(test.op, ast.Not)
    return (label == "T") != neg


def _helper_call(ctx: Ctx, fi: FuncInfo, expr: ast.AST) -> tuple[FuncInfo, bool] | None:
    """(helper method, negated) if expr is `self._helper(...)` or `not self._helper(...)` of the resolver class."""
    neg = False
    e = expr
    if isinstance(e, ast.UnaryOp) and isinstance(e.op, ast.Not):
        neg, e = True, e.operand
    if isinstance(e, ast.Call):
        t = ctx.prog.resolve_call(fi, e)
        if isinstance(t, list) and _is_resolver_helper(t[0]) and not any(
                isinstance(x, ast.Attribute) and x.attr == "files_max_size" for x in walk_no_nested(t[0].node)):
            return t[0], neg
    return None


def _conjuncts(test: ast.AST, label: str) -> list[tuple[ast.AST, bool]]:
    """(sub-condition, truth value it is known to have) when `test` evaluates to `label`."""
    truth = label == "T"
    if isinstance(test, ast.BoolOp) and isinstance(test.op, ast.And) and truth:
        return [(v, True) for v in test.values]
    if isinstance(test, ast.BoolOp) and isinstance(test.op, ast.Or) and not truth:
        return [(v, False) for v in test.values]
    return [(test, truth)]


def _filters_from_edges(ctx: Ctx, fi: FuncInfo, edges, depth: int = 0) -> dict[str, bool]:
    out: dict[str, bool] = {}
    for b, lab in sorted(edges, key=lambda x: x[0].id):
        if b.kind != "test":
            continue
        for part, truth in _conjuncts(b.ast, lab):
            h = _helper_call(ctx, fi, part) if depth < 3 else None
            if h is not None:
                callee, neg = h
                want = truth != neg  # required truth value of the helper's result
                out.update(_helper_filters(ctx, callee, want, depth + 1))
                continue
            neg = isinstance(part, ast.UnaryOp) and isinstance(part.op, ast.Not)
            inner = part.operand if neg else part
            if isinstance(inner, ast.Name) and (truth != neg) is False:
                # a flag that is known to be False here: `excluded = False ... if <filter matches>: excluded = True ... if excluded: continue`
                # - none of the filters that can set it has matched
                for k in _flag_kinds(ctx, fi, inner.id, b, depth):
                    out[k] = False
                continue
            for k in filter_kinds(ctx, fi, part, b):
                out[k] = truth != neg
    return out


def _flag_kinds(ctx: Ctx, fi: FuncInfo, name: str, at: Node, depth: int) -> set[str]:
    """Filter kinds whose match sets the boolean local `name` (initialised False, set by `name = True` under filter tests or
    by `name = <filter expression>`); empty when the variable is not such a flag."""
    prog = ctx.prog
    flow = prog.flow(fi)
    defs = [d for d in flow.defs if d.var == name and d.kind == "assign"]
    if not defs or any(d.kind not in ("assign",) for d in flow.defs if d.var == name):
        return set()
    kinds: set[str] = set()
    has_init = False
    for d in defs:
        v = d.value
        if isinstance(v, ast.Constant) and v.value is False:
            has_init = True
            continue
        if isinstance(v, ast.Constant) and v.value is True:
            for b2, lab2 in all_guards(prog, fi, d.node):
                if b2.kind == "test" and lab2 == "T":
                    comp = {}
                    for h2 in flow.cfg.nodes:
                        if h2.kind == "for" and isinstance(h2.ast.target, ast.Name) and d.node in flow.loop_body_nodes(h2):
                            comp[h2.ast.target.id] = h2.ast.iter
                    kinds |= filter_kinds(ctx, fi, b2.ast, b2, comp_bind_extra=comp) - {"isfile", "spec?"}
            continue
        if v is not None:
            kinds |= filter_kinds(ctx, fi, v, d.node) - {"isfile", "spec?"}
    return kinds if has_init else set()


def _helper_filters(ctx: Ctx, callee: FuncInfo, want: bool, depth: int) -> dict[str, bool]:
    """Filters (kind -> matched) known on every path of `callee` on which it answers `want`: a `return <want>` constant, or a
    `return <expression>` (then the expression is `want` too, which fixes the polarity of its conjuncts). Paths that
    return the opposite constant do not count."""
    flow = ctx.prog.flow(callee)
    accepting: list[tuple[Node, ast.AST | None]] = []
    for r in flow.cfg.returns():
        v = r.ast.value
        if isinstance(v, ast.Constant) and isinstance(v.value, bool):
            if v.value is want:
                accepting.append((r, None))
        elif v is not None:
            accepting.append((r, v))
    if not accepting:
        return {}
    result: dict[str, bool] | None = None
    doms = flow.cfg.dominators()
    for r, expr in accepting:
        f = _filters_from_edges(ctx, callee, must_edges(flow.cfg, flow.cfg.entry, r) or set(), depth)
        if expr is not None:
            for part, truth in _conjuncts(expr, "T" if want else "F"):
                h = _helper_call(ctx, callee, part) if depth < 3 else None
                if h is not None:
                    f.update(_helper_filters(ctx, h[0], truth != h[1], depth + 1))
                    continue
                neg = isinstance(part, ast.UnaryOp) and isinstance(part.op, ast.Not)
                for k in filter_kinds(ctx, callee, part, r):
                    f[k] = truth != neg
        # rejecting loops that every path to this return runs through: `for x in xs: if match(x): return <not want>`
        for h in doms.get(r, set()):
            if h.kind != "for":
                continue
            for t in flow.loop_body_nodes(h):
                if t.kind != "test":
                    continue
                for s, lab in t.succ:
                    if s.kind == "stmt" and isinstance(s.ast, ast.Return) and isinstance(s.ast.value, ast.Constant) and s.ast.value.value is (not want):
                        for part, truth in _conjuncts(t.ast, lab):
                            neg = isinstance(part, ast.UnaryOp) and isinstance(part.op, ast.Not)
                            comp = {}
                            # loop variables of every loop around the test (`for part in parts: for spec in (a, b): if spec.match...`)
                            for h2 in flow.cfg.nodes:
                                if h2.kind == "for" and isinstance(h2.ast.target, ast.Name) and (h2 is h or t in flow.loop_body_nodes(h2)):
                                    comp[h2.ast.target.id] = h2.ast.iter
                            for k in filter_kinds(ctx, callee, part, t, comp_bind_extra=comp):
                                f[k] = not (truth != neg)  # on the accepting path the rejecting condition was false
        result = f if result is None else {k: v for k, v in result.items() if f.get(k) == v}
    return result or {}


def _site_filters(ctx: Ctx, fi: FuncInfo, head: Node, site: Node) -> dict[str, bool]:
    """filter kind -> 'the filter matched' on the way from the loop head to the site (per-iteration must-edges),
    looking through predicate helpers of the resolver."""
    flow = ctx.prog.flow(fi)
    return _filters_from_edges(ctx, fi, must_edges(flow.cfg, head, site) or set())


def _check_explicit_helper(ctx: Ctx, expl: FuncInfo) -> None:
    prog = ctx.prog
    eflow = prog.flow(expl)
    f = _helper_filters(ctx, expl, True, 0)
    ctx.ob("R-RESOLVE-V1", f"{expl.qual} :: explicit file passed the size filter", f.get("size") is False,
           f"explicitly named files bypass exclusions but not the size limit; filters known when the file is accepted: {f}", where(expl, expl.node))
    n_ex = 0
    for n in eflow.cfg.nodes:
        for ex in eflow.node_exprs(n):
            parts = list(ex.values) if isinstance(ex, ast.BoolOp) and isinstance(ex.op, ast.And) else [ex]
            if n.kind == "stmt" and isinstance(n.ast, (ast.Return, ast.Assign, ast.Expr)) and getattr(n.ast, "value", None) is not None:
                v = n.ast.value
                parts = list(v.values) if isinstance(v, ast.BoolOp) and isinstance(v.op, ast.And) else [v]
            for i, part in enumerate(parts):
                kinds = filter_kinds(ctx, expl, part, n)
                h = _helper_call(ctx, expl, part)
                if h is not None:
                    kinds = kinds | set(_helper_filters(ctx, h[0], True, 1)) | set(_helper_filters(ctx, h[0], False, 1))
                if "exclude" not in kinds:
                    continue
                n_ex += 1
                gs = [(b, lab) for b, lab in all_guards(prog, expl, n) if b.kind == "test"]
                ok = any(lab == "T" and "force_exclude" in norm(b.ast) for b, lab in gs) or any("force_exclude" in norm(p) for p in parts[:i])
                ctx.ob("R-RESOLVE-V1", f"{expl.qual} :: exclusion of explicit files only under force_exclude", ok,
                       "exclusion patterns may filter an explicitly named file only when force_exclude is set", where(expl, n))
    ctx.require("R-RESOLVE-V1", "exclude tests for explicit files", n_ex, 1)



def _check_explicit_inline(ctx: Ctx, res: FuncInfo) -> None:
    """The same two rules when the tests for explicitly named files are written out in resolve(): on the way to the append
    in the `is_file()` arm the size filter has not matched, and every exclusion test there is guarded by force_exclude."""
    prog = ctx.prog
    flow = prog.flow(res)

    doms = flow.cfg.dominators()
    arms = [s_ for t in flow.cfg.nodes if t.kind == "test" and any(isinstance(c, ast.Call) and isinstance(c.func, ast.Attribute) and c.func.attr == "is_file"
                                                                  for c in ast.walk(t.ast))
            for s_, lab in t.succ if lab == "T"]

    def under_is_file(n: Node) -> bool:
        return any(a is n or a in doms.get(n, set()) for a in arms)

    n_app = n_ex = 0
    for n, c in flow.all_calls():
        if isinstance(c.func, ast.Attribute) and c.func.attr == "append" and len(c.args) == 1 and under_is_file(n):
            heads = [h for h in flow.cfg.nodes if h.kind == "for" and n in flow.loop_body_nodes(h)]
            if not heads:
                continue
            n_app += 1
            f = _site_filters(ctx, res, max(heads, key=lambda h: h.id), n)
            ctx.ob("R-RESOLVE-V1", f"{res.qual} :: explicit file passed the size filter", f.get("size") is False,
                   f"explicitly named files bypass exclusions but not the size limit; filters known when the file is accepted: {f}", where(res, n))
    for n in flow.cfg.nodes:
        if not under_is_file(n):
            continue
        if n.kind == "stmt" and isinstance(n.ast, ast.Assign):
            exprs_ = [(n.ast.value, True)]  # excluded = spec.match_file(...) or ...
        elif n.kind == "test":
            exprs_ = _conjuncts(n.ast, "T") + _conjuncts(n.ast, "F")
        else:
            continue
        for part, _truth in exprs_:
            if "exclude" not in filter_kinds(ctx, res, part, n):
                continue
            n_ex += 1
            fe = [s_ for t in flow.cfg.nodes if t.kind == "test" and "force_exclude" in norm(t.ast) for s_, lab in t.succ if lab == "T"]
            ok = any(a is n or a in doms.get(n, set()) for a in fe) or "force_exclude" in norm(n.ast)
            ctx.ob("R-RESOLVE-V1", f"{res.qual} :: exclusion of explicit files only under force_exclude", ok,
                   "exclusion patterns may filter an explicitly named file only when force_exclude is set", where(res, n))
            break
    ctx.require("R-RESOLVE-V1", "append of an explicitly named file in resolve", n_app, 1)
    ctx.require("R-RESOLVE-V1", "exclude tests for explicit files", n_ex, 1)


def check_resolve(ctx: Ctx) -> None:
    repo, prog = ctx.repo, ctx.prog
    walk = _method(ctx, "_walk_directory")
    glob = _method(ctx, "_expand_glob")
    res = _method(ctx, "resolve")
    try:
        expl = _method(ctx, "_should_include_explicit")
    except AnalysisError:
        expl = None  # no separate filter method: the tests are written out in resolve() (checked there, below)
    size = _method(ctx, "_exceeds_max_size")

    # ---- V1 filter matrix
    wflow = prog.flow(walk)
    wy = _yields(wflow)
    ctx.require("R-RESOLVE-V1", "yield sites in _walk_directory", len(wy), 1)
    walk_calls = [(n, c) for n, c in wflow.all_calls() if call_name(prog, walk, c) == "os.walk"]
    ctx.require("R-RESOLVE-V2", "os.walk call", len(walk_calls), 1)
    for y in wy:
        heads = [h for h in wflow.cfg.nodes if h.kind == "for" and y in wflow.loop_body_nodes(h)]
        inner = max(heads, key=lambda h: h.id) if heads else None
        if inner is None:
            raise AnalysisError("yield of _walk_directory is not inside the file loop")
        f = _site_filters(ctx, walk, inner, y)
        ctx.note("walk_yield_filters", {k: ("matched" if v else "not matched") for k, v in f.items()})
        want = {"include": True, "size": False, "toolignore": False, "gitignore": False}
        for k, matched in want.items():
            ok = k in f and f[k] == matched
            ctx.ob("R-RESOLVE-V1", f"{walk.qual} :: yielded file passed the {k} filter", ok,
                   f"every file yielded by directory traversal must have been checked against the {k} filter "
                   f"({'must match' if matched else 'must not match'}); filters on the path to the yield: {f}", where(walk, y))
        # V2 symlinked files
        ctx.ob("R-RESOLVE-V2", f"{walk.qual} :: yielded file is not a symlink", f.get("symlink") is False,
               "no file may be reached through a symbolic link during traversal (os.walk lists symlinked files; the README promises "
               f"they are not followed); filters on the path to the yield: {sorted(f)}", where(walk, y))
    for n, c in walk_calls:
        fl = next((k.value for k in c.keywords if k.arg == "followlinks"), None)
        ctx.ob("R-RESOLVE-V2", f"{walk.qual} :: os.walk does not follow directory links",
               fl is None or (isinstance(fl, ast.Constant) and fl.value is False),
               "os.walk must not be called with followlinks=True", where(walk, c))
    gflow = prog.flow(glob)
    gy = _yields(gflow)
    ctx.require("R-RESOLVE-V1", "yield sites in _expand_glob", len(gy), 1)
    for y in gy:
        heads = [h for h in gflow.cfg.nodes if h.kind == "for" and y in gflow.loop_body_nodes(h)]
        inner = max(heads, key=lambda h: h.id) if heads else None
        if inner is None:
            raise AnalysisError("yield of _expand_glob is not inside the match loop")
        f = _site_filters(ctx, glob, inner, y)
        ctx.note("glob_yield_filters", {k: ("matched" if v else "not matched") for k, v in f.items()})
        want = {"include": True, "size": False, "exclude": False, "toolignore": False}
        for k, matched in want.items():
            ok = k in f and f[k] == matched
            ctx.ob("R-RESOLVE-V1", f"{glob.qual} :: yielded file passed the {k} filter", ok,
                   f"a file found by glob expansion must pass the {k} filter like a traversed one "
                   f"({'must match' if matched else 'must not match'}); filters on the path to the yield: {f}", where(glob, y))
    # explicit files: size always, exclusions only under force_exclude
    if expl is None:
        _check_explicit_inline(ctx, res)
    else:
        _check_explicit_helper(ctx, expl)

    # ---- V3 pruning is in place
    prunes = []
    for n in wflow.cfg.nodes:
        if n.kind == "stmt" and isinstance(n.ast, ast.Assign):
            val_kinds = filter_kinds(ctx, walk, n.ast.value, n)
            if "exclude" in val_kinds or any(isinstance(c, ast.Call) and "excluded" in norm(c.func) for c in ast.walk(n.ast.value)):
                prunes.append((n, val_kinds))
    # the kept sub-directories may be computed into a local first: kept = [...filter...]; dirnames[:] = kept
    for i_, (n, kinds) in enumerate(list(prunes)):
        t_ = n.ast.targets[0]
        if isinstance(t_, ast.Name):
            for m_ in wflow.cfg.nodes:
                if m_.kind == "stmt" and isinstance(m_.ast, ast.Assign) and isinstance(m_.ast.targets[0], ast.Subscript) and isinstance(m_.ast.value, ast.Name) \
                        and m_.ast.value.id == t_.id and [d.node for d in wflow.reaching(m_, t_.id)] == [n]:
                    prunes[i_] = (m_, kinds)
    ctx.require("R-RESOLVE-V3", "directory pruning statement in _walk_directory", len(prunes), 1)
    for n, kinds in prunes:
        t = n.ast.targets[0]
        in_place = isinstance(t, ast.Subscript) and isinstance(t.slice, ast.Slice) and t.slice.lower is None and t.slice.upper is None
        tgt_org = origins(prog, walk, t.value if isinstance(t, ast.Subscript) else t, n)
        from_walk = any(o[0] == "iter" and o[1] == ("call", "os.walk") and o[2] == 1 for o in tgt_org) if in_place else False
        ctx.ob("R-RESOLVE-V3", f"{walk.qual} :: pruning assigns dirnames[:]", in_place and from_walk,
               "excluded directories must be removed from os.walk's own list in place (dirnames[:] = ...); rebinding the name "
               "does not stop the descent", where(walk, n))
        for k in ("exclude", "toolignore", "gitignore"):
            ctx.ob("R-RESOLVE-V3", f"{walk.qual} :: directory pruning consults {k}", k in kinds,
                   f"directories must be pruned by the {k} rules before descent; consulted: {sorted(kinds)}", where(walk, n))

    # ---- V4 determinism: seen-check before every append, sort before return. The accumulation may be written in resolve()
    # itself or in helpers / a small accumulator class it uses: every place where a *resolved* path is appended to a list.
    from .common import deep_origins, guard_atoms, reachable_functions

    scope_fns = {q: f for q, f in reachable_functions(prog, [res]).items() if f.module.name.startswith("flowmark.file_resolver")}
    for f in list(repo.functions.values()):
        # methods of accumulator classes instantiated in scope
        if f.cls is not None and f.module.name.startswith("flowmark.file_resolver") and f.cls.qual != RESOLVER and f.qual not in scope_fns:
            scope_fns[f.qual] = f
    appends = []
    for f in scope_fns.values():
        if isinstance(f.node, ast.Lambda):
            continue
        fl = prog.flow(f)
        for n, c in fl.all_calls():
            if isinstance(c.func, ast.Attribute) and c.func.attr == "append" and len(c.args) == 1:
                ao = origins(prog, f, c.args[0], n)
                if any(o[0] == "call" and str(o[1]).endswith(".resolve") for o in ao):
                    appends.append((f, n, c, ao))
    keyed = []
    if not appends:
        # the result collected as the keys of a dict / the members of a set: duplicate-free by construction
        for f in scope_fns.values():
            if isinstance(f.node, ast.Lambda):
                continue
            fl = prog.flow(f)
            for n in fl.cfg.nodes:
                if n.kind == "stmt" and isinstance(n.ast, ast.Assign) and len(n.ast.targets) == 1 and isinstance(n.ast.targets[0], ast.Subscript):
                    ko = origins(prog, f, n.ast.targets[0].slice, n)
                    if any(o[0] == "call" and str(o[1]).endswith(".resolve") for o in ko):
                        keyed.append((f, n))
                for c in fl.calls_in(n):
                    if isinstance(c.func, ast.Attribute) and c.func.attr == "add" and len(c.args) == 1 \
                            and any(o[0] == "call" and str(o[1]).endswith(".resolve") for o in origins(prog, f, c.args[0], n)):
                        keyed.append((f, n))
        for f, n in keyed:
            ctx.ob("R-RESOLVE-V4", f"{res.qual} :: {norm(n.ast)[:50]} collects resolved paths as keys", True,
                   "the result is gathered as dict keys / set members of resolved paths: no path can occur twice", where(f, n))
    ctx.require("R-RESOLVE-V4", "places where a resolved path enters the result of resolve", len(appends) + len(keyed), 1)
    rflow = prog.flow(res)
    for f, n, c, ao in appends:
        seen_ok = False
        for a, truth, b in guard_atoms(prog, f, n):
            if isinstance(a, ast.Compare) and len(a.ops) == 1 and ((isinstance(a.ops[0], ast.NotIn) and truth) or (isinstance(a.ops[0], ast.In) and not truth)):
                if origins(prog, f, a.left, b) == ao:
                    seen_ok = True
        ctx.ob("R-RESOLVE-V4", f"{res.qual} :: {norm(c)} guarded by the seen-set on the resolved path", seen_ok,
               "a path is appended only if its resolved form is not yet in the seen set (duplicate-free result)", where(f, n))
        # marking as seen and appending go together: a path that is marked but then filtered out would make a later argument
        # that legitimately contains it (a directory walked without force-exclude semantics) skip it
        fl = prog.flow(f)
        adds = [(n2, c2) for n2, c2 in fl.all_calls() if isinstance(c2.func, ast.Attribute) and c2.func.attr == "add" and len(c2.args) == 1
                and origins(prog, f, c2.args[0], n2) == ao]
        mine = {(b.id, lab) for b, lab in all_guards(prog, f, n)}
        paired = [n2 for n2, c2 in adds if {(b.id, lab) for b, lab in all_guards(prog, f, n2)} == mine]
        if adds:
            ctx.ob("R-RESOLVE-V4", f"{res.qual} :: {norm(c)} marked as seen exactly when appended", bool(paired),
                   "the seen-set entry and the result entry for a path must be made under the same conditions", where(f, n))
    # the list handed out by resolve() is sorted: sorted(...) on the way to every return, or .sort() after the last append
    sorts = [n for n, c in rflow.all_calls() if isinstance(c.func, ast.Attribute) and c.func.attr == "sort"]
    for r in rflow.cfg.returns():
        do = deep_origins(prog, res, r.ast.value, r)
        by_sorted = bool(do) and all(o[0] == "call" and o[1] in ("sorted", "builtins.sorted") for o in do)
        by_sort = False
        if sorts:
            own_appends = [n for f, n, c, ao in appends if f is res]
            by_sort = all(rflow.cfg.path_avoiding(n, r, set(sorts)) is None for n in own_appends) and rflow.cfg.path_avoiding(rflow.cfg.entry, r, set(sorts)) is None
        ctx.ob("R-RESOLVE-V4", f"{res.qual} :: result sorted before {norm(r.ast)[:40]}", by_sorted or by_sort,
               "the result must be sorted after the last append on every path to the return (order of arguments / directory "
               "listing must not show)", where(res, r))
    # ---- V5 size limit: 0 disables, strict comparison (identified by what the operands derive from, not by their text).
    # The test may live in the method itself or in a helper it hands the limit to.
    from ..dataflow import bind_call as _bind

    targets: list[tuple[FuncInfo, set[str]]] = [(size, set())]
    for n, c in prog.flow(size).all_calls():
        t = prog.resolve_call(size, c)
        if isinstance(t, list) and len(t) == 1 and not isinstance(t[0].node, ast.Lambda):
            lim = {p for p, a in _bind(t[0], c).items() if any(_mentions_attr(o, "files_max_size") for o in origins(prog, size, a, n))}
            if lim:
                targets.append((t[0], lim))
    zero = False
    cmp_ok = False
    for tf, lim_params in targets:
        sflow = prog.flow(tf)

        def from_limit(e: ast.AST, n: Node, tf=tf, lim_params=lim_params) -> bool:
            return any(_mentions_attr(o, "files_max_size") or (o[0] == "param" and o[1] in lim_params) for o in origins(prog, tf, e, n))

        for n in sflow.cfg.nodes:
            for ex in sflow.node_exprs(n):
                for c in walk_no_nested(ex):
                    if not (isinstance(c, ast.Compare) and len(c.ops) == 1):
                        continue
                    l, r = c.left, c.comparators[0]
                    if isinstance(c.ops[0], ast.Eq) and isinstance(r, ast.Constant) and r.value == 0 and from_limit(l, n) and n.kind == "test":
                        for s2, lab in n.succ:
                            if lab == "T" and s2.kind == "stmt" and isinstance(s2.ast, ast.Return) and isinstance(s2.ast.value, ast.Constant) \
                                    and s2.ast.value.value is False:
                                zero = True
                    def is_size(e_: ast.AST, n_=n) -> bool:
                        """the size of the file in bytes: <stat result>.st_size or os.path.getsize(path)"""
                        sl = prog.slice(tf, e_, n_)
                        return any(op == ".st_size" for op, _ in sl.ops) or "st_size" in norm(e_) or any("st_size" in a for a in sl.attrs()) \
                            or any(str(cn_).endswith("getsize") for cn_ in sl.callees()) or "getsize(" in norm(e_)

                    if isinstance(c.ops[0], ast.Gt) and from_limit(r, n) and is_size(l):
                        cmp_ok = True
                    if isinstance(c.ops[0], ast.Lt) and from_limit(l, n) and is_size(r):
                        cmp_ok = True
    if not zero:
        # decided by evaluation: with the limit equal to 0, every path of the size test answers "not too large" - however the
        # short-circuit is spelled (early return, `!= 0` guard around the stat, a flag initialised to False ...)
        from ..decide import Decider

        for tf, lim_params in targets:
            sflow = prog.flow(tf)

            def atom(leaf: ast.AST, _al: frozenset, tf=tf, lim_params=lim_params):
                cur = dec._cur[1] if dec._cur is not None and dec._cur[0] is tf else sflow.cfg.entry

                def lim(e: ast.AST) -> bool:
                    return any(_mentions_attr(o, "files_max_size") or (o[0] == "param" and o[1] in lim_params) for o in origins(prog, tf, e, cur))
                if isinstance(leaf, ast.Compare) and len(leaf.ops) == 1 and isinstance(leaf.comparators[0], ast.Constant) and leaf.comparators[0].value == 0 and lim(leaf.left):
                    op = leaf.ops[0]
                    return {ast.Eq: True, ast.NotEq: False, ast.Gt: False, ast.LtE: True, ast.GtE: True, ast.Lt: False}.get(type(op))
                if isinstance(leaf, (ast.Name, ast.Attribute)) and lim(leaf):
                    return False  # the limit itself as a truth value
                return None

            dec = Decider(prog, atom)
            outs = dec.func_outcomes(tf, frozenset())
            if outs and all(v is False for v in outs):
                zero = True
    ctx.ob("R-RESOLVE-V5", f"{size.qual} :: 0 means no limit", zero, "files_max_size == 0 must short-circuit to 'not too large'", where(size, size.node))
    ctx.ob("R-RESOLVE-V5", f"{size.qual} :: larger-than comparison", cmp_ok,
           "a file is skipped only if its size is strictly greater than the limit (st_size > files_max_size)", where(size, size.node))


def _mentions_attr(o, name: str) -> bool:
    if isinstance(o, tuple):
        if o[0] == "attr" and o[2] == name:
            return True
        return any(_mentions_attr(x, name) for x in o)
    return False


def _effective_receiver(c: ast.Call) -> ast.AST:
    """Receiver of spec.match_file(...); a comprehension variable is replaced by the iterable it ranges over."""
    from ..loader import parent as _parent

    recv = c.func.value  # type: ignore[attr-defined]
    if isinstance(recv, ast.Name):
        pp = _parent(c)
        while pp is not None and not isinstance(pp, ast.stmt):
            if isinstance(pp, (ast.GeneratorExp, ast.ListComp, ast.SetComp)):
                for g in pp.generators:
                    if isinstance(g.target, ast.Name) and g.target.id == recv.id:
                        return g.iter
            pp = _parent(pp)
    return recv


def root_name(e: ast.AST) -> str | None:
    while isinstance(e, (ast.Attribute, ast.Subscript)):
        e = e.value
    return e.id if isinstance(e, ast.Name) else None


def _depends_on_respect(ctx: Ctx, fi: FuncInfo, expr: ast.AST, node: Node, depth: int) -> bool:
    """Is the value (data and control) derived from config.respect_gitignore - in this function, or, when it arrives as a
    parameter, at every call site of the function?"""
    from ..dataflow import bind_call
    from .common import callers_index

    prog = ctx.prog
    sl = prog.slice(fi, expr, node, control=True)
    if any(a.endswith("respect_gitignore") for a in sl.attrs()):
        return True
    params = [p for p in sl.params() if not (fi.cls is not None and fi.params and p == fi.params[0])]
    if not params or depth > 2:
        return False
    sites = 0
    for cq in callers_index(prog).get(fi.qual, ()):
        caller = prog.repo.functions.get(cq)
        if caller is None or isinstance(caller.node, ast.Lambda):
            continue
        for cn, call in prog.flow(caller).all_calls():
            if prog.resolve_call(caller, call) != [fi]:
                continue
            sites += 1
            b = bind_call(fi, call)
            if not any(p in b and _depends_on_respect(ctx, caller, b[p], cn, depth + 1) for p in params):
                return False
    return sites > 0


# -------------------------------------------------------------------------------------------- C18
def check_gitignore(ctx: Ctx) -> None:
    repo, prog = ctx.repo, ctx.prog
    walk = _method(ctx, "_walk_directory")
    dire = _method(ctx, "_is_dir_excluded")
    sites = []
    from .. import anchors as _anchors

    # the two matcher sites, or the private predicates of the resolver they were moved into (per-file tests are often
    # extracted from the walk)
    file_side = [walk] + [f for f in _anchors._callees(ctx, walk, 2) if _is_resolver_helper(f) and f is not dire
                          and dire not in [f] and f.qual not in {g.qual for g in _anchors._callees(ctx, dire, 2)}]
    for fi in file_side + [dire]:
        flow = prog.flow(fi)
        for n, c in flow.all_calls():
            if isinstance(c.func, ast.Attribute) and c.func.attr in ("match_file", "check_file"):
                recv = _effective_receiver(c)
                sl = prog.slice(fi, recv, n)
                probe = ast.Call(func=ast.Attribute(value=recv, attr="match_file", ctx=ast.Load()), args=[], keywords=[])
                if "gitignore" in _loader_kinds(ctx, sl.callees()) or "gitignore" in {_attr_kind(ctx, a) for a in sl.attrs()} \
                        or "gitignore" in filter_kinds(ctx, fi, probe, n):
                    sites.append((fi, n, c))
    ctx.require("R-GITIGNORE", "gitignore matcher sites", len(sites), 1)
    for fi, n, c in sites:
        flow = prog.flow(fi)
        tag = "files" if fi is not dire else "directories"
        # (the two sites are named by their role: the names of the private methods that hold them are free to change)
        site = f"{RESOLVER} [{'directory walk' if fi is not dire else 'directory pruning'}]"
        # G1 every use depends on respect_gitignore
        recv = _effective_receiver(c)
        g1 = _depends_on_respect(ctx, fi, recv, n, 0)
        ctx.ob("R-GITIGNORE-G1", f"{site} :: gitignore use ({tag}) depends on respect_gitignore", g1,
               "with --no-respect-gitignore the .gitignore files must have no influence: every gitignore spec that is consulted "
               "must come from a branch controlled by config.respect_gitignore", where(fi, c))
        # G2 matcher argument: path relative to the directory of that .gitignore
        arg = c.args[0] if c.args else None
        asl = prog.slice(fi, arg, n) if arg is not None else None
        rel = asl is not None and any("relative_to" in nm for nm in asl.callees())
        ctx.ob("R-GITIGNORE-G2", f"{site} :: matcher argument ({tag})", rel,
               "git matches a pattern against the path relative to the directory of the .gitignore that holds it (anchored `/x`, "
               "nested `a/b` patterns); the string handed to match_file is "
               + (", ".join(sorted(fmt_origin(o) for o in origins(prog, fi, arg, n))) if arg is not None else "missing")
               + " - a bare os.walk name, so such patterns cannot have git's meaning", where(fi, c))
        # G3 combination across .gitignore levels must let a deeper negation override a shallower match
        comb_any = False
        from ..loader import parent

        p = parent(c)
        while p is not None and not isinstance(p, ast.stmt):
            if isinstance(p, ast.Call) and isinstance(p.func, ast.Name) and p.func.id == "any":
                comb_any = True
            p = parent(p)
        if not comb_any:
            # for spec in chain: if spec.match_file(x): return True
            for b, lab in flow.control_deps(n) | {(n, "T")}:
                pass
            st = flow.node_of(c)
            if st is not None and st.kind == "test":
                for s, lab in st.succ:
                    if lab == "T" and s.kind == "stmt" and isinstance(s.ast, ast.Return) and isinstance(s.ast.value, ast.Constant) \
                            and s.ast.value.value is True:
                        comb_any = True
        ctx.ob("R-GITIGNORE-G3", f"{site} :: combination of .gitignore levels ({tag})", not comb_any,
               "the per-directory specs are combined as a plain disjunction (first match wins): a negation `!keep.md` in a deeper "
               ".gitignore can never re-include what a shallower file ignores, unlike git", where(fi, c))
    # G4 the gitignore factory
    rd = repo.func("flowmark.file_resolver.gitignore:_read_ignore_file") if "flowmark.file_resolver.gitignore:_read_ignore_file" in repo.functions else None
    facs = []
    for f in repo.functions.values():
        if not f.module.name.startswith("flowmark.file_resolver") or isinstance(f.node, ast.Lambda):
            continue
        for c in walk_no_nested(f.node):
            if isinstance(c, ast.Call) and isinstance(c.func, ast.Attribute) and c.func.attr == "from_lines":
                facs.append((f, c))
    ctx.require("R-GITIGNORE", "PathSpec.from_lines call sites", len(facs), 1)
    for f, c in facs:
        a0 = c.args[0] if c.args else next((k.value for k in c.keywords if k.arg == "pattern_factory"), None)
        if isinstance(a0, ast.Name):
            from ..loader import ConstInfo

            r0 = repo.lookup(a0.id, f.module, f)
            if isinstance(r0, ConstInfo) and isinstance(r0.value, ast.Constant):
                a0 = r0.value  # a named module constant holding the syntax name
        ok = isinstance(a0, ast.Constant) and a0.value in ("gitignore", "gitwildmatch")
        ctx.ob("R-GITIGNORE-G4", f"{f.qual} :: {norm(c)[:60]}", ok, "ignore patterns must be compiled with pathspec's gitignore syntax", where(f, c))
        # G5 gitignore rules are order-sensitive (the last matching line wins, negations in between matter): the lines must
        # reach the compiler in file order and with their repetitions
        lines_arg = c.args[1] if len(c.args) > 1 else next((k.value for k in c.keywords if k.arg == "lines"), None)
        if lines_arg is None and len(c.args) == 1 and not any(k.arg == "pattern_factory" for k in c.keywords):
            lines_arg = None
        node = prog.flow(f).node_of(c)
        if lines_arg is not None and node is not None:
            sl = prog.slice(f, lines_arg, node)
            breaking = sorted({nm for nm, _c in sl.calls if nm.split(".")[-1] in ORDER_BREAKING or nm in ORDER_BREAKING})
            stepped = [x for n2 in sl.nodes for ex in prog.flow(f).node_exprs(n2) for x in ast.walk(ex) if isinstance(x, ast.Slice) and x.step is not None]
            ctx.ob("R-GITIGNORE-G5", f"{f.qual} :: rule lines reach the compiler in file order, repetitions included", not breaking and not stepped,
                   "git applies the rules of an ignore file in order, the last matching line wins: de-duplicating, sorting or reversing the lines "
                   f"changes which files are ignored (e.g. `*.gen.md`, `!keep.gen.md`, `*.gen.md`); the lines pass through {breaking or 'a stepped slice'}",
                   where(f, c))
    # comments / blank lines of ignore files are dropped before compilation, nothing else
    ctx.assume("pathspec implements gitignore pattern syntax correctly (dependency)")


ORDER_BREAKING = {"set", "frozenset", "sorted", "reversed", "fromkeys", "dict.fromkeys", "Counter", "unique", "OrderedDict.fromkeys"}
MUTATORS = {"append", "extend", "insert", "remove", "pop", "clear", "sort", "reverse", "update", "add", "discard", "setdefault", "popitem"}


def check_walk_is_per_directory(ctx: Ctx) -> None:
    """Everything the directory walk decides for one directory is computed from that directory (and memo tables keyed by
    directory): no variable carries ignore rules from the directories visited before."""
    from .common import unexpected_carried

    prog = ctx.prog
    walk = _method(ctx, "_walk_directory")
    flow = prog.flow(walk)
    loops = [h for h in flow.cfg.nodes if h.kind == "for" and any(isinstance(x, ast.Attribute) and x.attr == "walk" for x in ast.walk(h.ast.iter))]
    ctx.require("R-GITIGNORE", "os.walk loop of the directory traversal", len(loops), 1)
    for h in loops:
        carried, allowed = unexpected_carried(prog, walk, h)
        # memo tables of the resolver object (self._x_cache[key] = value): keyed by directory, their consistency is the
        # business of R-RESOLVE-cache
        selfname = walk.params[0] if walk.params else "self"
        body = flow.loop_body_nodes(h)
        for v in carried:
            if v.startswith(selfname + "."):
                defs_in_body = [d for n in body for d in flow.defs_at[n] if d.var == v]
                if defs_in_body and all(d.kind == "mutate" and isinstance(d.node.ast, ast.Assign) and isinstance(d.node.ast.targets[0], ast.Subscript)
                                        for d in defs_in_body):
                    allowed.add(v)
        bad = sorted(carried - allowed)
        ctx.ob("R-GITIGNORE-G6", f"{walk.qual} :: nothing is carried from one directory to the next", not bad,
               "the .gitignore chain (and every other filter) that applies to a directory must be derived from that directory: a list kept "
               f"and patched across os.walk iterations applies the rules of subtrees already left; carried: {bad or 'none'}", where(walk, h))


def check_cached_values_not_mutated(ctx: Ctx) -> None:
    """A value that lives in a memo table (or comes out of a memoising method) is shared by every later hit: it must not be
    changed in place. (Typestate: cached -> read-only.)"""
    repo, prog = ctx.repo, ctx.prog
    funcs = [f for f in repo.functions.values() if f.module.name.startswith("flowmark.file_resolver") and not isinstance(f.node, ast.Lambda)]

    def is_cache_attr(e: ast.AST, fi: FuncInfo) -> bool:
        return isinstance(e, ast.Attribute) and isinstance(e.value, ast.Name) and fi.params and e.value.id == fi.params[0] and "cache" in e.attr

    def from_cache(o) -> bool:
        """origin is a read of a cache table: self._x_cache.get(k) / self._x_cache[k]"""
        if isinstance(o, tuple) and o[0] == "call" and isinstance(o[1], str) and "cache" in o[1] and o[1].endswith(".get"):
            return True
        if isinstance(o, tuple) and o[0] == "index" and isinstance(o[1], tuple) and o[1][0] == "attr" and "cache" in str(o[1][2]):
            return True
        return False

    # memoising functions: they store a value in a cache table and hand the same object to their caller
    memo: set[str] = set()
    for f in funcs:
        flow = prog.flow(f)
        stored: set[int] = set()
        for n in flow.cfg.nodes:
            if n.kind == "stmt" and isinstance(n.ast, ast.Assign) and len(n.ast.targets) == 1 and isinstance(n.ast.targets[0], ast.Subscript) \
                    and is_cache_attr(n.ast.targets[0].value, f) and isinstance(n.ast.value, ast.Name):
                stored |= {d.id for d in flow.reaching(n, n.ast.value.id)}
        for r in flow.cfg.returns():
            v = r.ast.value
            if isinstance(v, ast.Name):
                if {d.id for d in flow.reaching(r, v.id)} & stored or any(from_cache(o) for o in origins(prog, f, v, r)):
                    memo.add(f.qual)
    ctx.note("memoising_functions", sorted(memo))
    n_sites = 0
    for f in funcs:
        flow = prog.flow(f)
        for n in flow.cfg.nodes:
            targets: list[tuple[ast.AST, str]] = []
            for c in flow.calls_in(n):
                if isinstance(c.func, ast.Attribute) and c.func.attr in MUTATORS and isinstance(c.func.value, ast.Name):
                    targets.append((c.func.value, f".{c.func.attr}()"))
            if n.kind == "stmt" and isinstance(n.ast, ast.AugAssign) and isinstance(n.ast.target, ast.Name):
                targets.append((ast.Name(id=n.ast.target.id, ctx=ast.Load()), " += ..."))
            if n.kind == "stmt" and isinstance(n.ast, ast.Assign) and isinstance(n.ast.targets[0], ast.Subscript) and isinstance(n.ast.targets[0].value, ast.Name):
                targets.append((n.ast.targets[0].value, "[...] = ..."))
            for recv, what in targets:
                n_sites += 1
                org = origins(prog, f, recv, n)
                shared = [o for o in org if from_cache(o) or (isinstance(o, tuple) and o[0] == "call" and o[1] in memo)]
                ctx.ob("R-RESOLVE-cache", f"{f.qual} :: {norm(recv)}{what} does not modify a cached value", not shared,
                       f"`{norm(recv)}` may be the very object stored in a memo table ({', '.join(fmt_origin(o) for o in shared)}); changing it in place "
                       "changes what every later cache hit returns (e.g. one list of .gitignore specs shared by all directories of a walk)", where(f, n))
    ctx.require("R-RESOLVE-cache", "in-place mutation sites in the file resolver", n_sites, 3)


def _fixed_per_owner(ctx: Ctx, fi: FuncInfo, param: str) -> bool:
    """A parameter of a memoising method of a helper object that cannot vary between calls on the same cache: every call
    site in the package is `self.<cache>.method(..., self.<...>, ...)` - the cache object and the argument both hang off the
    same owner, and the argument is read from the owner's own attributes only (what `self._config.tool_name` was when the
    memo table lived on the owner itself)."""
    from ..dataflow import bind_call
    from .common import callers_index

    prog = ctx.prog
    if fi.cls is None:
        return False
    sites = 0
    for cq in callers_index(prog).get(fi.qual, ()):
        caller = prog.repo.functions.get(cq)
        if caller is None or isinstance(caller.node, ast.Lambda) or caller.cls is None or not caller.params:
            return False
        owner = caller.params[0]
        for c in ast.walk(caller.node):
            if isinstance(c, ast.Call) and prog.resolve_call(caller, c) == [fi]:
                sites += 1
                recv = c.func.value if isinstance(c.func, ast.Attribute) else None
                if not (isinstance(recv, ast.Attribute) and isinstance(recv.value, ast.Name) and recv.value.id == owner):
                    return False
                arg = bind_call(fi, c).get(param)
                k = chain_key(arg) if isinstance(arg, ast.Attribute) else None
                if k is None or k.split(".")[0] != owner:
                    return False
    return sites > 0


def check_cache_keys(ctx: Ctx) -> None:
    """A memoised value may depend only on what its key is computed from (else a hit returns another input's answer)."""
    repo, prog = ctx.repo, ctx.prog
    n = 0
    for fi in repo.functions.values():
        if not fi.module.name.startswith("flowmark.file_resolver") or isinstance(fi.node, ast.Lambda) or fi.name == "__init__":
            continue
        flow = prog.flow(fi)
        selfname = fi.params[0] if fi.cls is not None and fi.params else None
        for node in flow.cfg.nodes:
            if node.kind != "stmt" or not isinstance(node.ast, ast.Assign) or len(node.ast.targets) != 1:
                continue
            t = node.ast.targets[0]
            if not (isinstance(t, ast.Subscript) and isinstance(t.value, ast.Attribute) and isinstance(t.value.value, ast.Name)
                    and t.value.value.id == selfname):
                continue
            n += 1
            key_params = prog.slice(fi, t.slice, node).params() - {selfname}
            val_params = prog.slice(fi, node.ast.value, node).params() - {selfname}
            extra = val_params - key_params
            extra = {p for p in extra if not _fixed_per_owner(ctx, fi, p)}
            ctx.ob("R-RESOLVE-cache", f"{fi.qual} :: {norm(t)} keyed by all inputs of the cached value", not extra,
                   f"the cached value depends on {sorted(val_params)} but the key only on {sorted(key_params)}: a later call that differs in "
                   f"{sorted(extra)} gets the answer computed for another input", where(fi, node))
            # a key that is a canonical form of a parameter (start_dir.resolve()): the value may look at that parameter only
            # through the same canonical form - computed from the raw spelling, two spellings of one key (a/b/.., a symlink)
            # would give different values and the first one asked for would be served to both
            _check_canonical_key(ctx, fi, node, t)
    # one computed value, one key: a store that sits in a loop and whose key changes with the loop while the value does not
    # registers one answer under several questions (the nearest ignore file of a directory filed under all its ancestors)
    for fi in repo.functions.values():
        if not fi.module.name.startswith("flowmark.file_resolver") or isinstance(fi.node, ast.Lambda) or fi.name == "__init__":
            continue
        flow = prog.flow(fi)
        selfname = fi.params[0] if fi.cls is not None and fi.params else None
        for h in [x for x in flow.cfg.nodes if x.kind == "for"]:
            lvars = {x.id for x in ast.walk(h.ast.target) if isinstance(x, ast.Name)}
            for node in flow.loop_body_nodes(h):
                stores: list[tuple[ast.AST, ast.AST, ast.AST]] = []
                if node.kind == "stmt" and isinstance(node.ast, ast.Assign) and len(node.ast.targets) == 1 and isinstance(node.ast.targets[0], ast.Subscript):
                    t_ = node.ast.targets[0]
                    stores.append((t_.value, t_.slice, node.ast.value))
                for c in flow.calls_in(node):
                    if isinstance(c.func, ast.Attribute) and c.func.attr == "setdefault" and len(c.args) == 2:
                        stores.append((c.func.value, c.args[0], c.args[1]))
                for tab, key_e, val_e in stores:
                    if not (isinstance(tab, ast.Attribute) and isinstance(tab.value, ast.Name) and tab.value.id == selfname):
                        continue
                    key_names = {x.id for x in ast.walk(expand_expr_safe(prog, fi, key_e, node)) if isinstance(x, ast.Name)}
                    val_names = {x.id for x in ast.walk(expand_expr_safe(prog, fi, val_e, node)) if isinstance(x, ast.Name)}
                    varies = bool(key_names & lvars) and not (val_names & lvars)
                    ctx.ob("R-RESOLVE-cache", f"{fi.qual} :: {norm(tab)} one key per computed value", not varies,
                           f"inside the loop over `{norm(h.ast.target)}` the key `{norm(key_e)}` changes with the loop but the stored value `{norm(val_e)[:40]}` does not: "
                           "one answer is filed under several keys, and a later lookup of another key gets an answer computed for a different directory", where(fi, node))
    ctx.require("R-RESOLVE-cache", "memoising stores in the file resolver", n, 1)


def expand_expr_safe(prog, fi: FuncInfo, e: ast.AST, node: Node) -> ast.AST:
    from ..decide import expand_expr

    try:
        return expand_expr(prog, fi, e, node, strict=False)
    except Exception:  # noqa: BLE001
        return e


_CANON = ("resolve", "absolute", "lower", "upper", "casefold", "strip", "expanduser", "as_posix", "normcase")


def _only_through(prog, g: FuncInfo, q: str, m: str, depth: int = 0) -> ast.AST | None:
    """None if every read of parameter `q` in g is `q.m()` (or hands q to a function of the package that reads it only that
    way); else the first other use."""
    from ..loader import parent as _parent

    if isinstance(g.node, ast.Lambda):
        return g.node
    for x in walk_no_nested(g.node):
        if isinstance(x, ast.Name) and x.id == q and isinstance(x.ctx, ast.Store):
            return x
    for x in ast.walk(g.node):
        if not (isinstance(x, ast.Name) and x.id == q and isinstance(x.ctx, ast.Load)):
            continue
        pa = _parent(x)
        if isinstance(pa, ast.Attribute) and pa.attr == m and isinstance(_parent(pa), ast.Call) and _parent(pa).func is pa and not _parent(pa).args:
            continue
        if isinstance(pa, ast.keyword):
            pa = _parent(pa)
        if isinstance(pa, ast.Call) and depth < 2 and (x in pa.args or any(k.value is x for k in pa.keywords)):
            t_ = prog.resolve_call(g, pa)
            if isinstance(t_, list) and len(t_) == 1 and not isinstance(t_[0].node, ast.Lambda):
                b = bind_call(t_[0], pa)
                qs = [k for k, v in b.items() if v is x]
                if len(qs) == 1 and _only_through(prog, t_[0], qs[0], m, depth + 1) is None:
                    continue
        return x
    return None


def _check_canonical_key(ctx: Ctx, fi: FuncInfo, node: Node, t: ast.Subscript) -> None:
    from ..decide import expand_expr
    from ..loader import parent as _parent

    prog = ctx.prog
    try:
        key_e = expand_expr(prog, fi, t.slice, node, strict=False)
        val_e = expand_expr(prog, fi, node.ast.value, node, strict=False)
    except Exception:  # noqa: BLE001
        return
    canon: dict[str, str] = {}
    raw: set[str] = set()
    inside: set[int] = set()
    for x in ast.walk(key_e):
        if isinstance(x, ast.Call) and isinstance(x.func, ast.Attribute) and x.func.attr in _CANON and not x.args and isinstance(x.func.value, ast.Name) \
                and x.func.value.id in fi.params:
            canon[x.func.value.id] = x.func.attr
            inside.add(id(x.func.value))
    for x in ast.walk(key_e):
        if isinstance(x, ast.Name) and id(x) not in inside:
            raw.add(x.id)
    for pname, m in canon.items():
        if pname in raw:
            continue
        bad = None
        # (expand_expr returns a detached copy: find parents by walking it)
        parents: dict[int, ast.AST] = {}
        for x in ast.walk(val_e):
            for ch in ast.iter_child_nodes(x):
                parents[id(ch)] = x
        for x in ast.walk(val_e):
            if not (isinstance(x, ast.Name) and x.id == pname):
                continue
            pa = parents.get(id(x))
            if isinstance(pa, ast.Attribute) and pa.attr == m and isinstance(parents.get(id(pa)), ast.Call) and not parents[id(pa)].args:
                continue
            if isinstance(pa, ast.keyword):
                pa = parents.get(id(pa))
            if isinstance(pa, ast.Call) and (x in pa.args or any(k.value is x for k in pa.keywords)):
                # the copy is not in the function's tree: resolve through the original call of the same text
                orig = next((c for c in ast.walk(node.ast.value) if isinstance(c, ast.Call) and norm(c) == norm(pa)), None)
                if orig is None:
                    orig = next((c for n2 in prog.flow(fi).cfg.nodes for c in prog.flow(fi).calls_in(n2) if norm(c) == norm(pa)), None)
                t_ = prog.resolve_call(fi, orig) if orig is not None else None
                if isinstance(t_, list) and len(t_) == 1 and not isinstance(t_[0].node, ast.Lambda):
                    b = bind_call(t_[0], orig)
                    qs = [k for k, v in b.items() if isinstance(v, ast.Name) and v.id == pname]
                    if len(qs) == 1:
                        other = _only_through(prog, t_[0], qs[0], m)
                        if other is None:
                            continue
                        bad = f"{t_[0].qual} reads `{qs[0]}` as `{norm(_parent(other) or other)[:60]}`"
                        break
            bad = bad or f"`{norm(pa)[:60]}`"
            break
        ctx.ob("R-RESOLVE-cache", f"{fi.qual} :: {norm(t)} value computed from the canonical form of `{pname}`", bad is None,
               f"the table is keyed by `{pname}.{m}()`, so the cached value may depend on `{pname}` only through `{pname}.{m}()`; "
               f"{bad} - two spellings of one key would give different values, and whichever is asked for first is served to both",
               where(fi, node))
