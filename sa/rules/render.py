"""Renderer rules: R-DISPATCH, R-FIELD, R-DECISION, R-PREFIX, R-ENCODE, R-BOUND (C01, C04, C10, C12)."""

from __future__ import annotations

import ast
import itertools

from ..cfg import Node, must_edges, walk_no_nested
from ..dataflow import Slice, bind_call, chain_key, fmt_origin, origins
from ..decide import UNKNOWN, Decider, role_of
from ..loader import AnalysisError, ClassInfo, FuncInfo
from ..markomodel import MarkoModel, Registered
from ..report import Ctx
from ..taint import Taint
from .common import all_guards, call_name, direct_guards, norm, where

# element type -> semantic fields that must influence the output (confirmed against marko's __init__s)
FIELDS: dict[str, tuple[str, ...]] = {
    "Heading": ("level", "children"), "SetextHeading": ("level", "children"),
    "List": ("ordered", "start", "bullet", "tight", "children"), "ListItem": ("children",),
    "Paragraph": ("children", "checked"), "Quote": ("children",), "Alert": ("alert_type", "children"),
    "CustomFencedCode": ("lang", "extra", "children", "fence_char", "fence_len"), "FencedCode": ("lang", "extra", "children"),
    "CodeBlock": ("children",), "HTMLBlock": ("body",), "LinkRefDef": ("label", "dest", "title"),
    "ThematicBreak": (), "BlankLine": (),
    "Emphasis": ("children",), "StrongEmphasis": ("children",), "Strikethrough": ("children",),
    "Link": ("children", "dest", "title"), "Image": ("children", "dest", "title"),
    "AutoLink": ("dest",), "Url": ("dest",),
    "CodeSpan": ("children",), "InlineHTML": ("children",), "Literal": ("children",), "RawText": ("children",),
    "LineBreak": ("soft",), "FootnoteRef": ("label",), "FootnoteDef": ("label", "children"),
    "Table": ("children", "delimiters"), "TableRow": ("children",), "TableCell": ("children",),
}
# attributes marko assigns that carry no document content (one reason each)
IGNORED_ATTRS = {
    "_inline_positions": "source map for spans, cleared after inline parsing",
    "inline_body": "raw inline text, replaced by children after inline parsing",
    "_anchor": "parser bookkeeping of BlankLine",
    "_tight": "internal tightness flag, surfaced as List.tight",
    "_prefix": "parse-time line prefix", "_second_prefix": "parse-time line prefix",
    "dest_span": "source position", "title_span": "source position", "source_span": "source position",
    "link_ref_defs": "document-level table, read by render_link", "footnotes": "document-level table",
    "escape": "HTML-escaping hint of RawText, irrelevant for Markdown output",
    "header": "derived: first row of the table", "align": "derived from Table.delimiters, which is rendered",
    "extra@CodeBlock": "always '' for indented code", "lang@CodeBlock": "always '' for indented code",
    "title@AutoLink": "always '' for autolinks", "title@Url": "always '' for autolinks",
    "children@AutoLink": "link text equals the destination", "children@Url": "link text equals the destination",
    "children@LineBreak": "the raw break text; `soft` carries the meaning",
    "children@FootnoteRef": "unused placeholder of InlineElement.__init__",
    "children@Document": "rendered by the render_children fallback",
    "body@CustomHTMLBlock": "class is never instantiated (match is constant False)",
}
DISPATCH_EXEMPT = {
    "Document": "pure container: the Renderer.render_children fallback renders its children in order",
}
PASS_THROUGH = {"ListItem": "its prefix pair is installed by the enclosing render_list; the first child block consumes it"}
# block children of a known class (marko: Table(children: list[TableRow]))
CHILD_TYPES = {"Table": ["TableRow"]}
INLINE_LIKE = {"TableCell": "rendered inside a table row line, never starts a line"}


class RenderModel:
    def __init__(self, ctx: Ctx) -> None:
        self.ctx = ctx
        self.repo = ctx.repo
        self.prog = ctx.prog
        self.mm = MarkoModel(ctx.repo)
        self.rcls = self._renderer_class()
        self.methods: dict[str, FuncInfo | None] = {}
        for reg in self.mm.registered:
            self.methods[reg.type_name] = self.repo.find_method(self.rcls, reg.render_name)

    def _renderer_class(self) -> ClassInfo:
        cands = [c for c in self.repo.classes.values()
                 if any(b in ("marko.Renderer", "marko.renderer.Renderer") for b in self.repo.external_bases(c))]
        if not cands:
            raise AnalysisError("anchor vanished: no class derives from marko.Renderer")
        # the most derived one that is instantiated in _setup_extensions
        for c in cands:
            if not any(c in [b for b in self.repo.class_bases(o)] for o in cands if o is not c):
                if c.parent_func is not None:
                    return c
        return cands[0]

    def el_param(self, m: FuncInfo) -> str:
        return m.params[1] if len(m.params) > 1 else "element"

    def summary(self, m: FuncInfo) -> Slice:
        s = self.prog.summary(m, True, 0)
        if s is None:
            raise AnalysisError(f"no summary for {m.qual}")
        return s

    def by_type(self, t: str) -> Registered | None:
        return next((r for r in self.mm.registered if r.type_name == t), None)


def get_model(ctx: Ctx) -> RenderModel:
    m = getattr(ctx, "_render_model", None)
    if m is None:
        m = RenderModel(ctx)
        ctx._render_model = m  # type: ignore[attr-defined]
    return m


# ------------------------------------------------------------------------------------ R-DISPATCH
def check_dispatch(ctx: Ctx) -> None:
    rm = get_model(ctx)
    ctx.note("registered_element_types", sorted(r.type_name for r in rm.mm.registered))
    ctx.require("R-DISPATCH", "element classes the parser can instantiate", len(rm.mm.registered), 25)
    for reg in sorted(rm.mm.registered, key=lambda r: r.type_name):
        key = f"{rm.rcls.qual.split(':')[0]}:{reg.type_name} -> {reg.render_name}"
        m = rm.methods[reg.type_name]
        if reg.type_name in DISPATCH_EXEMPT:
            ctx.ob("R-DISPATCH", key, True, "exempt: " + DISPATCH_EXEMPT[reg.type_name], "")
            continue
        if m is None and reg.cls.repo_cls is not None:
            # exempt only if the class can never be instantiated: its match() is the constant False
            mt = reg.cls.repo_cls.methods.get("match")
            never = mt is not None and all(
                isinstance(r.value, ast.Constant) and r.value.value is False
                for r in walk_no_nested(mt.node) if isinstance(r, ast.Return)
            ) and any(isinstance(r, ast.Return) for r in walk_no_nested(mt.node))
            ctx.ob("R-DISPATCH", key, never,
                   "no render method, and the class can be instantiated (match is not the constant False): the element would "
                   "fall back to render_children and lose its syntax" if not never else "never instantiated: match() is constant False",
                   where(reg.cls.repo_cls, reg.cls.repo_cls.node))
            continue
        ctx.ob("R-DISPATCH", key, m is not None,
               f"element type {reg.type_name} ({reg.origin}) has no {reg.render_name} in the renderer: marko falls back to "
               "render_children and the construct's own syntax is dropped", where(rm.rcls, rm.rcls.node))


# --------------------------------------------------------------------------------------- R-FIELD
def check_fields(ctx: Ctx, only: set[str] | None = None) -> None:
    rm = get_model(ctx)
    n = 0
    for reg in sorted(rm.mm.registered, key=lambda r: r.type_name):
        t = reg.type_name
        if t in DISPATCH_EXEMPT or t == "CustomHTMLBlock":
            continue
        if t not in FIELDS:
            raise AnalysisError(f"R-FIELD: element type {t} is not in the field table (new element class registered)")
        # cross-check with the attributes marko assigns
        for a in sorted(rm.mm.all_attrs(reg.cls)):
            if a in FIELDS[t] or a in IGNORED_ATTRS or f"{a}@{t}" in IGNORED_ATTRS or f"{a}@{reg.cls.name}" in IGNORED_ATTRS:
                continue
            raise AnalysisError(f"R-FIELD: marko assigns {t}.{a}, which is neither a required field nor in the ignored-with-reason list")
        m = rm.methods.get(t)
        if m is None:
            continue
        el = rm.el_param(m)
        summ = rm.summary(m)
        attrs = summ.attrs() | {s[1] for s in summ.sources if s[0] == "attr-of"}
        attrs |= _state_flow_attrs(ctx, m)
        for fld in FIELDS[t]:
            if only is not None and fld not in only and f"{t}.{fld}" not in only:
                continue
            key = f"{m.qual} :: {t}.{fld}"
            pre = f"{el}.{fld}"
            ok = any(a == pre or a.startswith(pre + ".") for a in attrs)
            if not ok and fld == "children":
                ok = any(name.endswith("render_children") and c.args and isinstance(c.args[0], ast.Name) for name, c in summ.calls)
            if not ok and fld == "checked":
                ok = pre in attrs
            n += 1
            ctx.ob("R-FIELD", key, ok,
                   f"field `{fld}` of {t} must reach the rendered text (data or control dependence of the return value); "
                   f"the render method depends on {sorted(a for a in attrs if a.startswith(el + '.'))}", where(m, m.node))
        # order: iteration over children / delimiters is in document order
        for node in walk_no_nested(m.node):
            iters = []
            if isinstance(node, (ast.For, ast.AsyncFor)):
                iters.append(node.iter)
            elif isinstance(node, ast.comprehension):
                iters.append(node.iter)
            for it in iters:
                txt = norm(it)
                if f"{el}." not in txt and "body" not in txt and "children" not in txt:
                    continue
                bad = [c for c in ast.walk(it) if isinstance(c, ast.Call) and isinstance(c.func, ast.Name)
                       and c.func.id in ("sorted", "reversed", "set", "frozenset")]
                bad += [s for s in ast.walk(it) if isinstance(s, ast.Slice) and s.step is not None]
                ctx.ob("R-FIELD", f"{m.qual} :: iteration order over {txt[:50]}", not bad,
                       "children / delimiters must be rendered in document order (no sorted/reversed/set/stepped slice)", where(m, it))
    ctx.require("R-FIELD", "field obligations", n, 30 if only is None else 1)


def _state_flow_attrs(ctx: Ctx, m: FuncInfo) -> set[str]:
    """Element attributes that flow into renderer state: arguments of self-method calls (self.container(prefix, ...),
    helpers) and values stored into self.* - they reach the output through the children rendered under that state."""
    prog = ctx.prog
    flow = prog.flow(m)
    selfname = m.params[0]
    out: set[str] = set()
    for n in flow.cfg.nodes:
        exprs: list[ast.AST] = []
        if n.kind == "with":
            for item in n.ast.items:
                c = item.context_expr
                if isinstance(c, ast.Call) and isinstance(c.func, ast.Attribute) and isinstance(c.func.value, ast.Name) \
                        and c.func.value.id == selfname:
                    exprs += list(c.args) + [k.value for k in c.keywords]
        elif n.kind == "stmt" and isinstance(n.ast, (ast.Assign, ast.AugAssign, ast.AnnAssign)):
            tg = n.ast.targets[0] if isinstance(n.ast, ast.Assign) else n.ast.target
            k = chain_key(tg)
            if k is not None and k.startswith(selfname + ".") and n.ast.value is not None:
                exprs.append(n.ast.value)
        for ex in exprs:
            sl = prog.slice(m, ex, n, control=True)
            out |= sl.attrs()
    return out


# ------------------------------------------------------------------------------------ R-DECISION
def _leaf_env_paths(ctx: Ctx, fi: FuncInfo, start: Node, stop_pred, leaf_value) -> list[list[Node]]:
    """Follow the CFG from `start`, deciding each test by `leaf_value(test_expr) -> bool|None`.
    Returns the node sequence until stop_pred(node) holds. None-valued tests fork."""
    flow = ctx.prog.flow(fi)
    out: list[list[Node]] = []
    stack: list[tuple[Node, list[Node]]] = [(start, [start])]
    while stack:
        n, path = stack.pop()
        if stop_pred(n) and len(path) > 1 or len(path) > 200:
            out.append(path)
            continue
        succ = n.succ
        if n.kind == "test":
            v = leaf_value(n.ast)
            if v is not None:
                succ = [(s, lab) for s, lab in n.succ if lab == ("T" if v else "F")]
        if not succ:
            out.append(path)
        for s, _lab in succ:
            if s in path and s.kind in ("for", "test"):
                out.append(path + [s])
                continue
            stack.append((s, path + [s]))
    return out


def _bool_eval(expr: ast.AST, atom) -> bool | None:
    """Evaluate a boolean expression whose leaves are decided by atom(leaf) -> bool|None."""
    if isinstance(expr, ast.BoolOp):
        vals = [_bool_eval(v, atom) for v in expr.values]
        if isinstance(expr.op, ast.And):
            if any(v is False for v in vals):
                return False
            return True if all(v is True for v in vals) else None
        if any(v is True for v in vals):
            return True
        return False if all(v is False for v in vals) else None
    if isinstance(expr, ast.UnaryOp) and isinstance(expr.op, ast.Not):
        v = _bool_eval(expr.operand, atom)
        return None if v is None else not v
    return atom(expr)


def _iteration_sites(prog, fi: FuncInfo, chain: str, depth: int = 0) -> list[tuple[FuncInfo, str, object, str]]:
    """Places where the sequence `chain` (e.g. "element.delimiters") is iterated: (function, "for"|"comp", loop head node or
    comprehension expression, loop variable). A helper that receives the sequence as an argument is followed."""
    out: list[tuple[FuncInfo, str, object, str]] = []
    flow = prog.flow(fi)
    for n in flow.cfg.nodes:
        if n.kind == "for" and chain_key(n.ast.iter) == chain and isinstance(n.ast.target, ast.Name):
            out.append((fi, "for", n, n.ast.target.id))
    for x in walk_no_nested(fi.node):
        if isinstance(x, (ast.ListComp, ast.GeneratorExp, ast.SetComp)) and len(x.generators) == 1:
            g = x.generators[0]
            if chain_key(g.iter) == chain and isinstance(g.target, ast.Name) and not g.ifs:
                out.append((fi, "comp", x, g.target.id))
        if isinstance(x, ast.Call) and depth < 2:
            for i, a in enumerate(x.args):
                if chain_key(a) == chain:
                    t = prog.resolve_call(fi, x)
                    if isinstance(t, list) and len(t) == 1 and not isinstance(t[0].node, ast.Lambda):
                        callee = t[0]
                        b = bind_call(callee, x)
                        for p, arg in b.items():
                            if arg is a:
                                out += _iteration_sites(prog, callee, p, depth + 1)
    return out


def check_decisions(ctx: Ctx) -> None:
    rm = get_model(ctx)
    prog = ctx.prog
    # (a) table alignment: four assignments of (starts-with-colon, ends-with-colon) -> four distinct delimiter constants
    m = rm.methods.get("Table")
    if m is None:
        raise AnalysisError("render method for Table not found")
    flow = prog.flow(m)
    el = rm.el_param(m)
    sites = _iteration_sites(prog, m, f"{el}.delimiters")
    ctx.require("R-DECISION", "iteration over Table.delimiters", len(sites), 1)
    for sfi, kind, h, var in sites:
        outcomes: dict[tuple[bool, bool], set] = {}
        for s, e in itertools.product([False, True], repeat=2):
            def atom(leaf: ast.AST, aliases: frozenset, s=s, e=e) -> bool | None:
                if isinstance(leaf, ast.Call) and isinstance(leaf.func, ast.Attribute) and "d" in role_of(leaf.func.value, aliases) \
                        and leaf.args and isinstance(leaf.args[0], ast.Constant) and leaf.args[0].value == ":":
                    if leaf.func.attr == "startswith":
                        return s
                    if leaf.func.attr == "endswith":
                        return e
                return None
            dec = Decider(prog, atom)
            al = frozenset({f"d={var}"})
            vals: set = set()
            if kind == "for":
                for be in [x for x, lab in h.succ if lab == "iter"]:
                    for _end, _env, _benv, outs in dec.walk(sfi, be, lambda n, h=h: n is h, al):
                        for o in outs:
                            if isinstance(o, frozenset):
                                vals |= o
            else:
                vals |= dec.ev(sfi, h.elt, {}, {}, al, 0)
            outcomes[(s, e)] = vals
        ctx.note("table_alignment_outcomes", {f"start={s},end={e}": sorted(map(str, v)) for (s, e), v in outcomes.items()})
        if all(not v or UNKNOWN in v for v in outcomes.values()):
            raise AnalysisError(f"table alignment: the value produced per delimiter in {sfi.qual} is not a recognised decision form")
        anchor = h if kind == "for" else sfi.node
        for (s, e), consts in outcomes.items():
            key = f"{m.qual} :: alignment start-colon={s} end-colon={e}"
            ok = len(consts) == 1
            c = next(iter(consts)) if consts else ""
            ok = ok and isinstance(c, str) and c != UNKNOWN and c.startswith(":") == s and c.endswith(":") == e and "-" in c.strip(":") and set(c.strip(":")) == {"-"}
            ctx.ob("R-DECISION", key, ok,
                   f"a delimiter with colon at start={s}/end={e} must normalise to one constant with the colon on exactly those sides; got {sorted(map(str, consts))}",
                   where(sfi, anchor))
        vals2 = [next(iter(v)) for v in outcomes.values() if len(v) == 1]
        ctx.ob("R-DECISION", f"{m.qual} :: alignments pairwise distinct", len(set(vals2)) == 4,
               f"the four alignments must stay distinguishable: {vals2}", where(sfi, anchor))
    # (b) line break: soft -> newline, hard -> backslash newline
    m = rm.methods.get("LineBreak")
    if m is not None:
        el = rm.el_param(m)
        res: dict[bool, set[str]] = {True: set(), False: set()}
        for r in prog.flow(m).cfg.returns():
            v = r.ast.value
            for soft in (True, False):
                def atom(leaf: ast.AST, soft=soft) -> bool | None:
                    return soft if norm(leaf) == f"{el}.soft" else None
                val = _const_under(v, atom)
                guards_ok = True
                for b, lab in all_guards(prog, m, r):
                    if b.kind == "test":
                        bv = _bool_eval(b.ast, atom)
                        if bv is not None and (lab == "T") != bv:
                            guards_ok = False
                if guards_ok and val is not None:
                    res[soft].add(val)
        ok = res[True] == {"\n"} and len(res[False]) == 1 and next(iter(res[False])).endswith("\n") and "\\" in next(iter(res[False]))
        ctx.ob("R-DECISION", f"{m.qual} :: soft vs hard break", ok,
               f"a soft break must render as a newline and a hard break as backslash-newline; soft={sorted(res[True])!r} hard={sorted(res[False])!r}",
               where(m, m.node))
    # (c) list marker: ordered -> start + index, bullet otherwise
    m = rm.methods.get("List")
    if m is not None:
        el = rm.el_param(m)
        flow = prog.flow(m)
        withs = [n for n in flow.cfg.nodes if n.kind == "with" and "container" in norm(n.ast.items[0].context_expr)]
        ctx.require("R-DECISION", "with self.container(...) in the list renderer", len(withs), 1)
        for w in withs:
            call = w.ast.items[0].context_expr
            # positional or keyword arguments of container(prefix, second_prefix)
            cargs: list[ast.AST | None] = [None, None]
            if isinstance(call, ast.Call):
                tgt_ = prog.resolve_call(m, call)
                if isinstance(tgt_, list) and len(tgt_) == 1 and len(tgt_[0].params) >= 3:
                    b_ = bind_call(tgt_[0], call)
                    cargs = [b_.get(tgt_[0].params[1]), b_.get(tgt_[0].params[2])]
                else:
                    cargs = [call.args[0] if call.args else None, call.args[1] if len(call.args) > 1 else None]
            if not isinstance(cargs[0], ast.Name):
                raise AnalysisError("list renderer: container prefix is not a local variable")
            pvar = cargs[0].id
            seen = {"T": False, "F": False}
            for d in flow.reaching(w, pvar):
                guards = direct_guards(prog, m, d.node)
                for b, lab, org in guards:
                    if any(o[0] == "attr" and o[2] == "ordered" for o in org):
                        sl = prog.slice(m, d.value, d.node)
                        attrs = sl.attrs()
                        if lab == "T":
                            ok = f"{el}.start" in attrs and any(x.kind == "for" for x in sl.nodes)
                            seen["T"] = True
                            ctx.ob("R-DECISION", f"{m.qual} :: ordered marker", ok,
                                   f"an ordered item's marker must be computed from the list's start number and the item index; it depends on {sorted(attrs)}",
                                   where(m, d.node))
                        else:
                            ok = f"{el}.bullet" in attrs
                            seen["F"] = True
                            ctx.ob("R-DECISION", f"{m.qual} :: bullet marker", ok,
                                   f"a bullet item's marker must be the list's own bullet character; it depends on {sorted(attrs)}", where(m, d.node))
            # the continuation indent must be as wide as the marker of *this* item: in the ordered arm it has to follow the
            # same item number (start + index) as the marker, not be computed once for the whole list
            if isinstance(cargs[1], ast.Name):
                svar = cargs[1].id
                sdefs = flow.reaching(w, svar)
                for d in sdefs:
                    guards = direct_guards(prog, m, d.node)
                    for b, lab, org in guards:
                        if any(o[0] == "attr" and o[2] == "ordered" for o in org) and lab == "T" and d.value is not None:
                            sl = prog.slice(m, d.value, d.node)
                            ok = f"{el}.start" in sl.attrs() and any(x.kind == "for" for x in sl.nodes)
                            ctx.ob("R-DECISION", f"{m.qual} :: ordered continuation indent follows the item number", ok,
                                   "the indent of an ordered item's continuation lines must be computed from the same number as its marker "
                                   "(start + index): `9.` and `10.` need different indents, else the children of item 10 fall out of the item",
                                   where(m, d.node))
                in_loop = any(w in flow.loop_body_nodes(h) for h in flow.cfg.nodes if h.kind == "for")
                defs_in_loop = all(any(d.node in flow.loop_body_nodes(h) for h in flow.cfg.nodes if h.kind == "for") for d in sdefs) and bool(sdefs)
                ctx.ob("R-DECISION", f"{m.qual} :: prefixes are computed per item", in_loop and defs_in_loop,
                       "marker and continuation indent must be (re)computed inside the item loop", where(m, w))
            ctx.ob("R-DECISION", f"{m.qual} :: marker chosen by `ordered`", seen["T"] and seen["F"],
                   "the marker kind must be selected by element.ordered with one arm each", where(m, w))


def _const_under(expr: ast.AST | None, atom) -> str | None:
    if isinstance(expr, ast.Constant) and isinstance(expr.value, str):
        return expr.value
    if isinstance(expr, ast.IfExp):
        v = _bool_eval(expr.test, atom)
        if v is None:
            return None
        return _const_under(expr.body if v else expr.orelse, atom)
    return None


# -------------------------------------------------------------------------------------- R-PREFIX
def prefix_attrs(prog) -> tuple[str, str]:
    """(pending-prefix attribute, continuation-prefix attribute) of the renderer - read off its public `container(prefix,
    second_prefix)` context manager: the attribute extended by the first parameter and the one extended by the second.
    (`_prefix` / `_second_prefix` today; private names, free to change.)"""
    got = getattr(prog, "_prefix_attrs", None)
    if got is not None:
        return got
    out = None
    for ci in prog.repo.classes.values():
        m = ci.methods.get("container")
        if m is None or not ci.module.name.startswith("flowmark.formats") or len(m.params) < 3:
            continue
        selfp, p1, p2 = m.params[0], m.params[1], m.params[2]
        found: dict[str, str] = {}
        for x in ast.walk(m.node):
            if isinstance(x, ast.AugAssign) and isinstance(x.op, ast.Add) and isinstance(x.target, ast.Attribute) \
                    and isinstance(x.target.value, ast.Name) and x.target.value.id == selfp and isinstance(x.value, ast.Name):
                found[x.value.id] = x.target.attr
            if isinstance(x, ast.Assign) and len(x.targets) == 1 and isinstance(x.targets[0], ast.Attribute) and isinstance(x.targets[0].value, ast.Name) \
                    and x.targets[0].value.id == selfp and isinstance(x.value, ast.BinOp) and isinstance(x.value.op, ast.Add) \
                    and isinstance(x.value.right, ast.Name) and chain_key(x.value.left) == f"{selfp}.{x.targets[0].attr}":
                found[x.value.right.id] = x.targets[0].attr
        if p1 in found and p2 in found and found[p1] != found[p2]:
            out = (found[p1], found[p2])
        if out is None:
            # the context manager written as a class: container() returns Scope(self, prefix, second_prefix) whose __enter__
            # extends two attributes of the renderer by the stored arguments, in that order
            from ..loader import ClassInfo

            for x in ast.walk(m.node):
                if isinstance(x, ast.Return) and isinstance(x.value, ast.Call) and isinstance(x.value.func, (ast.Name, ast.Attribute)):
                    sc = prog.repo.resolve_expr(x.value.func, m.module, m)
                    ent = sc.methods.get("__enter__") if isinstance(sc, ClassInfo) else None
                    init = sc.methods.get("__init__") if isinstance(sc, ClassInfo) else None
                    if ent is None or init is None:
                        continue
                    # constructor parameter -> field it is stored in
                    stored = {st.value.id: st.targets[0].attr for st in ast.walk(init.node)
                              if isinstance(st, ast.Assign) and isinstance(st.targets[0], ast.Attribute) and isinstance(st.value, ast.Name)}
                    argpos = {a.id: i for i, a in enumerate(x.value.args) if isinstance(a, ast.Name)}
                    ctor_params = init.params[1:]
                    field_of = {}
                    for pname in (p1, p2):
                        if pname in argpos and argpos[pname] < len(ctor_params) and ctor_params[argpos[pname]] in stored:
                            field_of[stored[ctor_params[argpos[pname]]]] = pname
                    ext = {}
                    for y in ast.walk(ent.node):
                        if isinstance(y, ast.AugAssign) and isinstance(y.op, ast.Add) and isinstance(y.target, ast.Attribute) and isinstance(y.value, ast.Attribute) \
                                and y.value.attr in field_of:
                            ext[field_of[y.value.attr]] = y.target.attr
                    if p1 in ext and p2 in ext and ext[p1] != ext[p2]:
                        out = (ext[p1], ext[p2])
    if out is None:
        raise AnalysisError("anchor vanished: the renderer's container(prefix, second_prefix) context manager (the two prefix attributes cannot be identified)")
    prog._prefix_attrs = out  # type: ignore[attr-defined]
    return out


def _is_consume(prog, fi: FuncInfo, n: Node) -> bool:
    """self._prefix = self._second_prefix"""
    if n.kind == "stmt" and isinstance(n.ast, ast.Assign) and len(n.ast.targets) == 1:
        k = chain_key(n.ast.targets[0])
        PA, SA = prefix_attrs(prog)
        if k is not None and k == f"{fi.params[0]}.{PA}":
            v = chain_key(n.ast.value)
            if v is not None and v == f"{fi.params[0]}.{SA}":
                return True
            if isinstance(n.ast.value, ast.Name) and n.ast.value.id not in fi.params:
                # a local that holds self._second_prefix (read once at the top of a leaf renderer): the same value as long as
                # nothing in this function changes the continuation prefix in between
                org = origins(prog, fi, n.ast.value, n)
                selfp = fi.params[0]
                if org == frozenset({("attr", ("param", selfp), SA)}):
                    changes = any(isinstance(x, ast.Attribute) and isinstance(x.ctx, ast.Store) and x.attr == SA for x in ast.walk(fi.node)) \
                        or any(isinstance(x, (ast.With, ast.AsyncWith)) for x in ast.walk(fi.node))
                    calls_self = any(isinstance(c, ast.Call) and isinstance(c.func, ast.Attribute) and isinstance(c.func.value, ast.Name) and c.func.value.id == selfp
                                     and SA in {k.rpartition(".")[2] for k in prog.may_assign(t)}
                                     for c in ast.walk(fi.node) for t in (prog.resolve_call(fi, c) if isinstance(c, ast.Call) and isinstance(prog.resolve_call(fi, c), list) else []))
                    return not changes and not calls_self
    return False


def _returns_nonempty(n: Node) -> bool:
    v = n.ast.value
    return not (isinstance(v, ast.Constant) and v.value in ("", None)) and v is not None


def must_consume(ctx: Ctx, fi: FuncInfo, _depth: int = 0, after: Node | None = None) -> tuple[bool, list[Node] | None]:
    """Every path to a non-empty return passes a consume statement (or a helper call that must-consumes)."""
    prog = ctx.prog
    flow = prog.flow(fi)
    consumers: set[Node] = set()
    for n in flow.cfg.nodes:
        if _is_consume(prog, fi, n):
            consumers.add(n)
        elif _depth < 3:
            for c in flow.calls_in(n):
                if isinstance(c.func, ast.Attribute) and isinstance(c.func.value, ast.Name) and c.func.value.id == fi.params[0]:
                    t = prog.resolve_call(fi, c)
                    if isinstance(t, list) and t[0].cls is not None and t[0].name not in ("render", "render_children", "container"):
                        ok, _ = must_consume(ctx, t[0], _depth + 1)
                        if ok:
                            consumers.add(n)
    # self.render(child) of a child whose class is known to be a line-starting block that consumes
    rm = get_model(ctx)
    el_type = next((t for t, mm in rm.methods.items() if mm is fi), None)
    if el_type in CHILD_TYPES and _depth < 3:
        child_methods = [rm.methods.get(t) for t in CHILD_TYPES[el_type]]
        if all(cm is not None and must_consume(ctx, cm, _depth + 1)[0] for cm in child_methods):
            el = fi.params[1] if len(fi.params) > 1 else "element"
            for n in flow.cfg.nodes:
                for c in flow.calls_in(n):
                    if isinstance(c.func, ast.Attribute) and c.func.attr == "render" and isinstance(c.func.value, ast.Name) \
                            and c.func.value.id == fi.params[0] and c.args:
                        org = origins(prog, fi, c.args[0], n)
                        if org and all(_mentions(o, "children") and _mentions(o, el) for o in org):
                            consumers.add(n)
    start = after if after is not None else flow.cfg.entry
    for r in flow.cfg.returns():
        if not _returns_nonempty(r):
            continue
        if r in consumers:
            continue
        p = flow.cfg.path_avoiding(start, r, consumers)
        if p is not None:
            # single-exit style: `return rendered` where one arm set rendered = "" (nothing emitted, nothing to consume):
            # only the arms that produce text have to pass a consume statement
            v = r.ast.value
            defs = flow.reaching(r, v.id) if isinstance(v, ast.Name) else []
            if len(defs) > 1 and all(d.kind == "assign" for d in defs) and any(isinstance(d.value, ast.Constant) and d.value.value == "" for d in defs):
                bad = None
                for d in defs:
                    if isinstance(d.value, ast.Constant) and d.value.value == "":
                        continue
                    p1 = flow.cfg.path_avoiding(start, d.node, consumers) if d.node is not start else [start]
                    p2 = flow.cfg.path_avoiding(d.node, r, consumers)
                    if p1 is not None and p2 is not None and d.node not in consumers:
                        bad = p1 + p2[1:]
                if bad is None:
                    continue
                return False, bad
            return False, p
    return True, None


def classify(rm: RenderModel, reg: Registered, m: FuncInfo) -> str:
    if reg.kind == "inline" or reg.type_name in INLINE_LIKE:
        return "INLINE"
    if reg.type_name in PASS_THROUGH:
        return "PASS"
    for n in walk_no_nested(m.node):
        if isinstance(n, ast.With) and any("container" in norm(i.context_expr) for i in n.items):
            return "CONTAINER"
    return "LEAF"


def ends_with_newline(ctx: Ctx, fi: FuncInfo, expr: ast.AST | None, node: Node, depth: int = 0) -> bool | None:
    """True if the string value provably ends with "\\n"; False if provably constant without; None unknown."""
    prog = ctx.prog
    flow = prog.flow(fi)
    if expr is None or depth > 6:
        return None
    if isinstance(expr, ast.Constant):
        return isinstance(expr.value, str) and expr.value.endswith("\n")
    if isinstance(expr, ast.JoinedStr):
        if not expr.values:
            return False
        last = expr.values[-1]
        if isinstance(last, ast.Constant):
            return str(last.value).endswith("\n")
        return ends_with_newline(ctx, fi, last.value, node, depth + 1) if isinstance(last, ast.FormattedValue) else None
    if isinstance(expr, ast.BinOp) and isinstance(expr.op, ast.Add):
        r = ends_with_newline(ctx, fi, expr.right, node, depth + 1)
        if r is False and isinstance(expr.right, ast.Constant) and expr.right.value == "":
            return ends_with_newline(ctx, fi, expr.left, node, depth + 1)
        return r
    if isinstance(expr, ast.Name):
        defs = flow.reaching(node, expr.id)
        if not defs:
            return None
        res = []
        for d in defs:
            if d.kind == "assign" and isinstance(d.value, ast.Constant) and d.value.value == "" and len(defs) > 1:
                continue  # one of several values, the empty one: no output at all, like `return ""`
            if d.kind == "assign":
                res.append(ends_with_newline(ctx, fi, d.value, d.node, depth + 1))
            elif d.kind == "aug":
                res.append(ends_with_newline(ctx, fi, d.value, d.node, depth + 1))
            else:
                res.append(None)
        return True if all(r is True for r in res) else (False if any(r is False for r in res) else None)
    if isinstance(expr, ast.Call):
        f = expr.func
        if isinstance(f, ast.Attribute) and f.attr == "join" and isinstance(f.value, ast.Constant) and expr.args:
            # "".join(parts): every appended part ends with a newline; "\n".join(...) needs the explicit + "\n"
            if f.value.value == "" and isinstance(expr.args[0], ast.Name):
                lst = expr.args[0].id
                vals = []
                for d in flow.defs:
                    if d.var == lst and d.kind == "mutate" and isinstance(d.value, ast.Call) and d.value.args:
                        vals.append(ends_with_newline(ctx, fi, d.value.args[0], d.node, depth + 1))
                return True if vals and all(v is True for v in vals) else None
            return None
        t = prog.resolve_call(fi, expr)
        if isinstance(t, list) and t[0].cls is not None:
            callee = t[0]
            cf = prog.flow(callee)
            rs = [ends_with_newline(ctx, callee, r.ast.value, r, depth + 1) for r in cf.cfg.returns() if _returns_nonempty(r)]
            return True if rs and all(r is True for r in rs) else None
        if isinstance(f, ast.Attribute) and f.attr in ("render", "render_children"):
            return True  # a rendered block child is newline-terminated (this very rule, applied to the callee)
        return None
    if isinstance(expr, ast.IfExp):
        a = ends_with_newline(ctx, fi, expr.body, node, depth + 1)
        b = ends_with_newline(ctx, fi, expr.orelse, node, depth + 1)
        return True if a and b else (False if a is False or b is False else None)
    return None


def _line_wrapper_attr(ctx: Ctx) -> str:
    """The renderer attribute that holds the line wrapper: what __init__ stores its (public) `line_wrapper` argument in."""
    for ci in ctx.repo.classes.values():
        if "container" in ci.methods and ci.module.name.startswith("flowmark.formats"):
            init = ci.methods.get("__init__")
            if init is None:
                continue
            for x in ast.walk(init.node):
                if isinstance(x, (ast.Assign, ast.AnnAssign)) and getattr(x, "value", None) is not None and isinstance(x.value, ast.Name) \
                        and x.value.id in init.params and ("wrapper" in x.value.id):
                    t = x.targets[0] if isinstance(x, ast.Assign) else x.target
                    if isinstance(t, ast.Attribute):
                        return t.attr
    raise AnalysisError("anchor vanished: the renderer attribute holding the line wrapper")


def check_prefix(ctx: Ctx, clauses: set[str] | None = None) -> None:
    rm = get_model(ctx)
    prog = ctx.prog
    PA, SA = prefix_attrs(prog)  # today: _prefix, _second_prefix
    LWA = _line_wrapper_attr(ctx)
    want = clauses or {"P1", "P2", "P3", "P5", "P6"}
    seen_methods: set[str] = set()
    counts = {"LEAF": 0, "CONTAINER": 0, "PASS": 0, "INLINE": 0}
    for reg in sorted(rm.mm.registered, key=lambda r: r.type_name):
        m = rm.methods.get(reg.type_name)
        if m is None or reg.type_name in DISPATCH_EXEMPT:
            continue
        kind = classify(rm, reg, m)
        if m.qual in seen_methods:
            continue
        seen_methods.add(m.qual)
        counts[kind] += 1
        if kind == "INLINE":
            continue
        summ = rm.summary(m)
        attrs = summ.attrs()
        selfname = m.params[0]
        key = f"{m.qual} [{kind}]"
        if kind == "LEAF":
            if "P1" in want:
                ctx.ob("R-PREFIX-P1", key + " uses the pending prefix", f"{selfname}.{PA}" in attrs,
                       "a block that starts a line must emit the container's first-line prefix (list marker, `> `, footnote label); "
                       "its text does not depend on self._prefix", where(m, m.node))
            if "P1" in want:
                # P1b: repeated lines (loop bodies) are continuation lines: they use the second prefix, never the pending one
                for f in _with_helpers(prog, m):
                    fl = prog.flow(f)
                    sn = f.params[0]
                    for h in fl.cfg.nodes:
                        if h.kind != "for":
                            continue
                        for bn in fl.loop_body_nodes(h):
                            for ex in fl.node_exprs(bn):
                                for sub in walk_no_nested(ex):
                                    if isinstance(sub, ast.Attribute) and isinstance(sub.ctx, ast.Load) and chain_key(sub) == f"{sn}.{PA}":
                                        ctx.ob("R-PREFIX-P1", f"{f.qual} :: line emitted in a loop uses the continuation prefix", False,
                                               "lines produced in a loop are continuation lines of the block: they must be written under "
                                               "self._second_prefix; self._prefix holds the first-line prefix (list marker) until consumed",
                                               where(f, bn))
                # the paragraph wrapper receives (text, first-line prefix, continuation prefix) in that order
                for n, c in prog.flow(m).all_calls():
                    if isinstance(c.func, ast.Attribute) and chain_key(c.func) == f"{selfname}.{LWA}" and len(c.args) == 3:
                        o1 = origins(prog, m, c.args[1], n)
                        o2 = origins(prog, m, c.args[2], n)
                        # ("def", "effect", key): the attribute may have been updated by the children rendered before
                        o1 = frozenset(o for o in o1 if not (o[0] == "def" and o[1] == "effect"))
                        o2 = frozenset(o for o in o2 if not (o[0] == "def" and o[1] == "effect"))
                        ok12 = all(o[0] == "attr" and o[2] == PA for o in o1) and all(o[0] == "attr" and o[2] == SA for o in o2)
                        ctx.ob("R-PREFIX-P1", f"{m.qual} :: line wrapper indents", ok12 and bool(o1) and bool(o2),
                               "the line wrapper must get self._prefix as the first-line indent and self._second_prefix as the continuation indent",
                               where(m, c))
            if "P2" in want:
                ok, p = must_consume(ctx, m)
                ctx.ob("R-PREFIX-P2", key + " consumes the prefix", ok,
                       "after emitting its first line a block must switch to the continuation prefix "
                       "(self._prefix = self._second_prefix) on every path to a non-empty return",
                       where(m, m.node), [f"{x.lineno}: {x.text()}" for x in (p or [])])
        elif kind == "CONTAINER":
            if "P3" in want:
                flow = prog.flow(m)
                exits = [n for n in flow.cfg.nodes if n.kind == "withexit" and "container" in norm(n.ast.items[0].context_expr)]
                ok_all, path = True, None
                for x in exits:
                    # loops: the restore must follow the loop that contains the with
                    ok, p = must_consume(ctx, m, after=x)
                    if not ok:
                        ok_all, path = False, p
                ctx.ob("R-PREFIX-P3", key + " restores the prefix after its children", ok_all and bool(exits),
                       "after `with self.container(...)` the method must set self._prefix = self._second_prefix on every path "
                       "(otherwise the next sibling block is emitted under a stale first-line prefix)",
                       where(m, m.node), [f"{x.lineno}: {x.text()}" for x in (path or [])])
            if "P1" in want:
                # a container that emits a line of its own before its children (alert header) must use/consume the prefix
                flow = prog.flow(m)
                for r in flow.cfg.returns():
                    pieces = _own_line_pieces(ctx, m, r)
                    for piece, pnode in pieces:
                        sl = prog.slice(m, piece, pnode)
                        ctx.ob("R-PREFIX-P1", f"{m.qual} [CONTAINER] own line `{norm(piece)[:40]}` uses the pending prefix",
                               f"{selfname}.{PA}" in sl.attrs(),
                               "a line emitted by the container itself (before its children) must carry the pending first-line prefix",
                               where(m, pnode))
        elif kind == "PASS" and "P5" in want:
            el = rm.el_param(m)
            dep_children = f"{el}.children" in attrs
            ctx.ob("R-PREFIX-P5", key + " empty element keeps its marker",
                   f"{selfname}.{PA}" in attrs and dep_children,
                   f"{reg.type_name} can be empty ({PASS_THROUGH[reg.type_name]}); with no child to carry it, the pending prefix "
                   "(the list marker) must be emitted by the method itself, else the item vanishes", where(m, m.node))
        if "P6" in want and kind in ("LEAF", "CONTAINER"):
            flow = prog.flow(m)
            for r in flow.cfg.returns():
                if not _returns_nonempty(r):
                    continue
                e = ends_with_newline(ctx, m, r.ast.value, r)
                ctx.ob("R-PREFIX-P6", f"{m.qual} :: {norm(r.ast)[:60]} is newline-terminated", e is not False,
                       "a block's rendered text must end with a newline (otherwise the next block is glued to it)"
                       + ("" if e is True else " [could not prove, not refuted]"), where(m, r))
    ctx.note("render_method_kinds", counts)
    ctx.require("R-PREFIX", "block render methods (LEAF)", counts["LEAF"], 5)
    ctx.require("R-PREFIX", "block render methods (CONTAINER)", counts["CONTAINER"], 2)


def _own_line_pieces(ctx: Ctx, m: FuncInfo, r: Node) -> list[tuple[ast.AST, Node]]:
    """Constant-leading pieces of a container's return value that form a line of their own before the children:
    f"{header}{children}\\n" where `header` is a local assigned from an f-string ending in a newline."""
    flow = ctx.prog.flow(m)
    out = []
    v = r.ast.value
    if isinstance(v, ast.JoinedStr):
        for part in v.values:
            if isinstance(part, ast.FormattedValue) and isinstance(part.value, ast.Name):
                for d in flow.reaching(r, part.value.id):
                    if d.kind == "assign" and isinstance(d.value, ast.JoinedStr) and ends_with_newline(ctx, m, d.value, d.node):
                        out.append((d.value, d.node))
            else:
                break
    return out


def check_blank_line_hygiene(ctx: Ctx) -> None:
    """P4 (C12): inside code blocks an empty content line is emitted under the right-stripped prefix."""
    rm = get_model(ctx)
    prog = ctx.prog
    found = 0
    seen: set[str] = set()
    for t in ("CustomFencedCode", "CodeBlock", "FencedCode"):
        m = rm.methods.get(t) or rm.repo.find_method(rm.rcls, "render_" + {"FencedCode": "fenced_code"}.get(t, ""))
        if m is None:
            continue
        for f in _with_helpers(prog, m):
            if f.qual in seen:
                continue
            seen.add(f.qual)
            flow = prog.flow(f)
            for h in flow.cfg.nodes:
                if h.kind != "for" or not isinstance(h.ast.target, ast.Name):
                    continue
                var = h.ast.target.id
                body = flow.loop_body_nodes(h)
                tests = [n for n in body if n.kind == "test" and norm(n.ast) in (var, f"not {var}", f"{var} != ''", f"{var} == ''")]
                if not tests:
                    continue
                found += 1
                t0 = tests[0]
                empty_label = "F" if norm(t0.ast) in (var, f"{var} != ''") else "T"
                for n in body:
                    edges = must_edges(flow.cfg, h, n) or set()
                    if (t0, empty_label) in edges and n.kind == "stmt":
                        for c in flow.calls_in(n):
                            if isinstance(c.func, ast.Attribute) and c.func.attr == "append" and c.args:
                                sl = prog.slice(f, c.args[0], n)
                                stripped = any(op in (".rstrip()", ".strip()") for op, _ in sl.ops) or all(
                                    s[0] == "const" for s in sl.sources)
                                uses_prefix = any(a.rpartition(".")[2] in prefix_attrs(prog) for a in sl.attrs())
                                ctx.ob("R-PREFIX-P4", f"{f.qual} :: empty code line", stripped or not uses_prefix,
                                       "an empty line inside a code block must be emitted under the right-stripped prefix "
                                       "(no trailing spaces are added)", where(f, n))
            # the same decision written as a comprehension: (P + line if line else E for line in lines)
            for x in walk_no_nested(f.node):
                if not (isinstance(x, (ast.GeneratorExp, ast.ListComp)) and len(x.generators) == 1 and isinstance(x.generators[0].target, ast.Name)
                        and isinstance(x.elt, ast.IfExp)):
                    continue
                var = x.generators[0].target.id
                tt = norm(x.elt.test)
                if tt not in (var, f"not {var}", f"{var} != ''", f"{var} == ''"):
                    continue
                found += 1
                empty_arm = x.elt.orelse if tt in (var, f"{var} != ''") else x.elt.body
                node = flow.node_of(x)
                if node is None:
                    continue
                sl = prog.slice(f, empty_arm, node)
                stripped = any(op in (".rstrip()", ".strip()") for op, _ in sl.ops) or all(s_[0] == "const" for s_ in sl.sources)
                uses_prefix = any(a.rpartition(".")[2] in prefix_attrs(prog) for a in sl.attrs()) or any("prefix" in p_ for p_ in sl.params())
                ctx.ob("R-PREFIX-P4", f"{f.qual} :: empty code line", stripped or not uses_prefix,
                       "an empty line inside a code block must be emitted under the right-stripped prefix "
                       "(no trailing spaces are added)", where(f, node))
    ctx.require("R-PREFIX-P4", "code-line loops with an empty-line arm", found, 1)


def _with_helpers(prog, m: FuncInfo, depth: int = 2) -> list[FuncInfo]:
    """The method, the methods of its class it calls and the private module-level functions of its module they call."""
    out = [m]
    work = [(m, 0)]
    while work:
        f, d = work.pop(0)
        for n in walk_no_nested(f.node):
            if isinstance(n, ast.Call):
                t = prog.resolve_call(f, n)
                if not (isinstance(t, list) and len(t) == 1) or t[0] in out or isinstance(t[0].node, ast.Lambda):
                    continue
                c = t[0]
                same_class = c.cls is not None and c.cls is m.cls and c.name not in ("render", "render_children")
                private_fn = c.cls is None and c.parent is None and c.module is m.module and c.name.startswith("_")
                if (same_class or private_fn) and d < depth:
                    out.append(c)
                    work.append((c, d + 1))
    return out


# -------------------------------------------------------------------------------------- R-ENCODE
LOSSY_METHODS = {
    "strip", "rstrip", "lstrip", "splitlines", "expandtabs", "lower", "upper", "title", "casefold", "capitalize",
    "swapcase", "translate", "encode", "zfill", "center", "ljust", "rjust", "removeprefix",
}
LOSSY_CALLS = {"re.sub", "re.subn", "textwrap.dedent", "textwrap.indent", "textwrap.fill", "textwrap.wrap", "unicodedata.normalize",
               "html.escape", "html.unescape", "str.strip"}


def _is_lossy(op, allow_replace: tuple[str, str] | None = None, allow_strip_arg: str | None = None) -> str | None:
    if op.kind == "method":
        if op.name in LOSSY_METHODS:
            if op.name == "rstrip" and False:
                return None
            if allow_strip_arg is not None and op.name == "strip" and op.args == (allow_strip_arg,):
                return None
            return f"{op.text} is not content-preserving"
        if op.name == "replace":
            if allow_replace is not None and op.args == allow_replace:
                return None
            return f"{op.text} rewrites characters of a verbatim field"
        if op.name == "split" and op.args not in (("'\\n'",),):
            return f"{op.text} followed by a join is only the identity for the separator '\\n'"
        if op.name == "removesuffix" and op.args != ("'\\n'",):
            return f"{op.text} drops content"
    if op.kind == "call":
        nm = op.name
        if nm in LOSSY_CALLS or nm.endswith(".sub") or nm.endswith(".subn"):
            return f"{op.text} rewrites a verbatim field"
    if op.kind == "subscript":
        s = op.args[0] if op.args else ""
        if ":" in s:
            return f"slice [{s}] truncates a verbatim field"
    return None


def check_encode(ctx: Ctx, rows: set[str] | None = None) -> None:
    rm = get_model(ctx)
    prog = ctx.prog
    want = rows or {"codespan", "title", "dest", "cell", "verbatim"}

    def field_pred(el: str, fld: str):
        def pred(e: ast.AST) -> bool:
            return isinstance(e, ast.Attribute) and chain_key(e) == f"{el}.{fld}"
        return pred

    # --- code span: the delimiter must be sized from the content
    if "codespan" in want:
        m = rm.methods.get("CodeSpan")
        if m is None:
            raise AnalysisError("render method for CodeSpan not found")
        el = rm.el_param(m)
        flow = prog.flow(m)
        n_ret = 0
        for r in flow.cfg.returns():
            v = r.ast.value

            def parts_of(e: ast.AST) -> list[ast.AST] | None:
                """pieces of an f-string or of a `+` concatenation, in order (constants stay Constant nodes)"""
                if isinstance(e, ast.JoinedStr):
                    return [p_.value if isinstance(p_, ast.FormattedValue) else p_ for p_ in e.values]
                if isinstance(e, ast.BinOp) and isinstance(e.op, ast.Add):
                    l_, r_ = parts_of(e.left), parts_of(e.right)
                    return (l_ if l_ is not None else [e.left]) + (r_ if r_ is not None else [e.right])
                return None

            pieces = parts_of(v)
            if pieces is None:
                continue
            n_ret += 1
            lead = []
            text_seen = False
            for part in pieces:
                if not (isinstance(part, ast.Constant) and isinstance(part.value, str)):
                    sl = prog.slice(m, part, r)
                    org = origins(prog, m, part, r)
                    is_text = any(o[0] == "attr" and o[2] == "children" for o in org)
                    if is_text:
                        text_seen = True
                        break
                    lead.append(("expr", part, sl))
                else:
                    lead.append(("const", part, None))
            const_ticks = [p for k, p, _ in lead if k == "const" and "`" in str(p.value)]
            dyn = [sl for k, _, sl in lead if k == "expr" and sl is not None and sl.depends_on_attr(f"{el}.children")]
            ok = text_seen and not const_ticks and bool(dyn)
            if not ok and text_seen and const_ticks:
                # a fixed one-backtick delimiter on a path where the text is known to hold no backtick at all
                for b_, lab_ in must_edges(flow.cfg, flow.cfg.entry, r) or set():
                    t_ = b_.ast if b_.kind == "test" else None
                    if isinstance(t_, ast.Compare) and len(t_.ops) == 1 and isinstance(t_.left, ast.Constant) and t_.left.value == "`" \
                            and ((isinstance(t_.ops[0], ast.NotIn) and lab_ == "T") or (isinstance(t_.ops[0], ast.In) and lab_ == "F")) \
                            and any(o[0] == "attr" and o[2] == "children" for o in origins(prog, m, t_.comparators[0], b_)):
                        ok = True
            ctx.ob("R-ENCODE-codespan", f"{m.qual} :: {norm(v)[:50]}", ok,
                   "a code span's backtick delimiter must be computed from the backtick runs inside its text; a constant "
                   "delimiter cannot enclose arbitrary content (``a`b`` -> `a`b`)", where(m, r))
        ctx.require("R-ENCODE", "f-string returns of the code span renderer", n_ret, 1)

    # --- titles are quoted with their inner quotes escaped; cells re-escape the pipe
    pairs = []
    if "title" in want:
        pairs += [("Link", "title", ("'\"'", "'\\\\\"'")), ("Image", "title", ("'\"'", "'\\\\\"'")), ("LinkRefDef", "title", ("'\"'", "'\\\\\"'"))]
    for t, fld, (a, b) in pairs:
        m = rm.methods.get(t)
        if m is None:
            continue
        el = rm.el_param(m)
        tn = Taint(prog)
        tn.run_field(m, el, fld)
        esc = [o for o in tn.ops if o.kind == "method" and o.name == "replace" and o.args == (a, b)]
        ctx.ob("R-ENCODE-title", f"{m.qual} :: {t}.{fld} -> \"...\"", bool(esc),
               f"a title is emitted between double quotes, so its inner quotes must be escaped (.replace({a}, {b})) on the way; "
               f"operations applied: {[o.text for o in tn.ops][:8]}", where(m, m.node))
    if "cell" in want:
        m = rm.methods.get("TableCell")
        if m is not None:
            flow = prog.flow(m)
            ok = False
            for r in flow.cfg.returns():
                sl = prog.slice(m, r.ast.value, r)
                for op, node in sl.ops:
                    if op == ".replace()" and isinstance(node, ast.Call) and len(node.args) == 2 and \
                            [getattr(x, "value", None) for x in node.args] == ["|", "\\|"]:
                        ok = True
            ctx.ob("R-ENCODE-cell", f"{m.qual} :: cell text -> | ... |", ok,
                   "a literal pipe inside a table cell must be re-escaped (.replace('|', '\\\\|')), else it splits the cell", where(m, m.node))

    # --- destinations: never the bare attribute inside ( ... )
    if "dest" in want:
        # not LinkRefDef: marko keeps its destination as the raw source text, angle brackets included
        for t in ("Link", "Image"):
            m = rm.methods.get(t)
            if m is None:
                continue
            el = rm.el_param(m)
            flow = prog.flow(m)
            dest_org = frozenset({("attr", ("param", el), "dest")})

            def decided_on_dest(test: ast.AST, tnode: Node) -> bool:
                """The test inspects the destination itself (re.search(pattern, dest), is_paired(dest), " " in dest)."""
                for c in ast.walk(test):
                    if isinstance(c, ast.Call) and any(origins(prog, m, a, tnode) == dest_org for a in c.args):
                        return True
                    if isinstance(c, ast.Compare) and isinstance(c.ops[0], (ast.In, ast.NotIn)) and origins(prog, m, c.comparators[0], tnode) == dest_org:
                        return True
                return False

            def bare(e: ast.AST, node: Node, seen: frozenset = frozenset()) -> list[Node]:
                """Nodes at which the unencoded destination enters the value `e` without a test of the destination deciding it."""
                if isinstance(e, ast.Attribute) and origins(prog, m, e, node) == dest_org:
                    return [node]
                if isinstance(e, ast.IfExp):
                    if decided_on_dest(e.test, node):
                        return []
                    return bare(e.body, node, seen) + bare(e.orelse, node, seen)
                if isinstance(e, ast.Name):
                    out: list[Node] = []
                    for d in flow.reaching(node, e.id):
                        if d.id in seen or d.kind != "assign" or d.value is None:
                            continue
                        if any(b.kind == "test" and decided_on_dest(b.ast, b) for b, _lab in all_guards(prog, m, d.node)):
                            continue
                        out += bare(d.value, d.node, seen | {d.id})
                    return out
                return []

            bare_sites = []
            for node in flow.cfg.nodes:
                for ex in flow.node_exprs(node):
                    for sub in walk_no_nested(ex):
                        carriers: list[ast.AST] = []
                        if isinstance(sub, ast.FormattedValue):
                            carriers.append(sub.value)
                        elif isinstance(sub, ast.Call) and isinstance(sub.func, ast.Attribute) and sub.func.attr == "format":
                            carriers += list(sub.args)
                        elif isinstance(sub, ast.BinOp) and isinstance(sub.op, ast.Add):
                            carriers += [x for x in (sub.left, sub.right) if isinstance(x, (ast.Name, ast.Attribute))]
                        for cexp in carriers:
                            if any(b.kind == "test" and decided_on_dest(b.ast, b) for b, _lab in all_guards(prog, m, node)):
                                continue
                            for bn in bare(cexp, node):
                                bare_sites.append((cexp, bn))
            ctx.ob("R-ENCODE-dest", f"{m.qual} :: {t}.dest -> destination", not bare_sites,
                   "a destination may contain spaces, angle brackets or unbalanced parentheses (the parser accepts `<a b>`); "
                   "it must pass through an encoder that picks the `<...>` form, not be emitted as the bare attribute"
                   + (f" ({len(bare_sites)} bare site(s))" if bare_sites else ""),
                   where(m, bare_sites[0][1] if bare_sites else m.node))

    # --- verbatim flow: only content-preserving operations between a verbatim field and the output
    if "verbatim" in want:
        table = [
            ("CustomFencedCode", "children", None, None), ("CodeBlock", "children", None, None),
            ("CustomFencedCode", "lang", None, None), ("CustomFencedCode", "extra", None, None),
            ("Link", "dest", None, None), ("Image", "dest", None, None), ("LinkRefDef", "dest", None, None),
            ("LinkRefDef", "label", None, None), ("FootnoteRef", "label", None, None), ("FootnoteDef", "label", None, None),
            ("Link", "title", ("'\"'", "'\\\\\"'"), "'\"'"), ("Image", "title", ("'\"'", "'\\\\\"'"), "'\"'"),
            ("LinkRefDef", "title", ("'\"'", "'\\\\\"'"), "'\"'"),
            ("InlineHTML", "children", None, None), ("CodeSpan", "children", None, None),
            ("AutoLink", "dest", None, None), ("Url", "dest", None, None), ("Alert", "alert_type", None, None),
        ]
        n_v = 0
        for t, fld, allow_rep, allow_strip in table:
            m = rm.methods.get(t)
            if m is None:
                continue
            el = rm.el_param(m)
            tn = Taint(prog)
            tn.run_field(m, el, fld)
            n_v += 1
            bad = []
            for op in tn.ops:
                if fld == "dest" and op.kind == "method" and op.name == "replace" and op.args in (("'<'", "'\\\\<'"), ("'>'", "'\\\\>'")):
                    continue  # the angle-bracket escape of the destination encoder
                why = _is_lossy(op, allow_rep, allow_strip)
                if why:
                    bad.append((op, why))
            key = f"{m.qual} :: {t}.{fld} verbatim"
            if not bad:
                ctx.ob("R-ENCODE-verbatim", key, True, f"{len(tn.ops)} operations on the field, all content-preserving", where(m, m.node))
            for op, why in bad:
                ctx.ob("R-ENCODE-verbatim", f"{key} :: {op.func.name}{op.text}", False,
                       f"{t}.{fld} must reach the output unchanged: {why}", where(op.func, op.node))
        ctx.require("R-ENCODE", "verbatim field flows analysed", n_v, 8)


def _mentions(o, name: str) -> bool:
    if isinstance(o, tuple):
        return any(x == name or _mentions(x, name) for x in o)
    return False


def _only_compared(e: ast.AST) -> bool:
    from ..loader import parent

    p = parent(e)
    while p is not None and isinstance(p, (ast.Tuple,)):
        p = parent(p)
    return isinstance(p, ast.Compare)


# --------------------------------------------------------------------------------------- R-BOUND
def _lb(flow, expr: ast.AST | None, node: Node, sym: str, depth: int = 0) -> int | None:
    """k such that expr >= sym + k on every path, or None."""
    if expr is None or depth > 8:
        return None
    if not isinstance(sym, str):
        # the symbol is an expression of the function (the scan call itself, used without a temporary)
        if expr is sym:
            return 0
    if isinstance(expr, ast.Name):
        if expr.id == sym:
            return 0
        defs = flow.reaching(node, expr.id)
        if not defs:
            return None
        vals = []
        for d in defs:
            if d.kind == "assign":
                vals.append(_lb(flow, d.value, d.node, sym, depth + 1))
            else:
                vals.append(None)
        return None if any(v is None for v in vals) else min(vals)
    if isinstance(expr, ast.BinOp) and isinstance(expr.op, (ast.Add, ast.Sub)) and isinstance(expr.right, ast.Constant) \
            and isinstance(expr.right.value, int):
        base = _lb(flow, expr.left, node, sym, depth + 1)
        if base is None:
            return None
        return base + (expr.right.value if isinstance(expr.op, ast.Add) else -expr.right.value)
    if isinstance(expr, ast.BinOp) and isinstance(expr.op, ast.Add) and isinstance(expr.left, ast.Constant) and isinstance(expr.left.value, int):
        base = _lb(flow, expr.right, node, sym, depth + 1)
        return None if base is None else base + expr.left.value
    if isinstance(expr, ast.Call) and isinstance(expr.func, ast.Name) and expr.func.id == "max" and not expr.keywords:
        vals = [_lb(flow, a, node, sym, depth + 1) for a in expr.args]
        vals = [v for v in vals if v is not None]
        return max(vals) if vals else None
    if isinstance(expr, ast.IfExp):
        a, b = _lb(flow, expr.body, node, sym, depth + 1), _lb(flow, expr.orelse, node, sym, depth + 1)
        return None if a is None or b is None else min(a, b)
    return None


def _expanded_args(prog, fi: FuncInfo, call: ast.Call, node: Node) -> list[ast.AST]:
    """positional arguments with single-assignment temporaries read through (`n = len(run); acc = max(acc, n)`)"""
    from ..decide import expand_expr

    return [expand_expr(prog, fi, a, node, strict=False) for a in call.args]


def check_fence_bound(ctx: Ctx) -> None:
    rm = get_model(ctx)
    prog, repo = ctx.prog, ctx.repo
    m = rm.methods.get("CustomFencedCode")
    if m is None:
        raise AnalysisError("render method for fenced code not found")
    funcs = _with_helpers(prog, m)
    code_f = next((f for f in funcs if any(isinstance(n, ast.BinOp) and isinstance(n.op, ast.Mult) for n in walk_no_nested(f.node))), None)
    if code_f is None:
        raise AnalysisError("R-BOUND: no `fence_char * fence_len` expression found in the code renderer")
    flow = prog.flow(code_f)
    mults = [(n, sub) for n in flow.cfg.nodes for ex in flow.node_exprs(n) for sub in walk_no_nested(ex)
             if isinstance(sub, ast.BinOp) and isinstance(sub.op, ast.Mult)]
    scan_calls = []
    for n, c in flow.all_calls():
        t = prog.resolve_call(code_f, c)
        if isinstance(t, list) and t[0].cls is None and not isinstance(t[0].node, ast.Lambda):  # (any module of the package: helpers get moved)
            cf = t[0]
            if any(isinstance(x, ast.Call) and (call_name(prog, cf, x) in ("re.finditer", "re.findall") or (
                    isinstance(x.func, ast.Attribute) and x.func.attr in ("finditer", "findall"))) for x in ast.walk(cf.node)):
                scan_calls.append((n, c, cf))
                repo.func(cf.qual)  # anchor: stays a function in the inlined view
    inline_scan = False
    if not scan_calls:
        # the scan written out in the renderer itself: the same obligations, with the accumulator as the bound's symbol
        own_scans = [(n, c) for n, c in flow.all_calls() if call_name(prog, code_f, c) in ("re.finditer", "re.findall")
                     or (isinstance(c.func, ast.Attribute) and c.func.attr in ("finditer", "findall"))]
        if own_scans:
            inline_scan = True
            scan_calls = [(own_scans[0][0], None, code_f)]
    ctx.require("R-BOUND", "call to the fence-length scan in the code renderer", len(scan_calls), 1)
    if not scan_calls or not mults:
        return
    sn, sc, scan_f = scan_calls[0]
    # (1) inside the scan: an accumulator updated with max(acc, len(run)) for every match; return >= acc + 1
    sflow = prog.flow(scan_f)
    acc = None
    for n in sflow.cfg.nodes:
        if n.kind == "stmt" and isinstance(n.ast, ast.Assign) and isinstance(n.ast.targets[0], ast.Name):
            v = n.ast.value
            name = n.ast.targets[0].id
            if isinstance(v, ast.Call) and isinstance(v.func, ast.Name) and v.func.id == "max" and any(
                isinstance(a, ast.Name) and a.id == name for a in v.args
            ) and any(isinstance(a, ast.Call) and isinstance(a.func, ast.Name) and a.func.id == "len" for a in _expanded_args(prog, scan_f, v, n)):
                loops = [h for h in sflow.cfg.nodes if h.kind == "for" and n in sflow.loop_body_nodes(h)]
                if loops:
                    acc = (name, n, loops[0])
    agg = None
    if acc is None:
        # the same maximum written as an aggregate: acc = max((len(run) for match in re.finditer(...)), default=0)
        for n in sflow.cfg.nodes:
            if n.kind == "stmt" and isinstance(n.ast, (ast.Assign, ast.AnnAssign)) and getattr(n.ast, "value", None) is not None:
                tgt = n.ast.targets[0] if isinstance(n.ast, ast.Assign) else n.ast.target
                v = n.ast.value
                if isinstance(tgt, ast.Name) and isinstance(v, ast.Call) and isinstance(v.func, ast.Name) and v.func.id == "max" and len(v.args) == 1 \
                        and isinstance(v.args[0], (ast.GeneratorExp, ast.ListComp)) and len(v.args[0].generators) == 1:
                    comp = v.args[0]
                    dflt = next((k.value for k in v.keywords if k.arg == "default"), None)
                    if isinstance(comp.elt, ast.Call) and isinstance(comp.elt.func, ast.Name) and comp.elt.func.id == "len" \
                            and isinstance(dflt, ast.Constant) and isinstance(dflt.value, int) and dflt.value >= 0:
                        agg = (tgt.id, n, comp)
    if acc is None and agg is None:
        ctx.ob("R-BOUND", f"{scan_f.qual} :: longest-run accumulator", False,
               "the scan must keep the maximum length over all fence-like runs (acc = max(acc, len(run)) inside the match loop)", where(scan_f, scan_f.node))
        return
    if acc is not None:
        name, an, loop = acc
        guards = [b for b, lab in (must_edges(sflow.cfg, loop, an) or set()) if b is not loop]
        ctx.ob("R-BOUND", f"{scan_f.qual} :: every run updates the maximum", not guards,
               "the accumulator update must run for every matched run (no filtering condition inside the loop)", where(scan_f, an))
        len_arg = next(a for a, x in zip(an.ast.value.args, _expanded_args(prog, scan_f, an.ast.value, an))
                       if isinstance(x, ast.Call) and isinstance(x.func, ast.Name) and x.func.id == "len")
        lsl = prog.slice(scan_f, len_arg, an)
        ctx.ob("R-BOUND", f"{scan_f.qual} :: measured run is the matched run", any(x.kind == "for" for x in lsl.nodes),
               "the measured length must be that of the run matched in this iteration", where(scan_f, an))
    else:
        name, an, comp = agg
        gen = comp.generators[0]
        ctx.ob("R-BOUND", f"{scan_f.qual} :: every run updates the maximum", not gen.ifs,
               "the maximum must be taken over every matched run (no filtering condition in the generator)", where(scan_f, an))
        tnames = {x.id for x in ast.walk(gen.target) if isinstance(x, ast.Name)}
        ctx.ob("R-BOUND", f"{scan_f.qual} :: measured run is the matched run", any(isinstance(x, ast.Name) and x.id in tnames for x in ast.walk(comp.elt)),
               "the measured length must be that of the run matched in this iteration", where(scan_f, an))
    for r in ([] if inline_scan else sflow.cfg.returns()):
        k = _lb(sflow, r.ast.value, r, name)
        if k is None and isinstance(r.ast.value, ast.Constant) and isinstance(r.ast.value.value, int) and not isinstance(r.ast.value.value, bool):
            # an early exit where the content holds no fence character at all: the longest run is 0 there
            for b_, lab_ in must_edges(sflow.cfg, sflow.cfg.entry, r) or set():
                t_ = b_.ast if b_.kind == "test" else None
                if isinstance(t_, ast.Compare) and len(t_.ops) == 1 and isinstance(t_.left, ast.Name) and isinstance(t_.comparators[0], ast.Name) \
                        and t_.left.id in scan_f.params and t_.comparators[0].id in scan_f.params \
                        and all(d.kind == "param" for x_ in (t_.left, t_.comparators[0]) for d in sflow.reaching(b_, x_.id)) \
                        and ((isinstance(t_.ops[0], ast.NotIn) and lab_ == "T") or (isinstance(t_.ops[0], ast.In) and lab_ == "F")):
                    k = r.ast.value.value
        ctx.ob("R-BOUND", f"{scan_f.qual} :: return > longest run", k is not None and k >= 1,
               f"the returned fence length must be at least (longest run + 1); lower bound found: "
               f"{'longest run %+d' % k if k is not None else 'none'} for `{norm(r.ast.value)}`", where(scan_f, r))
    # the scanned pattern is built from the fence character parameter and anchored per line
    pat_ok = False
    for n, c in sflow.all_calls():
        if call_name(prog, scan_f, c) in ("re.finditer", "re.findall") and c.args:
            sl = prog.slice(scan_f, c.args[0], n)
            chars = [p for p in scan_f.params if p in sl.params()]
            multiline = any("MULTILINE" in norm(a) or norm(a) == "re.M" for a in list(c.args[2:]) + [k.value for k in c.keywords])
            pat_ok = bool(chars) and multiline
            ctx.ob("R-BOUND", f"{scan_f.qual} :: scan pattern", pat_ok,
                   f"the scan must look for runs of the *given* fence character at line starts (MULTILINE); pattern depends on params {chars}, multiline={multiline}",
                   where(scan_f, c))
        elif isinstance(c.func, ast.Attribute) and c.func.attr in ("finditer", "findall") and call_name(prog, scan_f, c) not in ("re.finditer", "re.findall"):
            # a compiled pattern: it must still be built from the given fence character, with MULTILINE, wherever it is compiled
            sl = prog.slice(scan_f, c.func.value, n)
            chars = [p for p in scan_f.params if p in sl.params()]
            compilers = [scan_f] + [repo.functions[q] for q in sl.callees() if q in repo.functions]
            multiline = False
            for g in compilers:
                for x in ast.walk(g.node):
                    if isinstance(x, ast.Call) and call_name(prog, g, x) == "re.compile":
                        if any("MULTILINE" in norm(a) or norm(a) == "re.M" for a in list(x.args[1:]) + [k.value for k in x.keywords]):
                            multiline = True
            pat_ok = bool(chars) and multiline
            ctx.ob("R-BOUND", f"{scan_f.qual} :: scan pattern", pat_ok,
                   f"the scan must look for runs of the *given* fence character at line starts (MULTILINE); pattern depends on params {chars}, multiline={multiline}",
                   where(scan_f, c))
    # (2) caller: emitted length >= scan result; same fence character scanned and emitted
    if inline_scan:
        for mn, mult in mults:
            char_e, len_e = (mult.left, mult.right)
            if _lb(flow, len_e, mn, name) is None and _lb(flow, char_e, mn, name) is not None:
                char_e, len_e = len_e, char_e
            k = _lb(flow, len_e, mn, name)
            ctx.ob("R-BOUND", f"{code_f.qual} :: emitted fence length >= required length", k is not None and k >= 1,
                   f"the fence that is written must be longer than the longest fence-like run of the content; bound: "
                   f"{'longest run %+d' % k if k is not None else 'none'} for `{norm(len_e)}`", where(code_f, mult))
            # the scanned pattern is built from the very character that is emitted
            char_names = {x.id for x in ast.walk(char_e) if isinstance(x, ast.Name)}
            same_char = False
            for n2, c2 in flow.all_calls():
                is_scan = call_name(prog, code_f, c2) in ("re.finditer", "re.findall") or (isinstance(c2.func, ast.Attribute) and c2.func.attr in ("finditer", "findall"))
                if is_scan:
                    pat_e = c2.args[0] if call_name(prog, code_f, c2) in ("re.finditer", "re.findall") and c2.args else c2.func.value
                    sl_p = prog.slice(code_f, pat_e, n2)
                    if {d.var for d in sl_p.defs} & char_names or any(isinstance(x, ast.Name) and x.id in char_names for x in ast.walk(pat_e)):
                        same_char = True
            ctx.ob("R-BOUND", f"{code_f.qual} :: scanned character == emitted character", same_char,
                   "the content must be scanned for the same fence character that is emitted", where(code_f, mult))
        fence_vars = {d.var for d in flow.defs if d.kind == "assign" and any(d.value is mult for _, mult in mults)}
        uses = sum(1 for n in flow.cfg.nodes for ex in flow.node_exprs(n) for sub in walk_no_nested(ex)
                   if (isinstance(sub, ast.JoinedStr) and any(isinstance(p, ast.FormattedValue) and isinstance(p.value, ast.Name) and p.value.id in fence_vars for p in sub.values))
                   or (isinstance(sub, ast.BinOp) and isinstance(sub.op, ast.Add) and any(isinstance(p, ast.Name) and p.id in fence_vars for p in (sub.left, sub.right))))
        if fence_vars:
            ctx.ob("R-BOUND", f"{code_f.qual} :: opening and closing fence", uses >= 2,
                   f"both fence lines must be built from the computed fence (found {uses} uses)", where(code_f, code_f.node))
        return
    b = bind_call(scan_f, sc)
    for mn, mult in mults:
        char_e, len_e = (mult.left, mult.right)
        sl_len = prog.slice(code_f, len_e, mn)
        if not any(nm == scan_f.qual for nm, _ in sl_len.calls):
            char_e, len_e = len_e, char_e
        # bound: len_e >= result of the scan call
        scan_var = None
        for d in flow.defs:
            if d.kind == "assign" and d.value is sc:
                scan_var = d.var
        k = _lb(flow, len_e, mn, scan_var if scan_var else sc)
        ctx.ob("R-BOUND", f"{code_f.qual} :: emitted fence length >= required length", k is not None and k >= 0,
               f"the fence that is written must be at least as long as the scan demands; bound: "
               f"{'required %+d' % k if k is not None else 'none'} for `{norm(len_e)}`", where(code_f, mult))
        char_org = origins(prog, code_f, char_e, mn)
        scan_char = None
        for p in scan_f.params:
            if p in b and p != scan_f.params[0]:
                scan_char = b[p]
        if scan_char is None and len(sc.args) >= 2:
            scan_char = sc.args[1]
        sorg = origins(prog, code_f, scan_char, sn) if scan_char is not None else frozenset({("const", "default")})
        ctx.ob("R-BOUND", f"{code_f.qual} :: scanned character == emitted character", char_org == sorg,
               f"the content must be scanned for the same fence character that is emitted (emitted: "
               f"{', '.join(fmt_origin(o) for o in char_org)}; scanned: {', '.join(fmt_origin(o) for o in sorg)})", where(code_f, mult))
    # both the opening and the closing line use the computed fence
    fence_vars = {d.var for d in flow.defs if d.kind == "assign" and any(d.value is mult for _, mult in mults)}
    uses = 0
    for n in flow.cfg.nodes:
        for ex in flow.node_exprs(n):
            for sub in walk_no_nested(ex):
                if isinstance(sub, ast.JoinedStr) and any(isinstance(p, ast.FormattedValue) and isinstance(p.value, ast.Name)
                                                           and p.value.id in fence_vars for p in sub.values):
                    uses += 1
                elif isinstance(sub, ast.BinOp) and isinstance(sub.op, ast.Add) and any(
                        isinstance(p, ast.Name) and p.id in fence_vars for p in (sub.left, sub.right)):
                    uses += 1  # prefix + fence
    if fence_vars:
        # (decidable only where the fence is computed and laid out in one function; a helper that returns the fence leaves
        # its use to the caller, which R-FIELD / R-PREFIX cover)
        ctx.ob("R-BOUND", f"{code_f.qual} :: opening and closing fence", uses >= 2,
               f"both fence lines must be built from the computed fence (found {uses} uses)", where(code_f, code_f.node))
    # the scanned text is the emitted text
    text_arg = b.get(scan_f.params[0])
    torg = origins(prog, code_f, text_arg, sn) if text_arg is not None else frozenset()
    loops = [h for h in flow.cfg.nodes if h.kind == "for"]
    emitted = set()
    for h in loops:
        for o in origins(prog, code_f, h.ast.iter, h):
            emitted.add(o)
    same = False
    if isinstance(text_arg, ast.Name):
        for h in loops:
            if any(isinstance(s, ast.Name) and s.id == text_arg.id for s in ast.walk(h.ast.iter)):
                same = True
    if loops:
        ctx.ob("R-BOUND", f"{code_f.qual} :: scanned text == emitted text", same,
               "the fence length must be computed from the very text whose lines are emitted", where(code_f, sc))


# ------------------------------------------------------------------------- per-block accumulators (typestate)
def _must_assign_nodes(ctx: Ctx, fi: FuncInfo, key: str, depth: int = 0) -> set[Node]:
    """Nodes of `fi` at which `self.<key>` is certainly (re)assigned: a direct store, a call of a self-method that assigns
    it on every path to its end, or the entry of a `with self.cm(...)` whose context manager assigns it on every path to
    its `yield`."""
    prog = ctx.prog
    flow = prog.flow(fi)
    selfname = fi.params[0] if fi.params else "self"
    out: set[Node] = set()
    for n in flow.cfg.nodes:
        if n.kind == "stmt" and isinstance(n.ast, (ast.Assign, ast.AnnAssign)):
            tgs = n.ast.targets if isinstance(n.ast, ast.Assign) else [n.ast.target]
            for tg in tgs:
                for el in (tg.elts if isinstance(tg, (ast.Tuple, ast.List)) else [tg]):
                    if chain_key(el) == f"{selfname}.{key}":
                        out.add(n)
        if depth >= 3:
            continue
        calls: list[ast.Call] = []
        if n.kind == "with":
            calls = [it.context_expr for it in n.ast.items if isinstance(it.context_expr, ast.Call)]
        elif n.kind == "stmt" and isinstance(n.ast, ast.Expr) and isinstance(n.ast.value, ast.Call):
            calls = [n.ast.value]
        for c in calls:
            t = prog.resolve_call(fi, c)
            if not (isinstance(t, list) and len(t) == 1 and t[0].cls is fi.cls and t[0] is not fi and not isinstance(t[0].node, ast.Lambda)):
                continue
            callee = t[0]
            cflow = prog.flow(callee)
            inner = _must_assign_nodes(ctx, callee, key, depth + 1)
            if n.kind == "with":
                stops = [x for x in cflow.cfg.nodes if any(isinstance(y, (ast.Yield, ast.YieldFrom)) for ex in cflow.node_exprs(x) for y in ast.walk(ex))]
            else:
                stops = [cflow.cfg.exit]
            if stops and inner and all(cflow.cfg.path_avoiding(cflow.cfg.entry, s, inner) is None for s in stops):
                out.add(n)
    return out


def check_block_accumulators(ctx: Ctx) -> None:
    """Renderer fields that accumulate the inline text of the current block (appended to by inline render methods, read by
    their escaping decisions) must start empty in every block whose first token can be a block marker: the paragraph and
    heading renderers reset them on *every path before* they render their children. Clearing only when a block ends leaves
    the text of blocks that never clear (table cells) in front of the next paragraph."""
    rm = get_model(ctx)
    prog = ctx.prog
    cls = ctx.repo.cls("flowmark.formats.flowmark_markdown:MarkdownNormalizer")
    # accumulators: self.X += ... in a render method, and self.X read in a test / condition of a render method
    aug: set[str] = set()
    read_in_tests: set[str] = set()
    inline_methods = {rm.methods[r.type_name].qual for r in rm.mm.registered if r.type_name in rm.methods and (r.kind == "inline" or r.type_name in INLINE_LIKE)}
    # the inline render methods and the self-methods they call (an `_emit(text)` helper that does the appending)
    group: dict[str, FuncInfo] = {}
    work = [m for m in cls.methods.values() if m.qual in inline_methods]
    while work:
        m = work.pop()
        if m.qual in group or isinstance(m.node, ast.Lambda):
            continue
        group[m.qual] = m
        for c in walk_no_nested(m.node):
            if isinstance(c, ast.Call):
                t = prog.resolve_call(m, c)
                if isinstance(t, list) and len(t) == 1 and t[0].cls is cls and not t[0].name.startswith("render"):
                    work.append(t[0])
    for m in group.values():
        if not m.params:
            continue
        selfname = m.params[0]
        for n in walk_no_nested(m.node):
            if isinstance(n, ast.AugAssign) and isinstance(n.op, ast.Add):
                k = chain_key(n.target)
                if k and k.startswith(selfname + "."):
                    aug.add(k.split(".", 1)[1])
            elif isinstance(n, ast.Attribute) and isinstance(n.ctx, ast.Load) and isinstance(n.value, ast.Name) and n.value.id == selfname:
                read_in_tests.add(n.attr)
    accs = sorted(aug & read_in_tests)
    ctx.note("per_block_accumulators", accs)
    ctx.require("R-STATE", "per-block accumulator fields of the renderer", len(accs), 1)
    for t in ("Paragraph", "Heading"):
        m = rm.methods.get(t)
        if m is None:
            continue
        flow = prog.flow(m)
        rc = [n for n, c in flow.all_calls() if isinstance(c.func, ast.Attribute) and c.func.attr == "render_children"]
        if not rc:
            continue
        for acc in accs:
            resets = _must_assign_nodes(ctx, m, acc)
            p = None
            for n in rc:
                p = p or flow.cfg.path_avoiding(flow.cfg.entry, n, resets)
            ctx.ob("R-STATE", f"{m.qual} :: self.{acc} is reset before the children are rendered", p is None,
                   f"`{acc}` collects the inline text of the block being rendered and decides escaping (`1\\.` keeps its backslash only at the "
                   "start of the block): it must be cleared on entry of every paragraph / heading, else text left over from a block that "
                   "never clears it (a table) makes the escape disappear and the paragraph re-parses as a list", where(m, m.node),
                   [f"{x.lineno}: {x.text()}" for x in (p or [])])
