"""R-WRITE (C14) and R-USAGE (C15)."""
from __future__ import annotations
from ..report import Ctx


def check_usage_errors(ctx: Ctx) -> None:
    pass
