"""R-WRITE (C14): write-effect confinement and ordering; R-USAGE (C15): usage errors precede writes."""

from __future__ import annotations

import ast

from ..cfg import CFG, Node, walk_no_nested
from ..dataflow import bind_call, fmt_origin, origins
from ..decide import Decider, expand_expr
from ..loader import AnalysisError, FuncInfo, site_packages
from ..report import Ctx
from .common import all_guards, call_name, deep_origins, direct_guards, norm, reachable_functions, where

# ---- effect table: calls that mutate the file system (frozen; one reason per family)
FS_METHODS = {
    # pathlib.Path / file objects
    "write_text", "write_bytes", "touch", "unlink", "rmdir", "mkdir", "symlink_to", "hardlink_to", "link_to",
    "chmod", "lchmod", "truncate", "writelines",
}
FS_METHODS_1ARG = {"rename", "replace"}  # Path.rename(target) / Path.replace(target): one argument (str.replace has two)
FS_DOTTED_PREFIXES = ("shutil.", "tempfile.", "os.remove", "os.unlink", "os.rename", "os.replace", "os.truncate",
                      "os.makedirs", "os.mkdir", "os.rmdir", "os.removedirs", "os.renames", "os.link", "os.symlink",
                      "os.chmod", "os.chown", "os.utime", "os.open", "os.write", "os.ftruncate", "os.mkfifo",
                      "strif.")
ATOMIC_CTX = "strif.atomic_output_file"
ATOMIC_WRAPPERS = {"strif.atomic_write_text", "strif.atomic_write_bytes"}
STDOUT_CALLS = {"sys.stdout.write", "print", "sys.stdout.writelines", "sys.stderr.write"}
WRITE_MODES = set("wax+")

# modules outside the formatting run: `flowmark --install-skill` writes a skill file on purpose
EXCLUDED_MODULES = {"flowmark.skill": "reached only through the --install-skill/--skill/--docs early exits of main"}


def _open_mode(call: ast.Call, positional_index: int) -> str | None:
    mode = None
    if len(call.args) > positional_index:
        mode = call.args[positional_index]
    for kw in call.keywords:
        if kw.arg == "mode":
            mode = kw.value
    if mode is None:
        return "r"
    if isinstance(mode, ast.Constant) and isinstance(mode.value, str):
        return mode.value
    return None  # unknown -> treated as writing


def fs_effect(prog, fi: FuncInfo, call: ast.Call) -> str | None:
    """Classify a call: 'write:<what>' | 'atomic-ctx' | 'atomic-wrapper' | 'stdout' | None."""
    name = call_name(prog, fi, call)
    if name in STDOUT_CALLS:
        return "stdout"
    if name == ATOMIC_CTX:
        return "atomic-ctx"
    if name in ATOMIC_WRAPPERS:
        return "atomic-wrapper"
    if name in ("open", "builtins.open", "io.open", "codecs.open"):
        m = _open_mode(call, 1)
        if m is None or set(m) & WRITE_MODES:
            return f"write:open(mode={m!r})"
        return None
    if any(name == p or name.startswith(p) for p in FS_DOTTED_PREFIXES):
        return f"write:{name}"
    if isinstance(call.func, ast.Attribute):
        attr = call.func.attr
        if attr == "open":
            m = _open_mode(call, 0)
            if m is None or set(m) & WRITE_MODES:
                return f"write:.open(mode={m!r})"
            return None
        if attr in FS_METHODS:
            return f"write:.{attr}"
        if attr in FS_METHODS_1ARG and len(call.args) == 1 and not call.keywords:
            return f"write:.{attr}"
        if attr == "write":
            return "write:.write"
    return None


def run_scope(ctx: Ctx) -> dict[str, FuncInfo]:
    repo, prog = ctx.repo, ctx.prog
    roots = [repo.func("flowmark.reformat_api:reformat_files"), repo.func("flowmark.reformat_api:reformat_file"),
             repo.func("flowmark.cli:main")]
    scope = reachable_functions(prog, roots)
    return {q: f for q, f in scope.items() if f.module.name not in EXCLUDED_MODULES}


def _with_target_origin(o) -> bool:
    return isinstance(o, tuple) and o[0] == "with" and o[1] == ("call", ATOMIC_CTX)


def check_write(ctx: Ctx) -> None:
    repo, prog = ctx.repo, ctx.prog
    scope = run_scope(ctx)
    ctx.note("functions_in_run_scope", len(scope))
    rf = repo.func("flowmark.reformat_api:reformat_file")
    sites: list[tuple[FuncInfo, Node, ast.Call, str]] = []
    n_calls = 0
    for fi in scope.values():
        if isinstance(fi.node, ast.Lambda):
            continue
        flow = prog.flow(fi)
        for n, c in flow.all_calls():
            n_calls += 1
            eff = fs_effect(prog, fi, c)
            if eff and eff != "stdout":
                sites.append((fi, n, c, eff))
    ctx.note("call_sites_classified", n_calls)
    ctx.note("fs_effect_sites", [f"{fi.qual} :: {norm(c.func)} [{eff}]" for fi, n, c, eff in sites])
    atomic_sites = [(fi, n, c) for fi, n, c, eff in sites if eff in ("atomic-ctx", "atomic-wrapper")]
    ctx.require("R-WRITE", "atomic write sites (with atomic_output_file)", len(atomic_sites), 1)

    # W1 who-may-write: every fs-mutating call is a write through the `as` target of an enclosing atomic context
    # (reformat_file, or private code that only it and reformat_files run: "extract method" of the same write)
    from .common import callers_index

    idx_ = callers_index(prog)
    writers = {rf.qual}
    rfs_q = "flowmark.reformat_api:reformat_files"
    grew = True
    while grew:
        grew = False
        for q_, f_ in repo.functions.items():
            if q_ in writers or f_.module is not rf.module or not f_.name.startswith("_") or f_.name.startswith("__"):
                continue
            cs_ = idx_.get(q_, set())
            if cs_ and cs_ <= writers | {rfs_q}:
                writers.add(q_)
                grew = True
    for fi, n, c, eff in sites:
        key = f"{fi.qual} :: {norm(c.func)}"
        if eff in ("atomic-ctx", "atomic-wrapper"):
            ctx.ob("R-WRITE-W1", key, fi.qual in writers,
                   "the atomic output context may only be opened by reformat_file", where(fi, c))
            continue
        ok = False
        detail = f"file-system mutation `{norm(c)}` [{eff}] outside the atomic-output idiom"
        if isinstance(c.func, ast.Attribute) and c.func.attr in ("write_text", "write_bytes", "write"):
            org = origins(prog, fi, c.func.value, n)
            if org and all(_with_target_origin(o) for o in org):
                # and the call sits inside that with-body
                ok = _inside_atomic_with(prog, fi, c)
                detail = "write through the temporary path of the enclosing atomic_output_file context"
            else:
                detail += "; receiver is " + ", ".join(sorted(fmt_origin(o) for o in org))
        ctx.ob("R-WRITE-W1", key, ok, detail, where(fi, c))

    # per-site rules inside reformat_file
    flow = prog.flow(rf)
    # the in-memory formatting step: reformat_text, or the formatters it delegates to when its body is written out here
    FORMATTERS = ("flowmark.reformat_api:reformat_text", "flowmark.linewrapping.markdown_filling:fill_markdown", "flowmark.linewrapping.text_filling:fill_text")
    rt_nodes = {n for n, c in flow.all_calls() if call_name(prog, rf, c) in FORMATTERS}
    ctx.require("R-WRITE", "call to reformat_text in reformat_file", len(rt_nodes), 1)
    read_nodes = {n for n, c in flow.all_calls() if isinstance(c.func, ast.Attribute) and c.func.attr in ("read", "read_text", "read_bytes")}
    ctx.require("R-WRITE", "read sites in reformat_file", len(read_nodes), 1)
    def never_none(e: ast.AST, at: Node, depth: int = 0) -> bool:
        """the value is a string constant on every path (so an `is None` arm it guards cannot run)"""
        if isinstance(e, ast.Constant):
            return e.value is not None
        if isinstance(e, ast.IfExp):
            return never_none(e.body, at, depth + 1) and never_none(e.orelse, at, depth + 1)
        if isinstance(e, ast.Name) and depth < 4:
            ds = flow.reaching(at, e.id)
            return bool(ds) and all(d.kind == "assign" and d.value is not None and never_none(d.value, d.node, depth + 1) for d in ds)
        return False

    def always_none(e: ast.AST, at: Node, depth: int = 0) -> bool:
        if isinstance(e, ast.Constant):
            return e.value is None
        if isinstance(e, ast.Name) and depth < 4:
            ds = flow.reaching(at, e.id)
            return bool(ds) and all(d.kind == "assign" and d.value is not None and always_none(d.value, d.node, depth + 1) for d in ds)
        return False

    def dead_site(n: Node) -> bool:
        """the site sits on an arm of an `x is None` / `x is not None` test that the values x can hold rule out (a spliced
        helper called with a constant for that parameter)"""
        for b, lab in all_guards(prog, rf, n):
            t_ = b.ast if b.kind == "test" else None
            if isinstance(t_, ast.Compare) and len(t_.ops) == 1 and isinstance(t_.comparators[0], ast.Constant) and t_.comparators[0].value is None \
                    and isinstance(t_.ops[0], (ast.Is, ast.IsNot)):
                want_none = (lab == "T") == isinstance(t_.ops[0], ast.Is)
                if want_none and never_none(t_.left, b):
                    return True
                if not want_none and always_none(t_.left, b):
                    return True
        return False

    for fi, n, c in atomic_sites:
        if fi.qual != rf.qual:
            continue
        if dead_site(n):
            continue
        dest = c.args[0] if c.args else next((k.value for k in c.keywords if k.arg == "dest_path"), None)
        dorg = origins(prog, rf, dest, n) if dest is not None else frozenset()
        dname = "/".join(sorted(fmt_origin(o) for o in dorg))
        key = f"{rf.qual} :: atomic write to {dname}"
        # W2 order: nothing is opened / created before formatting succeeded
        p = flow.cfg.path_avoiding(flow.cfg.entry, n, rt_nodes)
        ctx.ob("R-WRITE-W2", key, p is None,
               "every path to the write site must pass through the call to reformat_text (format in memory first)",
               where(rf, c), [f"{x.lineno}: {x.text()}" for x in (p or [])])
        # W3 target: the input path is only a destination under `inplace`
        from .common import expand_flag_edges

        guards = expand_flag_edges(flow, set(all_guards(prog, rf, n)))  # (a mode variable set under `if inplace:` carries that test)
        gl = []
        for b, lab in sorted(guards, key=lambda x: x[0].id):
            if b.kind == "test":
                gl.append((origins(prog, rf, b.ast, b), lab, b))
        inplace_T = any(o == frozenset({("param", "inplace")}) and lab == "T" for o, lab, _ in gl)
        inplace_F = any(o == frozenset({("param", "inplace")}) and lab == "F" for o, lab, _ in gl)
        if dorg == frozenset({("param", "path")}):
            ctx.ob("R-WRITE-W3", key, inplace_T and not inplace_F,
                   "the input path may be the destination only on the branch where `inplace` is true; guards: "
                   + "; ".join(f"{norm(b.ast)}[{lab}]" for _, lab, b in gl), where(rf, c))
            # W4 backup: with backups on the old content goes to a non-empty suffix (.orig)
            bs = next((k.value for k in c.keywords if k.arg == "backup_suffix"), None)
            val_off = _eval_under(prog, rf, bs, n, {"nobackup": False}) if bs is not None else None
            val_on = _eval_under(prog, rf, bs, n, {"nobackup": True}) if bs is not None else None
            ctx.ob("R-WRITE-W4", key, isinstance(val_off, str) and val_off == ".orig",
                   f"with backups on (nobackup=False) the backup suffix must be the constant '.orig'; it evaluates to {val_off!r}",
                   where(rf, c))
            ctx.ob("R-WRITE-W4", key + " (nobackup)", val_on in ("", None) and bs is not None,
                   f"with nobackup=True no backup suffix may be passed; it evaluates to {val_on!r}", where(rf, c))
        elif dorg == frozenset({("param", "output")}):
            ctx.ob("R-WRITE-W3", key, inplace_F and not inplace_T,
                   "the output path is the destination only when not in place; guards: "
                   + "; ".join(f"{norm(b.ast)}[{lab}]" for _, lab, b in gl), where(rf, c))
        else:
            ctx.ob("R-WRITE-W3", key, False, f"destination of the atomic write must be the `path` or `output` parameter, it is {dname}",
                   where(rf, c))
        # make_parents passed through
        mp = next((k.value for k in c.keywords if k.arg == "make_parents"), None)
        morg = origins(prog, rf, mp, n) if mp is not None else frozenset()
        ctx.ob("R-WRITE-W3", key + " (make_parents)", morg == frozenset({("param", "make_parents")}),
               "make_parents must be threaded unchanged to the atomic writer", where(rf, c))
        # W5 body integrity
        w = _enclosing_with(c)
        bad = []
        if w is not None:
            for st in w.body:
                for sub in ast.walk(st):
                    if isinstance(sub, (ast.Return, ast.Break, ast.Continue, ast.Try)) or (
                        isinstance(sub, ast.Call) and "suppress" in ast.unparse(sub.func)
                    ):
                        bad.append(type(sub).__name__)
            writes_in_body = [s for s in ast.walk(w) if isinstance(s, ast.Call) and isinstance(s.func, ast.Attribute)
                              and s.func.attr in ("write_text", "write_bytes", "write")]
            ctx.ob("R-WRITE-W5", key, not bad and len(writes_in_body) == 1,
                   f"the atomic with-body must consist of the single write (no return/break/continue/try/suppress that could "
                   f"commit a partial file); found {bad or 'ok'}, writes={len(writes_in_body)}", where(rf, w))
    # stdout sink only when not in place
    for n, c in flow.all_calls():
        if fs_effect(prog, rf, c) == "stdout":
            from .common import expand_flag_edges

            gl = [(origins(prog, rf, b.ast, b), lab) for b, lab in expand_flag_edges(flow, set(all_guards(prog, rf, n))) if b.kind == "test"]
            ok = any(o == frozenset({("param", "inplace")}) and lab == "F" for o, lab in gl)
            ctx.ob("R-WRITE-W3", f"{rf.qual} :: {norm(c.func)}", ok, "stdout is written only on the not-in-place branch", where(rf, c))
    # W2b: the input is read before formatting, and reading happens before any write
    for n in read_nodes:
        p = None
        for fi2, n2, c2 in atomic_sites:
            if fi2.qual == rf.qual:
                p = p or flow.cfg.path_avoiding(n2, n, set())
        ctx.ob("R-WRITE-W2", f"{rf.qual} :: read {norm(n.ast)[:50]}", p is None, "no read may follow a write site", where(rf, n))
    # W7 (C14 half): raise sites of reformat_file are not reachable from a write site
    for n in flow.cfg.nodes:
        if n.kind == "stmt" and isinstance(n.ast, ast.Raise):
            p = None
            for fi2, n2, c2 in atomic_sites:
                if fi2.qual == rf.qual:
                    p = p or flow.cfg.path_avoiding(n2, n, set())
            ctx.ob("R-WRITE-W7", f"{rf.qual} :: {norm(n.ast)[:60]}", p is None,
                   "an error raised by reformat_file must precede all of its writes", where(rf, n))
    # text mode read: no lossy decoding options
    for n, c in flow.all_calls():
        if isinstance(c.func, ast.Attribute) and c.func.attr == "read_text":
            errs = next((k.value for k in c.keywords if k.arg == "errors"), None)
            ok = errs is None or (isinstance(errs, ast.Constant) and errs.value == "strict")
            ctx.ob("R-WRITE-W2", f"{rf.qual} :: read_text decoding", ok,
                   "decoding errors must fail the run before anything is written (errors= must be strict)", where(rf, c))


def check_result_always_written(ctx: Ctx) -> None:
    repo, prog = ctx.repo, ctx.prog
    rf = repo.func("flowmark.reformat_api:reformat_file")
    flow = prog.flow(rf)
    # W8: once the text is formatted, every normal path to the end of reformat_file hands the result to a sink (the atomic
    #     file write or stdout). A path that skips it ("unchanged, leave the file alone") makes the in-place entry point differ
    #     from the others: read_text() has already translated CRLF, so "unchanged" is not "byte-identical".
    rt_q = "flowmark.reformat_api:reformat_text"
    fmt_nodes = [n for n, c in flow.all_calls() if call_name(prog, rf, c) == rt_q]
    sinks = []
    for n, c in flow.all_calls():
        if isinstance(c.func, ast.Attribute) and c.func.attr in ("write_text", "write") and c.args:
            if any(o == ("call", rt_q) for o in origins(prog, rf, c.args[0], n)):
                sinks.append(n)
    ctx.require("R-WRITE", "writes of the formatted result in reformat_file", len(sinks), 2)
    for fn in fmt_nodes:
        p = flow.cfg.path_avoiding(fn, flow.cfg.exit, set(sinks))
        # exceptional edges do not count: an error before the write is W7's business
        if p is not None and any(x.kind == "except" for x in p):
            p = None
        ctx.ob("R-WRITE-W8", f"{rf.qual} :: the formatted result is written on every normal path", p is None,
               "after reformat_text every path to the end of the function must write the result (file or stdout); a path that returns "
               "without writing leaves the destination as it was", where(rf, fn), [f"{x.lineno}: {x.text()}" for x in (p or [])])


def _enclosing_with(node: ast.AST) -> ast.With | None:
    from ..loader import parent

    p = parent(node)
    while p is not None:
        if isinstance(p, ast.With):
            return p
        p = parent(p)
    return None


def _inside_atomic_with(prog, fi: FuncInfo, call: ast.Call) -> bool:
    from ..loader import parent

    p = parent(call)
    while p is not None:
        if isinstance(p, ast.With):
            for item in p.items:
                if isinstance(item.context_expr, ast.Call) and call_name(prog, fi, item.context_expr) == ATOMIC_CTX:
                    # the call is in the body, not in the items
                    return True
        p = parent(p)
    return False


def _eval_under(prog, fi: FuncInfo, expr: ast.AST | None, node: Node, env: dict[str, bool]):
    """Evaluate a constant / IfExp / not / parameter expression under a boolean assignment of parameters."""
    flow = prog.flow(fi)

    class Unknown(Exception):
        pass

    def ev(e: ast.AST, n: Node, depth: int = 0):
        if depth > 10:
            raise Unknown
        if isinstance(e, ast.Constant):
            return e.value
        if isinstance(e, ast.Name):
            defs = flow.reaching(n, e.id)
            if len(defs) == 1 and defs[0].kind == "param" and e.id in env:
                return env[e.id]
            if len(defs) == 1 and defs[0].kind == "assign" and defs[0].value is not None:
                return ev(defs[0].value, defs[0].node, depth + 1)
            if not defs:
                # a module-level constant (`_BACKUP_SUFFIX = ".orig"`)
                from ..loader import ConstInfo as _CI

                r_ = prog.repo.lookup(e.id, fi.module, fi)
                if isinstance(r_, _CI) and isinstance(r_.value, ast.Constant):
                    return r_.value.value
            raise Unknown
        if isinstance(e, ast.UnaryOp) and isinstance(e.op, ast.Not):
            return not ev(e.operand, n, depth + 1)
        if isinstance(e, ast.IfExp):
            return ev(e.body, n, depth + 1) if ev(e.test, n, depth + 1) else ev(e.orelse, n, depth + 1)
        if isinstance(e, ast.BoolOp):
            vals = [ev(v, n, depth + 1) for v in e.values]
            if isinstance(e.op, ast.And):
                r = True
                for v in vals:
                    r = v
                    if not v:
                        break
                return r
            r = False
            for v in vals:
                r = v
                if v:
                    break
            return r
        raise Unknown

    try:
        return ev(expr, node) if expr is not None else None
    except Unknown:
        return "<not-constant>"


# ----------------------------------------------------------------- W6 (thorough): dependency contract
def check_strif_contract(ctx: Ctx) -> None:
    sp = site_packages()
    path = sp / "strif" / "strif.py"
    if not path.exists():
        cands = list((sp / "strif").glob("*.py"))
        path = next((p for p in cands if "def atomic_output_file" in p.read_text()), path)
    try:
        tree = ast.parse(path.read_text())
    except (OSError, SyntaxError) as e:
        raise AnalysisError(f"cannot read strif source for the W6 contract: {e}") from e
    from ..loader import set_parents

    set_parents(tree)
    fn = next((n for n in ast.walk(tree) if isinstance(n, ast.FunctionDef) and n.name == "atomic_output_file"), None)
    if fn is None:
        raise AnalysisError("strif.atomic_output_file not found in the installed strif")
    cfg = CFG(fn)
    key = "strif:atomic_output_file"
    yields = [n for n in cfg.nodes if n.kind == "stmt" and any(isinstance(s, ast.Yield) for s in ast.walk(n.ast))]
    tmp_yields = [n for n in yields if "tmp" in ast.unparse(n.ast)]
    ctx.ob("R-WRITE-W6", key + " :: yields temporary path", len(tmp_yields) >= 1, "the context yields a temporary path", str(path))
    # temp path is a sibling of the destination
    sib = False
    for n in ast.walk(fn):
        if isinstance(n, ast.Assign) and isinstance(n.targets[0], ast.Name) and n.targets[0].id == "tmp_path":
            v = n.value
            sib = isinstance(v, ast.Call) and isinstance(v.func, ast.Attribute) and v.func.attr == "with_name" and \
                ast.unparse(v.func.value) == "dest_path"
    ctx.ob("R-WRITE-W6", key + " :: sibling temp file", sib, "tmp_path = dest_path.with_name(...): same directory, so replace() is a rename", str(path))
    replaces = [n for n in cfg.nodes if n.kind == "stmt" and "tmp_path.replace(dest_path)" in ast.unparse(n.ast)]
    ctx.ob("R-WRITE-W6", key + " :: rename onto destination", len(replaces) == 1, "exactly one tmp_path.replace(dest_path)", str(path))
    in_finally = any(isinstance(t, ast.Try) and t.finalbody for t in ast.walk(fn))
    ctx.ob("R-WRITE-W6", key + " :: not in finally", not in_finally,
           "the rename must not run when the body raised (no finally block in atomic_output_file)", str(path))
    if replaces and tmp_yields:
        rep = replaces[0]
        # after the yield every normal path to exit passes through the replace
        p = cfg.path_avoiding(tmp_yields[0], cfg.exit, {rep})
        ctx.ob("R-WRITE-W6", key + " :: rename on every normal path", p is None, "yield -> exit passes the rename (or raises)", str(path),
               [x.text() for x in (p or [])])
        # the replace only happens after the yield
        p2 = cfg.path_avoiding(cfg.entry, rep, set(tmp_yields))
        ctx.ob("R-WRITE-W6", key + " :: rename after body", p2 is None, "the rename is dominated by the yield", str(path))
        backups = [n for n in cfg.nodes if n.kind == "stmt" and "move_to_backup(dest_path" in ast.unparse(n.ast)]
        okb = len(backups) == 1 and cfg.path_avoiding(backups[0], rep, set()) is not None and cfg.path_avoiding(rep, backups[0], set()) is None
        ctx.ob("R-WRITE-W6", key + " :: backup precedes rename", okb, "move_to_backup(dest_path) precedes tmp_path.replace(dest_path)", str(path))
    ctx.assume("strif behaves as its installed source reads (W6 checks the source text of atomic_output_file)")


# ---------------------------------------------------------------------------- R-USAGE (C15)
def check_usage_errors(ctx: Ctx) -> None:
    repo, prog = ctx.repo, ctx.prog
    main = repo.func("flowmark.cli:main")
    mflow = prog.flow(main)
    rfs = repo.func("flowmark.reformat_api:reformat_files")
    rf = repo.func("flowmark.reformat_api:reformat_file")
    # (a) main: what the process exits with when the run raises, and on the no-input branch. The call of reformat_files may
    #     sit in main or in a private helper main returns the result of.
    from .common import exclusive_helpers

    holders = [main] + [repo.functions[q] for q in sorted(exclusive_helpers(prog, main)) if q in repo.functions]
    run_sites = [(f, n, c) for f in holders if not isinstance(f.node, ast.Lambda) for n, c in prog.flow(f).all_calls() if prog.resolve_call(f, c) == [rfs]]
    ctx.require("R-USAGE", "call to reformat_files in main", len(run_sites), 1)
    call_nodes = [n for f, n, c in run_sites if f is main]
    n_ret = 0
    handlers: list[str] = []
    for f, cn, c in run_sites:
        fl = prog.flow(f)
        t = _enclosing_try(cn.ast)
        if t is not None:
            handlers = [ast.unparse(h.type) if h.type is not None else "<bare>" for h in t.handlers]
        hnodes = [s_ for s_, lab in cn.succ if lab == "exc" and s_.kind == "except"]
        if t is None and not hnodes:
            # no try around the run: a context manager of the package may be doing the same job
            cm = _exit_manager_outcomes(ctx, f, cn)
            if cm is not None:
                inst, scen = cm
                # what the function returns after the block: <instance>.<attr>
                rets_after = [r for r in fl.cfg.returns() if fl.cfg.path_avoiding(cn, r, set()) is not None]
                attrs = {r.ast.value.attr for r in rets_after if isinstance(r.ast.value, ast.Attribute) and isinstance(r.ast.value.value, ast.Name)
                         and r.ast.value.value.id == inst}
                plain = bool(rets_after) and all(isinstance(r.ast.value, ast.Attribute) and isinstance(r.ast.value.value, ast.Name)
                                                  and r.ast.value.value.id == inst for r in rets_after) and len(attrs) == 1
                attr = next(iter(attrs)) if len(attrs) == 1 else None
                for name_, (swallowed, statuses) in scen.items():
                    vals = statuses.get(attr, set()) if attr else set()
                    ok = plain and swallowed and bool(vals) and all(isinstance(v, int) and not isinstance(v, bool) and v != 0 for v in vals)
                    n_ret += 1
                    if swallowed:
                        handlers.append(name_)
                    ctx.ob("R-USAGE", f"{main.qual} :: except {name_} -> return", ok,
                           f"an error from the run must give a non-zero exit status; the context manager around the run "
                           f"{'swallows' if swallowed else 'does not swallow'} it and the function then returns `{inst}.{attr}` in {sorted(map(str, vals))}", where(f, cn))
        for hn in hnodes:
            dec = Decider(prog, lambda _leaf, _al: None)
            vals: set = set()
            ends = 0
            for end, _env, _benv, outs in dec.walk(f, hn, None, frozenset()):
                if end is not None and end.kind == "stmt" and isinstance(end.ast, ast.Return) and outs and isinstance(outs[-1], frozenset):
                    vals |= outs[-1]
                    ends += 1
                else:
                    vals.add(None)
            n_ret += 1
            htxt = ast.unparse(hn.ast.type) if getattr(hn.ast, "type", None) is not None else "<bare>"
            ok = ends > 0 and all(isinstance(v, int) and not isinstance(v, bool) and v != 0 for v in vals)
            ctx.ob("R-USAGE", f"{main.qual} :: except {htxt} -> return", ok,
                   f"an error from the run must give a non-zero exit status; after this handler the function returns {sorted(map(str, vals))}", where(f, hn))
        if f is not main:
            # main hands that helper's result out as the exit status
            passes = any(any(o == ("call", f.qual) for o in deep_origins(prog, main, r.ast.value, r, stop={f.qual})) for r in mflow.cfg.returns())
            ctx.ob("R-USAGE", f"{main.qual} :: exit status of the run is returned", passes,
                   f"main must return what {f.name} returns (the status computed from the handlers)", where(main, main.node))
    for r in mflow.cfg.returns():
        val = r.ast.value
        guards = [(b, lab) for b, lab in all_guards(prog, main, r) if b.kind == "test"]
        no_input = any(lab == "T" and _is_not_files(prog, main, b) for b, lab in guards)
        if no_input and _in_except(r.ast) is None:
            n_ret += 1
            if isinstance(val, (ast.Name, ast.Attribute)):
                # a named exit status (`_EXIT_USAGE_ERROR = 1`)
                from ..loader import ConstInfo as _CI

                r_ = repo.resolve_expr(val, main.module, main)
                if isinstance(r_, _CI) and isinstance(r_.value, ast.Constant):
                    val = r_.value
            ok = isinstance(val, ast.Constant) and isinstance(val.value, int) and val.value != 0
            ctx.ob("R-USAGE", f"{main.qual} :: no-input branch -> return", ok,
                   f"missing input must give a non-zero exit status, returns {norm(val) if val else None}", where(main, r))
            p = None
            for cn in call_nodes:
                p = p or mflow.cfg.path_avoiding(cn, r, set())
            ctx.ob("R-USAGE", f"{main.qual} :: no-input return precedes the run", p is None,
                   "the no-input error is decided before anything is formatted", where(main, r))
    ctx.require("R-USAGE", "error returns of main", n_ret, 2)
    ctx.ob("R-USAGE", f"{main.qual} :: handlers around the run", bool({"ValueError", "Exception", "BaseException", "<bare>"} & set(handlers)),
           f"usage errors raised as ValueError must be caught and mapped to an exit status; handlers: {handlers}", where(main, main.node))
    # (b) reformat_files: a usage error that the per-file callee raises must be pre-checked before the loop,
    #     otherwise earlier files are already rewritten when it fires
    flow = prog.flow(rfs)
    rflow = prog.flow(rf)
    callee_raises = []
    for n in rflow.cfg.nodes:
        if n.kind == "stmt" and isinstance(n.ast, ast.Raise) and n.ast.exc is not None and "ValueError" in ast.unparse(n.ast.exc):
            sl = prog.slice_control(rf, n)
            callee_raises.append((n, sl.params()))
    ctx.note("usage_raises_in_reformat_file", [f"{norm(n.ast)[:60]} <- {sorted(p)}" for n, p in callee_raises])
    loops = []
    for h in flow.cfg.nodes:
        if h.kind == "for" or (h.kind == "test" and isinstance(h.owner, ast.While)):
            body = flow.loop_body_nodes(h)
            sites = [(m, c) for m in body for c in flow.calls_in(m) if prog.resolve_call(rfs, c) == [rf]]
            if sites:
                loops.append((h, body, sites))
    ctx.require("R-USAGE", "per-file loop in reformat_files", len(loops), 1)
    own_raises = [n for n in flow.cfg.nodes if n.kind == "stmt" and isinstance(n.ast, ast.Raise)]
    for h, body, sites in loops:
        for m, c in sites:
            b = bind_call(rf, c)
            for rn, params in callee_raises:
                # map the callee parameters the error depends on to caller-level parameters
                need: set[str] = set()
                for p in params:
                    if p in b:
                        sl = prog.slice(rfs, b[p], m)
                        need |= sl.params()
                    # an unbound parameter uses its default: no caller-level dependence
                covered = False
                for r in own_raises:
                    if r in body:
                        continue
                    # sources of the condition that *directly* controls the raise
                    gs: set[str] = set()
                    # (all of them: `if a and b: raise` may be written `if a:` / `if b: raise`)
                    from ..loader import parent as _parent

                    enclosing = set()
                    p_ = _parent(r.ast)
                    while p_ is not None and not isinstance(p_, (ast.FunctionDef, ast.AsyncFunctionDef)):
                        if isinstance(p_, ast.If) and p_ in flow.cfg.node_of_stmt:
                            enclosing.add((flow.cfg.node_of_stmt[p_], "T"))  # an `if` the raise is nested in (not one it merely follows)
                        p_ = _parent(p_)
                    for bnode, _lab in set(flow.control_deps(r)) | enclosing:
                        for ex in flow.node_exprs(bnode):
                            gs |= prog.slice(rfs, ex, bnode).params()
                    # the pre-check must lie on the way to the loop (it can reach the loop head's predecessors)
                    before_loop = r not in body and _precedes(flow, r, h)
                    if before_loop and need <= gs and _covers_every_element(prog, rfs, flow, r, h):
                        covered = True
                ctx.ob("R-USAGE", f"{rfs.qual} :: pre-check of `{norm(rn.ast)[:70]}`", covered,
                       f"the per-file callee raises this usage error (it depends on {sorted(need)}) inside the loop, after "
                       f"earlier files may already have been rewritten; reformat_files must decide it before the loop", where(rfs, h))
    # (c) usage errors raised by reformat_files itself precede every call of reformat_file that can follow them
    for r in own_raises:
        p = None
        for h, body, sites in loops:
            for m, c in sites:
                p = p or flow.cfg.path_avoiding(m, r, set())
        ctx.ob("R-USAGE", f"{rfs.qual} :: {norm(r.ast)[:70]}", p is None,
               "a usage error must not be raised after a file has been processed", where(rfs, r))


def _covers_every_element(prog, fi: FuncInfo, flow, raise_node: Node, head: Node) -> bool:
    """The condition of the pre-check looks at *all* the elements the loop will visit: it uses the iterated sequence through a
    membership test or any()/all() over it - not only through one fixed position (`files[0] == "-"` misses `a.md -`)."""
    it = head.ast.iter if head.kind == "for" else None
    if it is None:
        return True
    seq = {norm(x) for x in ast.walk(expand_expr(prog, fi, it, head)) if isinstance(x, ast.Name)} & set(fi.params)
    if not seq:
        return True
    uses_seq = False
    for bnode, _lab in flow.control_deps(raise_node):
        for ex in flow.node_exprs(bnode):
            e = expand_expr(prog, fi, ex, bnode)
            names = {x.id for x in ast.walk(e) if isinstance(x, ast.Name)}
            if not (names & seq):
                continue
            uses_seq = True
            for x in ast.walk(e):
                if isinstance(x, ast.Compare) and any(isinstance(op, (ast.In, ast.NotIn)) for op in x.ops) \
                        and any(isinstance(c, ast.Name) and c.id in seq for c in x.comparators):
                    return True
                if isinstance(x, ast.comprehension) and any(isinstance(y, ast.Name) and y.id in seq for y in ast.walk(x.iter)):
                    return True
    return not uses_seq


def _precedes(flow, a: Node, head: Node) -> bool:
    """Raise node `a` sits on a branch that is decided before the loop head is reached: the branch node that
    controls it can reach the head."""
    for b, _lab in flow.control_deps(a):
        if flow.cfg.path_avoiding(b, head, set()) is not None and head not in flow.cfg.reachable_from(a):
            return True
    return False


def _in_except(node: ast.AST) -> str | None:
    from ..loader import parent

    p = parent(node)
    while p is not None:
        if isinstance(p, ast.ExceptHandler):
            return ast.unparse(p.type) if p.type is not None else "<bare>"
        if isinstance(p, (ast.FunctionDef, ast.AsyncFunctionDef)):
            return None
        p = parent(p)
    return None


def _exit_manager_outcomes(ctx: Ctx, holder: FuncInfo, call_node: Node):
    """The run sits in `with cm:` where cm is an instance of a class of the package whose __exit__ turns exceptions into a
    status kept on the instance (and swallows them). Returns (instance name, attribute read for the status,
    {"ValueError" | "Exception": (swallowed on every path, set of status constants)}) or None.
    __exit__ is evaluated path by path under each scenario: isinstance(exc, ...) / issubclass(exc_type, ...) /
    `exc is None` tests get their value from the scenario, other tests are followed both ways."""
    from ..loader import ClassInfo, ConstInfo, parent

    repo, prog = ctx.repo, ctx.prog
    w = parent(call_node.ast)
    prev: ast.AST = call_node.ast
    while w is not None and not (isinstance(w, ast.With) and prev in w.body):
        if isinstance(w, (ast.FunctionDef, ast.AsyncFunctionDef)):
            return None
        prev, w = w, parent(w)
    if w is None or len(w.items) != 1:
        return None
    ce = w.items[0].context_expr
    inst = None
    cls_e = None
    if isinstance(ce, ast.Name):
        flow = prog.flow(holder)
        wn = flow.cfg.node_of_stmt.get(w)
        defs = flow.reaching(wn, ce.id) if wn is not None else []
        if len(defs) == 1 and defs[0].kind == "assign" and isinstance(defs[0].value, ast.Call):
            inst, cls_e = ce.id, defs[0].value.func
    elif isinstance(ce, ast.Call) and isinstance(w.items[0].optional_vars, ast.Name):
        inst, cls_e = w.items[0].optional_vars.id, ce.func
    if inst is None or not isinstance(cls_e, (ast.Name, ast.Attribute)):
        return None
    ci = repo.resolve_expr(cls_e, holder.module, holder)
    if not isinstance(ci, ClassInfo):
        return None
    ex = repo.find_method(ci, "__exit__")
    en = repo.find_method(ci, "__enter__")
    if ex is None or len(ex.params) < 3:
        return None
    if isinstance(ce, ast.Call) and en is not None:
        # `with Cls() as x`: x is what __enter__ returns - it must be the instance
        rets = [r for r in prog.flow(en).cfg.returns()]
        if not rets or not all(isinstance(r.ast.value, ast.Name) and r.ast.value.id == en.params[0] for r in rets):
            return None
    selfname, tparam, eparam = ex.params[0], ex.params[1], ex.params[2]
    eflow = prog.flow(ex)

    def const_of(e: ast.AST):
        if isinstance(e, ast.Constant):
            return e.value
        if isinstance(e, (ast.Name, ast.Attribute)):
            r = repo.resolve_expr(e, ex.module, ex)
            if isinstance(r, ConstInfo) and isinstance(r.value, ast.Constant):
                return r.value.value
        return "<unknown>"

    def classes_of(e: ast.AST) -> list[str]:
        return [norm(x).split(".")[-1] for x in (e.elts if isinstance(e, ast.Tuple) else [e])]

    def ev(t: ast.AST, scen: str):
        """True / False / None(unknown) of a test of __exit__ when `scen` escapes the block"""
        is_a = {"ValueError": {"ValueError", "Exception", "BaseException"}, "Exception": {"Exception", "BaseException"}}[scen]
        if isinstance(t, ast.UnaryOp) and isinstance(t.op, ast.Not):
            v = ev(t.operand, scen)
            return None if v is None else not v
        if isinstance(t, ast.BoolOp):
            vs = [ev(v, scen) for v in t.values]
            if isinstance(t.op, ast.And):
                return False if any(v is False for v in vs) else (True if all(v is True for v in vs) else None)
            return True if any(v is True for v in vs) else (False if all(v is False for v in vs) else None)
        if isinstance(t, ast.Call) and isinstance(t.func, ast.Name) and t.func.id in ("isinstance", "issubclass") and len(t.args) == 2 \
                and isinstance(t.args[0], ast.Name) and t.args[0].id == (eparam if t.func.id == "isinstance" else tparam):
            cs = classes_of(t.args[1])
            if any(c in is_a for c in cs):
                return True
            # a class the scenario's exception is not known to be (OSError for a generic Exception): the generic exception is not one
            return False
        if isinstance(t, ast.Compare) and len(t.ops) == 1 and isinstance(t.left, ast.Name) and t.left.id in (eparam, tparam) \
                and isinstance(t.comparators[0], ast.Constant) and t.comparators[0].value is None:
            return isinstance(t.ops[0], ast.IsNot)
        if isinstance(t, ast.Name) and t.id in (eparam, tparam):
            return True
        return None

    out: dict[str, tuple[bool, set]] = {}
    attr_read: set[str] = set()
    for scen in ("ValueError", "Exception"):
        swallowed = True
        statuses: dict[str, set] = {}
        stack = [(eflow.cfg.entry, {}, 0)]
        n_paths = 0
        while stack:
            node, attrs, depth = stack.pop()
            if depth > 200:
                return None
            if node.kind == "stmt" and isinstance(node.ast, ast.Return):
                n_paths += 1
                rv = const_of(node.ast.value) if node.ast.value is not None else None
                if rv is not True:
                    swallowed = False
                for k, v in attrs.items():
                    statuses.setdefault(k, set()).add(v)
                continue
            if node.kind == "stmt" and isinstance(node.ast, ast.Raise):
                swallowed = False
                continue
            attrs2 = attrs
            if node.kind == "stmt" and isinstance(node.ast, ast.Assign) and len(node.ast.targets) == 1 and isinstance(node.ast.targets[0], ast.Attribute) \
                    and isinstance(node.ast.targets[0].value, ast.Name) and node.ast.targets[0].value.id == selfname:
                attrs2 = dict(attrs)
                attrs2[node.ast.targets[0].attr] = const_of(node.ast.value)
            succ = [(s_, lab) for s_, lab in node.succ if lab != "exc"]
            if not succ:
                # fell off the end: returns None (not swallowed)
                n_paths += 1
                swallowed = False
                continue
            if node.kind == "test" and isinstance(node.ast, ast.expr):
                v = ev(node.ast, scen)
                if v is not None:
                    succ = [(s_, lab) for s_, lab in succ if lab == ("T" if v else "F")]
            for s_, _lab in succ:
                stack.append((s_, attrs2, depth + 1))
        if not n_paths:
            return None
        out[scen] = (swallowed, statuses)
    return inst, out


def _enclosing_try(node: ast.AST) -> ast.Try | None:
    from ..loader import parent

    p = parent(node)
    prev = node
    while p is not None:
        if isinstance(p, ast.Try) and prev in p.body:
            return p
        prev = p
        p = parent(p)
    return None


def _is_not_files(prog, fi: FuncInfo, b: Node) -> bool:
    t = b.ast
    if isinstance(t, ast.UnaryOp) and isinstance(t.op, ast.Not):
        org = origins(prog, fi, t.operand, b)
        return any(o[0] == "attr" and o[2] == "files" for o in org)
    return False
