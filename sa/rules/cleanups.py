"""C10: cleanups and list-spacing modes do exactly what they say."""

from __future__ import annotations

import ast

from ..cfg import walk_no_nested
from ..dataflow import origins
from ..loader import AnalysisError, FuncInfo
from ..report import Ctx
from .common import all_guards, direct_guards, norm, where
from .render import get_model
from .rewrite import _isinstance_tests


def check_cleanup_guards(ctx: Ctx) -> None:
    """Every store in doc_cleanups is guarded by: element is a heading, has exactly one child, that child is strong emphasis."""
    repo, prog = ctx.repo, ctx.prog
    n_st = 0
    for fi in repo.functions.values():
        if fi.module.name != "flowmark.transforms.doc_cleanups" or isinstance(fi.node, ast.Lambda):
            continue
        flow = prog.flow(fi)
        for n in flow.cfg.nodes:
            if n.kind != "stmt" or not isinstance(n.ast, (ast.Assign, ast.AugAssign)):
                continue
            tg = n.ast.targets[0] if isinstance(n.ast, ast.Assign) else n.ast.target
            if not isinstance(tg, ast.Attribute):
                continue
            n_st += 1
            tests = _isinstance_tests(ctx, fi, n)
            guards = [(b, lab) for b, lab in all_guards(prog, fi, n) if b.kind == "test"]
            heading = any(lab == "T" and any(c.endswith("Heading") for c in cls) and all(c.endswith("Heading") for c in cls) for o, cls, lab in tests)
            obj = norm(tg.value)
            # the child that is unwrapped must be the *only* child of the node that is re-linked, and be strong emphasis
            def _is_first_child(o: str) -> bool:
                if o == f"{obj}.children[0]":
                    return True
                for d in flow.defs:  # alias: first = element.children[0]
                    if d.var == o and d.kind == "assign" and d.value is not None and norm(d.value) == f"{obj}.children[0]":
                        return True
                return False

            strong = any(lab == "T" and cls == ["marko.inline.StrongEmphasis"] and _is_first_child(o) for o, cls, lab in tests)
            single = False
            for b, lab in guards:
                if lab != "T":
                    continue
                for leaf in ([b.ast] if not isinstance(b.ast, ast.BoolOp) else list(b.ast.values)):
                    if isinstance(leaf, ast.Compare) and isinstance(leaf.ops[0], ast.Eq) and norm(leaf.left) == f"len({obj}.children)" \
                            and isinstance(leaf.comparators[0], ast.Constant) and leaf.comparators[0].value == 1:
                        single = True
            # the value stored is the children of that strong node (content is kept, only the wrapper goes)
            val_ok = isinstance(n.ast.value, ast.Attribute) and n.ast.value.attr == "children"
            ctx.ob("R-CLEANUP", f"{fi.qual} :: {norm(n.ast)}", heading and strong and single and val_ok,
                   "a cleanup may only re-link a heading whose *single* child is strong emphasis to that child's own children "
                   f"(heading test: {heading}, single-child test: {single}, strong test: {strong}, keeps content: {val_ok})", where(fi, n))
    ctx.require("R-CLEANUP", "stores in doc_cleanups", n_st, 1)
    # doc_cleanups applies only the unbold transform
    dc = repo.func("flowmark.transforms.doc_cleanups:doc_cleanups")
    calls = [norm(c.func) for c in walk_no_nested(dc.node) if isinstance(c, ast.Call)]
    ctx.ob("R-CLEANUP", f"{dc.qual} :: applies only the heading cleanup", calls == ["unbold_headings"],
           f"the cleanups entry point runs {calls}; the statement allows only the bold-heading cleanup", where(dc, dc.node))


def check_spacing_arms(ctx: Ctx) -> None:
    """render_list: one arm per ListSpacing member, each depending on the right input."""
    repo, prog = ctx.repo, ctx.prog
    rm = get_model(ctx)
    lm = rm.methods.get("List")
    if lm is None:
        raise AnalysisError("list renderer not found")
    flow = prog.flow(lm)
    el = rm.el_param(lm)
    enum = repo.cls("flowmark.formats.flowmark_markdown:ListSpacing")
    members = [st.targets[0].id for st in enum.node.body if isinstance(st, ast.Assign) and isinstance(st.targets[0], ast.Name)]
    # definitions of the local tightness decision, by the enum member that guards them
    arms: dict[str, list] = {}
    tests = [n for n in flow.cfg.nodes if n.kind == "test" and any(
        isinstance(x, ast.Attribute) and isinstance(x.value, ast.Name) and x.value.id == "ListSpacing" for x in ast.walk(n.ast))]
    ctx.require("R-DECISION-spacing", "comparisons against ListSpacing members in the list renderer", len(tests), 1)
    named = set()
    for t in tests:
        for x in ast.walk(t.ast):
            if isinstance(x, ast.Attribute) and isinstance(x.value, ast.Name) and x.value.id == "ListSpacing":
                named.add(x.attr)
    ctx.ob("R-DECISION-spacing", f"{lm.qual} :: arms cover the enum", len(named) >= len(members) - 1 and named <= set(members),
           f"ListSpacing has members {members}; the renderer compares against {sorted(named)} and handles the remaining one in the else arm",
           where(lm, lm.node))
    assigns = [n for n in flow.cfg.nodes if n.kind == "stmt" and isinstance(n.ast, ast.Assign) and isinstance(n.ast.targets[0], ast.Name)]
    decided = None
    for n in assigns:
        gs = [(b, lab) for b, lab in all_guards(prog, lm, n) if b in tests]
        if gs:
            decided = n.ast.targets[0].id
            taken = {x.attr for b, lab in gs if lab == "T" for x in ast.walk(b.ast)
                     if isinstance(x, ast.Attribute) and isinstance(x.value, ast.Name) and x.value.id == "ListSpacing"}
            arm = next(iter(taken)) if len(taken) == 1 else "else:" + ",".join(sorted(set(members) - named))
            arms.setdefault(arm, []).append(n)
    ctx.note("list_spacing_arms", {k: [norm(n.ast) for n in v] for k, v in arms.items()})
    for arm, nodes in arms.items():
        n = nodes[0]
        sl = prog.slice(lm, n.ast.value, n)
        key = f"{lm.qual} :: arm {arm}"
        name = arm.replace("else:", "")
        if name == "preserve":
            ctx.ob("R-DECISION-spacing", key, f"{el}.tight" in sl.attrs(),
                   "preserve must keep the list as authored: tightness = element.tight", where(lm, n))
        elif name == "tight":
            dep = f"{el}.children" in sl.attrs() or any("_can_be_tight" in c for c in sl.callees())
            const_true = isinstance(n.ast.value, ast.Constant)
            ctx.ob("R-DECISION-spacing", key, dep and not const_true,
                   "tight must depend on the items' blocks (a list whose items hold several blocks cannot be tight)", where(lm, n))
        elif name == "loose":
            ctx.ob("R-DECISION-spacing", key, isinstance(n.ast.value, ast.Constant) and n.ast.value.value is False,
                   "loose separates the items of every list: tightness = False", where(lm, n))
    ctx.ob("R-DECISION-spacing", f"{lm.qual} :: one arm per mode", {a.replace("else:", "") for a in arms} == set(members),
           f"arms found for {sorted(arms)}; modes are {members}", where(lm, lm.node))
    # _can_be_tight looks at every item's children
    cbt = next((m for m in lm.cls.methods.values() if m.name == "_can_be_tight"), None) if lm.cls else None
    if cbt is not None:
        cf = prog.flow(cbt)
        loops = [h for h in cf.cfg.nodes if h.kind == "for"]
        ok = any("children" in norm(h.ast.iter) for h in loops) and any(
            isinstance(x, ast.Compare) and "len(" in norm(x) and "children" in norm(x) for x in walk_no_nested(cbt.node))
        false_rets = [r for r in cf.cfg.returns() if isinstance(r.ast.value, ast.Constant) and r.ast.value.value is False]
        ctx.ob("R-DECISION-spacing", f"{cbt.qual} :: inspects every item's block count", ok and bool(false_rets),
               "a list can be tight only if each item holds a single block: the helper must loop over all items and compare len(item.children)",
               where(cbt, cbt.node))
