"""C10: cleanups and list-spacing modes do exactly what they say."""

from __future__ import annotations

import ast

from ..cfg import Node, walk_no_nested
from ..dataflow import bind_call, origins
from ..decide import Decider, expand_expr, role_of
from ..loader import AnalysisError, FuncInfo
from ..report import Ctx
from .common import all_guards, direct_guards, guard_atoms, norm, where
from .render import get_model
from .rewrite import _class_names, _isinstance_tests


def check_cleanup_guards(ctx: Ctx) -> None:
    """Every store in doc_cleanups is guarded by: element is a heading, has exactly one child, that child is strong emphasis."""
    repo, prog = ctx.repo, ctx.prog
    n_st = 0
    for fi in repo.functions.values():
        if fi.module.name != "flowmark.transforms.doc_cleanups" or isinstance(fi.node, ast.Lambda):
            continue
        flow = prog.flow(fi)
        for n in flow.cfg.nodes:
            if n.kind != "stmt" or not isinstance(n.ast, (ast.Assign, ast.AugAssign)):
                continue
            tg = n.ast.targets[0] if isinstance(n.ast, ast.Assign) else n.ast.target
            if isinstance(tg, ast.Subscript) and isinstance(tg.value, ast.Attribute) and tg.value.attr == "children":
                tg = tg.value  # X.children[a:b] = ... re-links children of X as well (a splice)
            if not isinstance(tg, ast.Attribute):
                continue
            n_st += 1
            tests = _isinstance_tests(ctx, fi, n)
            heading = any(lab == "T" and any(c.endswith("Heading") for c in cls) and all(c.endswith("Heading") for c in cls) for o, cls, lab in tests)

            def canon(e: ast.AST, at: Node) -> str:
                return norm(expand_expr(prog, fi, e, at))

            obj = canon(tg.value, n)
            # the value stored is the children of a node Y (content is kept, only the wrapper goes)
            val = n.ast.value
            val_ok = isinstance(val, ast.Attribute) and val.attr == "children"
            strong = single = False
            if val_ok:
                y = val.value
                y_forms = {norm(y), canon(y, n)}
                atoms = guard_atoms(prog, fi, n)
                # Y is strong emphasis
                for a, truth, b in atoms:
                    if truth and isinstance(a, ast.Call) and isinstance(a.func, ast.Name) and a.func.id == "isinstance" and len(a.args) == 2 \
                            and ({norm(a.args[0]), canon(a.args[0], b)} & y_forms) and _class_names(ctx, fi, a.args[1]) == ["marko.inline.StrongEmphasis"]:
                        strong = True

                def len_is_one(at: Node) -> bool:
                    for a, truth, b in guard_atoms(prog, fi, at):
                        if isinstance(a, ast.Compare) and len(a.ops) == 1 and isinstance(a.comparators[0], ast.Constant) and a.comparators[0].value == 1 \
                                and ((truth and isinstance(a.ops[0], ast.Eq)) or (not truth and isinstance(a.ops[0], ast.NotEq))) \
                                and canon(a.left, b) == f"len({obj}.children)":
                            return True
                    return False

                # Y is the only child of the node that is re-linked: every value Y can hold here is X.children[0], taken where
                # len(X.children) == 1 is known (None is excluded by the isinstance test above)
                cands: list[tuple[ast.AST, Node]] = []
                if isinstance(y, ast.Name):
                    for d in flow.reaching(n, y.id):
                        if d.kind == "assign" and d.value is not None:
                            cands.append((d.value, d.node))
                        else:
                            cands.append((ast.Constant(value=Ellipsis), d.node))
                else:
                    cands.append((y, n))
                def strong_at(v: ast.AST, at: Node) -> bool:
                    """the isinstance(..., StrongEmphasis) test is known where this value is taken"""
                    forms = {norm(v), canon(v, at)}
                    for a, truth, b in guard_atoms(prog, fi, at):
                        if truth and isinstance(a, ast.Call) and isinstance(a.func, ast.Name) and a.func.id == "isinstance" and len(a.args) == 2 \
                                and ({norm(a.args[0]), canon(a.args[0], b)} & forms) \
                                and _class_names(ctx, fi, expand_expr(prog, fi, a.args[1], b)) == ["marko.inline.StrongEmphasis"]:
                            return True
                    return False

                ok_all = bool(cands)
                real = [(v, at) for v, at in cands if not (isinstance(v, ast.Constant) and v.value is None)]
                if not strong and real and all(strong_at(v, at) for v, at in real):
                    # the test sits where the child is picked (`y = x.children[0] if/when isinstance(...)`, else None)
                    strong = True
                for v, at in real:
                    if canon(v, at) == f"{obj}.children[0]" and (len_is_one(at) or len_is_one(n)):
                        continue
                    ok_all = False
                single = ok_all and strong
                # ... and when the node that is re-linked is not the heading itself but something inside it (the italic wrapper
                # of a bold-italic heading), it must in turn be the heading's only child: otherwise the rest of the heading's
                # text sits next to it and the heading is only partly bold
                heading_objs = {o for o, cls, lab in tests if lab == "T" and cls and all(c.endswith("Heading") for c in cls)}
                if single and obj not in heading_objs:
                    def leaf_values(e_: ast.AST, at_: Node, depth_: int = 0) -> list[tuple[ast.AST, Node]]:
                        """what the name can hold, through plain copies (x = y = helper result ...)"""
                        if isinstance(e_, ast.Name) and depth_ < 5:
                            out_: list[tuple[ast.AST, Node]] = []
                            for d in flow.reaching(at_, e_.id):
                                if d.kind == "assign" and d.value is not None:
                                    out_ += leaf_values(d.value, d.node, depth_ + 1)
                                else:
                                    out_.append((ast.Constant(value=Ellipsis), d.node))
                            return out_
                        return [(e_, at_)]

                    xs: list[tuple[ast.AST, Node]] = leaf_values(tg.value, n)

                    def only_child_of_heading(v: ast.AST, at: Node) -> bool:
                        cv = canon(v, at)
                        for h_ in heading_objs:
                            if cv == f"{h_}.children[0]":
                                for at2 in (at, n):
                                    for a, truth, b in guard_atoms(prog, fi, at2):
                                        if isinstance(a, ast.Compare) and len(a.ops) == 1 and isinstance(a.comparators[0], ast.Constant) and a.comparators[0].value == 1 \
                                                and ((truth and isinstance(a.ops[0], ast.Eq)) or (not truth and isinstance(a.ops[0], ast.NotEq))) \
                                                and canon(a.left, b) == f"len({h_}.children)":
                                            return True
                        return False

                    xs = [(v, at) for v, at in xs if not (isinstance(v, ast.Constant) and v.value is None)]  # (None never gets here: attribute store)
                    if not (xs and all(only_child_of_heading(v, at) for v, at in xs)):
                        single = False
            ctx.ob("R-CLEANUP", f"{fi.qual} :: {norm(n.ast)}", heading and strong and single and val_ok,
                   "a cleanup may only re-link a heading whose *single* child is strong emphasis to that child's own children "
                   f"(heading test: {heading}, single-child test: {single}, strong test: {strong}, keeps content: {val_ok})", where(fi, n))
    ctx.require("R-CLEANUP", "stores in doc_cleanups", n_st, 1)
    # doc_cleanups applies only the unbold transform
    dc = repo.func("flowmark.transforms.doc_cleanups:doc_cleanups")
    calls = [norm(c.func) for c in walk_no_nested(dc.node) if isinstance(c, ast.Call)]
    ctx.ob("R-CLEANUP", f"{dc.qual} :: applies only the heading cleanup", calls == ["unbold_headings"],
           f"the cleanups entry point runs {calls}; the statement allows only the bold-heading cleanup", where(dc, dc.node))


def check_spacing_arms(ctx: Ctx) -> None:
    """render_list: under each ListSpacing mode, the tightness the renderer stores is the one the statement names.
    Decided by evaluating the renderer's paths under `mode == M` for every member M (helpers followed)."""
    repo, prog = ctx.repo, ctx.prog
    rm = get_model(ctx)
    lm = rm.methods.get("List")
    if lm is None:
        raise AnalysisError("list renderer not found")
    flow = prog.flow(lm)
    el = rm.el_param(lm)
    enum = repo.cls("flowmark.formats.flowmark_markdown:ListSpacing")
    members = [st.targets[0].id for st in enum.node.body if isinstance(st, ast.Assign) and isinstance(st.targets[0], ast.Name)]

    def member_of(e: ast.AST) -> str | None:
        if isinstance(e, ast.Attribute) and isinstance(e.value, ast.Name) and e.value.id == enum.name and e.attr in members:
            return e.attr
        return None

    def value_leaf(cur: FuncInfo, e: ast.AST, aliases: frozenset):
        if isinstance(e, ast.Attribute) and e.attr == "tight" and "el" in role_of(e.value, aliases):
            return "AUTHORED"
        if isinstance(e, (ast.UnaryOp, ast.Compare, ast.BoolOp)):
            # a boolean computed from the items of the list: `not any(len(i.children) > 1 for i in element.children)`
            for x in ast.walk(e):
                if isinstance(x, ast.Attribute) and x.attr == "children" and "el" in role_of(x.value, aliases):
                    return "ITEMS"
        if isinstance(e, ast.Call):
            # a value computed from the items of the list (element.children ...)
            for a in list(e.args) + [k.value for k in e.keywords] + [e.func]:
                for x in ast.walk(a):
                    if isinstance(x, ast.Attribute) and x.attr == "children" and "el" in role_of(x.value, aliases):
                        return "ITEMS"
            t = prog.resolve_call(cur, e)
            if isinstance(t, list) and len(t) == 1 and not isinstance(t[0].node, ast.Lambda):
                callee = t[0]
                b = bind_call(callee, e)
                for pname, arg in b.items():
                    if "el" in role_of(arg, aliases):
                        summ = prog.summary(callee, True, 0)
                        if summ is not None and any(a == f"{pname}.children" or a.startswith(f"{pname}.children.") for a in summ.attrs() | {x[1] for x in summ.sources if x[0] == "attr-of"}):
                            return "ITEMS"
        return None

    outcomes: dict[str, dict[str, set]] = {}
    for mode in members:
        def atom(leaf: ast.AST, aliases: frozenset, mode=mode) -> bool | None:
            if isinstance(leaf, ast.Compare) and len(leaf.ops) == 1:
                l, r = leaf.left, leaf.comparators[0]
                m1, m2 = member_of(l), member_of(r)
                if (m1 is None) == (m2 is None):
                    if isinstance(leaf.ops[0], (ast.In, ast.NotIn)) and isinstance(r, (ast.Tuple, ast.Set, ast.List)) and all(member_of(x) for x in r.elts):
                        v = mode in {member_of(x) for x in r.elts}
                        return v if isinstance(leaf.ops[0], ast.In) else not v
                    return None
                mm = m1 or m2
                if isinstance(leaf.ops[0], (ast.Eq, ast.Is)):
                    return mm == mode
                if isinstance(leaf.ops[0], (ast.NotEq, ast.IsNot)):
                    return mm != mode
            return None
        dec = Decider(prog, atom, value_leaf=value_leaf)
        stores: dict[str, set] = {}
        for _end, _env, _benv, outs in dec.walk(lm, flow.cfg.entry, None, frozenset({f"el={el}"})):
            first: dict[str, frozenset] = {}
            for o in outs:
                if isinstance(o, tuple) and o and o[0] == "store":
                    first.setdefault(o[1], o[2])
            for k, v in first.items():
                stores.setdefault(k, set()).update(v)
        outcomes[mode] = stores
    # a str-mixin enum is compared by value: the mode may arrive as a plain string (config file -> setattr on the options ->
    # renderer), for which `mode is ListSpacing.loose` is False although `mode == ListSpacing.loose` holds
    str_mixin = any(norm(b).split(".")[-1] in ("str", "StrEnum") for b in enum.node.bases)
    if str_mixin:
        from .common import exclusive_helpers
        for f in [lm] + [repo.functions[q] for q in sorted(exclusive_helpers(prog, lm)) if q in repo.functions]:
            if isinstance(f.node, ast.Lambda):
                continue
            for x in walk_no_nested(f.node):
                if isinstance(x, ast.Compare) and len(x.ops) == 1 and isinstance(x.ops[0], (ast.Is, ast.IsNot)) \
                        and (member_of(x.left) or member_of(x.comparators[0])):
                    ctx.ob("R-DECISION-spacing", f"{f.qual} :: {norm(x)} compares by value", False,
                           f"{enum.name} mixes in str and the mode can reach the renderer as a plain string (config file): an identity test "
                           "never matches it, so the configured mode silently behaves as another one; compare with ==", where(f, x))
    # the attribute decided by the mode: the one whose stored value differs between modes
    keys = set().union(*[set(v) for v in outcomes.values()]) if outcomes else set()
    decided = [k for k in sorted(keys) if len({frozenset(outcomes[m].get(k, ())) for m in members}) > 1]
    ctx.note("list_spacing_outcomes", {m: {k: sorted(map(str, v)) for k, v in outcomes[m].items()} for m in members})
    if not decided:
        raise AnalysisError(f"list renderer: no attribute whose stored value depends on the ListSpacing mode was found in {lm.qual}")
    k = decided[0]
    want = {"preserve": ({"AUTHORED"}, "preserve must keep the list as authored: tightness = element.tight"),
            "tight": ({"ITEMS"}, "tight must depend on the items' blocks (a list whose items hold several blocks cannot be tight)"),
            "loose": ({False}, "loose separates the items of every list: tightness = False")}
    for mode in members:
        got = outcomes[mode].get(k, set())
        if mode in want:
            exp, msg = want[mode]
            ctx.ob("R-DECISION-spacing", f"{lm.qual} :: arm {mode}", got == exp, f"{msg}; under mode={mode} `{k}` is set to {sorted(map(str, got))}", where(lm, lm.node))
    ctx.ob("R-DECISION-spacing", f"{lm.qual} :: one arm per mode", set(members) == set(want) and all(outcomes[m].get(k) for m in members),
           f"modes are {members}; each must decide `{k}`", where(lm, lm.node))
    # _can_be_tight looks at every item's children
    # (found by role: the one callee of the list renderer that iterates over `.children` and compares a len())
    cbt = next((m for m in lm.cls.methods.values() if m.name == "_can_be_tight"), None) if lm.cls else None
    if cbt is None:
        cands = []
        for c in ast.walk(lm.node):
            if isinstance(c, ast.Call):
                t = prog.resolve_call(lm, c)
                if isinstance(t, list) and len(t) == 1 and not isinstance(t[0].node, ast.Lambda) and t[0] not in cands:
                    src = ast.unparse(t[0].node)
                    if "children" in src and "len(" in src and not t[0].name.startswith("render"):
                        cands.append(t[0])
        cbt = cands[0] if len(cands) == 1 else None
    if cbt is not None:
        cf = prog.flow(cbt)
        iters = [h.ast.iter for h in cf.cfg.nodes if h.kind == "for"]
        comps = [x for x in ast.walk(cbt.node) if isinstance(x, ast.comprehension)]
        iters += [g.iter for g in comps]
        ok = any("children" in norm(it) for it in iters) and any(
            isinstance(x, ast.Compare) and "len(" in norm(x) and "children" in norm(x) for x in ast.walk(cbt.node))
        # the verdict can be negative: an explicit `return False`, or the value of all()/any() over the items
        false_rets = [r for r in cf.cfg.returns() if isinstance(r.ast.value, ast.Constant) and r.ast.value.value is False]
        agg_rets = [r for r in cf.cfg.returns() if any(isinstance(c, ast.Call) and isinstance(c.func, ast.Name) and c.func.id in ("all", "any")
                                                        for c in ast.walk(r.ast.value or ast.Constant(value=None)))]
        ctx.ob("R-DECISION-spacing", f"{cbt.qual} :: inspects every item's block count", ok and bool(false_rets or agg_rets),
               "a list can be tight only if each item holds a single block: the helper must loop over all items and compare len(item.children)",
               where(cbt, cbt.node))


def check_item_gap_flag(ctx: Ctx) -> None:
    """The list renderer decides the blank line between two items from a flag that blocks set while they render (a heading
    says "I already emitted my blank line"). A block that renders its children inside `container(...)` (quote, alert, list
    item, footnote definition) must decide that flag itself after the container is left: otherwise what the *last child*
    happened to set leaks out, and the spacing after the item depends on what the quote ends with."""
    repo, prog = ctx.repo, ctx.prog
    rm = get_model(ctx)
    lm = rm.methods.get("List")
    if lm is None:
        raise AnalysisError("list renderer not found")
    lflow = prog.flow(lm)
    selfname = lm.params[0]
    # the flag: `if self.X: self.X = False` (consumed) in the list renderer or the helpers only it calls
    flag = None
    from .common import exclusive_helpers

    cands_f = [lm] + [repo.functions[q] for q in sorted(exclusive_helpers(prog, lm)) if q in repo.functions]
    li = rm.methods.get("ListItem")
    if li is not None:
        cands_f += [li] + [repo.functions[q] for q in sorted(exclusive_helpers(prog, li)) if q in repo.functions]  # (the per-item renderer)
    for f in cands_f:
        if isinstance(f.node, ast.Lambda) or not f.params:
            continue
        fl = prog.flow(f)
        for n in fl.cfg.nodes:
            if n.kind == "test" and isinstance(n.ast, ast.Attribute) and isinstance(n.ast.value, ast.Name) and n.ast.value.id == f.params[0]:
                for s_, lab in n.succ:
                    if lab == "T" and s_.kind == "stmt" and isinstance(s_.ast, ast.Assign) and norm(s_.ast.targets[0]) == norm(n.ast) \
                            and isinstance(s_.ast.value, ast.Constant) and s_.ast.value.value is False:
                        flag = n.ast.attr
    if flag is None:
        ctx.note("item_gap_flag", "no consumed flag found in the list renderer: rule not applicable")
        return
    ctx.note("item_gap_flag", flag)

    def assigns_flag(f: FuncInfo, n: Node) -> bool:
        return n.kind == "stmt" and isinstance(n.ast, ast.Assign) and any(isinstance(t, ast.Attribute) and t.attr == flag and isinstance(t.value, ast.Name)
                                                                      and t.value.id == f.params[0] for t in n.ast.targets)

    def uses_container(f: FuncInfo) -> list[Node]:
        fl = prog.flow(f)
        return [n for n in fl.cfg.nodes if n.kind in ("with", "withitem", "stmt") and isinstance(n.ast, (ast.With, ast.withitem, ast.Call, ast.Expr))
                and any(isinstance(c, ast.Call) and isinstance(c.func, ast.Attribute) and c.func.attr == "container" for c in ast.walk(n.ast) if True)
                and isinstance(getattr(n, "owner", None) or n.ast, (ast.With, ast.withitem))]

    n_cont = 0
    seen: set[str] = set()
    for kind, m in sorted(rm.methods.items(), key=lambda kv: kv[0]):
        if m is None or m.qual in seen or m.cls is None or isinstance(m.node, ast.Lambda):
            continue
        seen.add(m.qual)
        fl = prog.flow(m)
        anchors_: list[Node] = []
        helper_assigns: set[Node] = set()
        for n in fl.cfg.nodes:
            # a `with self.container(...)` of its own
            if isinstance(n.ast, ast.With) or isinstance(getattr(n, "owner", None), ast.With):
                w = n.ast if isinstance(n.ast, ast.With) else n.owner
                if any(isinstance(c, ast.Call) and isinstance(c.func, ast.Attribute) and c.func.attr == "container" for it in w.items for c in ast.walk(it.context_expr)) \
                        and any(isinstance(c, ast.Call) and isinstance(c.func, ast.Attribute) and c.func.attr == "rstrip" for c in ast.walk(w)):
                    # (a container that strips the trailing newlines of what its children rendered: a heading's own blank line is
                    # gone with them, so "the blank line is already there" no longer holds)
                    anchors_.append(n)
            for c in fl.calls_in(n):
                t = prog.resolve_call(m, c)
                if isinstance(t, list) and len(t) == 1 and t[0].cls is m.cls and t[0].name.startswith("_") and not isinstance(t[0].node, ast.Lambda):
                    h = t[0]
                    hsrc = [x for x in ast.walk(h.node) if isinstance(x, ast.With) and any(
                        isinstance(c2, ast.Call) and isinstance(c2.func, ast.Attribute) and c2.func.attr == "container" for it in x.items for c2 in ast.walk(it.context_expr))
                        and any(isinstance(c2, ast.Call) and isinstance(c2.func, ast.Attribute) and c2.func.attr == "rstrip" for c2 in ast.walk(x))]
                    if hsrc:
                        anchors_.append(n)
                        # does the helper itself decide the flag after its container (a top-level statement after the with)?
                        body = h.node.body
                        for i, st in enumerate(body):
                            if st in hsrc or any(x in hsrc for x in ast.walk(st)):
                                if any(isinstance(y, ast.Assign) and any(isinstance(tg, ast.Attribute) and tg.attr == flag for tg in y.targets) for later in body[i + 1:] for y in ast.walk(later)):
                                    helper_assigns.add(n)
        if not anchors_:
            continue
        n_cont += 1
        setters = {n for n in fl.cfg.nodes if assigns_flag(m, n)} | helper_assigns
        bad = None
        for a in anchors_:
            if a in helper_assigns:
                continue
            for r in list(fl.cfg.returns()) + [fl.cfg.exit]:
                p = fl.cfg.path_avoiding(a, r, setters)
                if p is not None and r is not a:
                    bad = (a, r)
                    break
            if bad:
                break
        ctx.ob("R-STATE", f"{m.qual} :: decides the item-gap flag after its container", bad is None,
               f"`self.{flag}` is consumed by the list renderer; a block that renders children inside container(...) must set it after the "
               "container is left, or whatever its last child set leaks out (the blank line after a list item then depends on what a "
               "quote ends with)", where(m, (bad[0].ast if bad and bad[0].ast is not None else m.node)))
    ctx.require("R-STATE", "render methods that render children inside container(...) and strip their trailing newlines", n_cont, 2)
