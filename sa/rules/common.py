"""Helpers shared by the rule modules."""

from __future__ import annotations

import ast

from ..cfg import Node, walk_no_nested
from ..dataflow import FuncFlow, Program, origins
from ..loader import ClassInfo, ConstInfo, FuncInfo, Module, Repo, repo_root


def where(fi_or_mod, node: ast.AST | Node | None) -> str:
    mod: Module = fi_or_mod.module if isinstance(fi_or_mod, (FuncInfo, ClassInfo, ConstInfo)) else fi_or_mod
    try:
        rel = mod.path.relative_to(repo_root())
    except ValueError:
        rel = mod.path
    if isinstance(node, Node):
        line = node.lineno
    else:
        line = getattr(node, "lineno", 0) if node is not None else 0
    return f"{rel}:{line}"


def norm(node: ast.AST | str, limit: int = 140) -> str:
    txt = node if isinstance(node, str) else ast.unparse(node)
    txt = " ".join(txt.split())
    return txt if len(txt) <= limit else txt[: limit - 3] + "..."


def framework_hook_functions(repo: Repo) -> dict[str, FuncInfo]:
    """Methods of the package's classes that extend a marko class (elements, parser, renderer, Markdown): marko calls them
    during parsing / rendering - match(), parse(), __init__ of the custom elements - although no code of the package does."""
    out: dict[str, FuncInfo] = {}
    for ci in repo.classes.values():
        stack, seen, ext = [ci], set(), False
        while stack:
            c = stack.pop()
            if c.qual in seen:
                continue
            seen.add(c.qual)
            for b in repo.class_bases(c):
                if isinstance(b, ClassInfo):
                    stack.append(b)
                elif isinstance(b, str) and b.split(".")[0] == "marko":
                    ext = True
        if ext:
            for m in ci.methods.values():
                out[m.qual] = m
    return out


def reachable_functions(prog: Program, roots: list[FuncInfo], include_nested: bool = True) -> dict[str, FuncInfo]:
    """Repo functions reachable from the roots through resolved calls, function-valued arguments,
    self-dispatch (render_*), nested definitions and class constructors."""
    repo = prog.repo
    seen: dict[str, FuncInfo] = {}
    stack = list(roots)
    while stack:
        f = stack.pop()
        if f.qual in seen:
            continue
        seen[f.qual] = f
        if include_nested:
            for d in f.local_defs.values():
                if isinstance(d, FuncInfo):
                    stack.append(d)
                elif isinstance(d, ClassInfo):
                    stack.extend(d.methods.values())
        if isinstance(f.node, ast.Lambda):
            body_nodes = list(walk_no_nested(f.node.body))
        else:
            body_nodes = list(walk_no_nested(f.node))
        for n in body_nodes:
            if isinstance(n, ast.Call):
                t = prog.resolve_call(f, n)
                if isinstance(t, list):
                    stack.extend(t)
                elif isinstance(t, str) and t.startswith("class:"):
                    ci = repo.classes.get(t[6:])
                    if ci is not None:
                        stack.extend(ci.methods.values())
                stack.extend(prog.dispatch_targets(f, n))
                # constructing a repo class makes its methods reachable
                r = repo.resolve_expr(n.func, f.module, f) if isinstance(n.func, (ast.Name, ast.Attribute)) else None
                if isinstance(r, ClassInfo):
                    stack.extend(r.methods.values())
                    for b in repo.class_bases(r):
                        if isinstance(b, ClassInfo):
                            stack.extend(b.methods.values())
            elif isinstance(n, (ast.Name, ast.Attribute)) and isinstance(getattr(n, "ctx", None), ast.Load):
                # function values passed around (callbacks, decorators, module constants)
                r = repo.resolve_expr(n, f.module, f)
                if isinstance(r, FuncInfo):
                    stack.append(r)
                elif isinstance(r, ConstInfo) and r.value is not None:
                    for sub in ast.walk(r.value):
                        if isinstance(sub, (ast.Name, ast.Attribute)):
                            rr = repo.resolve_expr(sub, r.module, None)
                            if isinstance(rr, FuncInfo):
                                stack.append(rr)
                            elif isinstance(rr, ClassInfo):
                                stack.extend(rr.methods.values())
                elif isinstance(r, ClassInfo):
                    pass
    return seen


def direct_guards(prog: Program, fi: FuncInfo, node: Node) -> list[tuple[Node, str, frozenset]]:
    """(branch node, edge label, identity-origins of the branch condition) the node directly depends on."""
    flow = prog.flow(fi)
    out = []
    for b, lab in sorted(flow.control_deps(node), key=lambda x: x[0].id):
        if b.kind == "test":
            out.append((b, lab, origins(prog, fi, b.ast, b)))
        else:
            out.append((b, lab, frozenset({("node", b.kind)})))
    return out


def all_guards(prog: Program, fi: FuncInfo, node: Node) -> list[tuple[Node, str]]:
    """Transitive control dependences of a node (branch node, label)."""
    flow = prog.flow(fi)
    seen: set[tuple[int, str]] = set()
    out: list[tuple[Node, str]] = []
    stack = [node]
    visited: set[int] = set()
    while stack:
        n = stack.pop()
        if n.id in visited:
            continue
        visited.add(n.id)
        for b, lab in flow.control_deps(n):
            if (b.id, lab) not in seen:
                seen.add((b.id, lab))
                out.append((b, lab))
            stack.append(b)
    return out


def call_name(prog: Program, fi: FuncInfo, call: ast.Call) -> str:
    t = prog.resolve_call(fi, call)
    if isinstance(t, list):
        return t[0].qual
    if isinstance(t, str):
        return t
    return norm(call.func)


def calls_to(prog: Program, fi: FuncInfo, pred) -> list[tuple[Node, ast.Call, str]]:
    flow = prog.flow(fi)
    out = []
    for n, c in flow.all_calls():
        name = call_name(prog, fi, c)
        if pred(name):
            out.append((n, c, name))
    return out


def func_by_name(repo: Repo, module: str, name: str) -> FuncInfo:
    return repo.func(f"{module}:{name}")


def const_str(node: ast.AST | None) -> str | None:
    if isinstance(node, ast.Constant) and isinstance(node.value, str):
        return node.value
    return None


def callers_index(prog: Program) -> dict[str, set[str]]:
    """callee qualname -> qualnames of the repo functions that call it (resolved call sites of the whole package)."""
    idx = getattr(prog, "_callers_index", None)
    if idx is None:
        idx = {}
        for fi in prog.repo.functions.values():
            if isinstance(fi.node, ast.Lambda):
                continue
            for n in ast.walk(fi.node):
                if isinstance(n, ast.Call):
                    t = prog.resolve_call(fi, n)
                    if isinstance(t, list):
                        for c in t:
                            idx.setdefault(c.qual, set()).add(fi.qual)
        prog._callers_index = idx  # type: ignore[attr-defined]
    return idx


def exclusive_helpers(prog: Program, root: FuncInfo) -> set[str]:
    """Functions all of whose callers are `root` or other exclusive helpers of root: code that is, in effect, part of root
    (what "extract method" produces). Private names only - a public function can be called from outside the package."""
    idx = callers_index(prog)
    out: set[str] = set()
    changed = True
    while changed:
        changed = False
        for q, callers in idx.items():
            if q in out or q == root.qual:
                continue
            name = q.split(":")[-1].split(".")[-1]
            if not name.startswith("_") or name.startswith("__"):
                continue
            if callers and all(c == root.qual or c in out or c == q for c in callers):
                out.add(q)
                changed = True
    return out


def must_atoms(edges) -> list[tuple[ast.AST, bool]]:
    """Sub-conditions with the truth value they are known to have, given the (test node, label) branch edges taken:
    `if not A: continue` passed on F gives (A, True); `if A or B: continue` passed on F gives (A, False), (B, False)."""
    out: list[tuple[ast.AST, bool]] = []

    def add(e: ast.AST, truth: bool) -> None:
        if isinstance(e, ast.UnaryOp) and isinstance(e.op, ast.Not):
            add(e.operand, not truth)
        elif isinstance(e, ast.BoolOp) and isinstance(e.op, ast.And) and truth:
            for v in e.values:
                add(v, True)
        elif isinstance(e, ast.BoolOp) and isinstance(e.op, ast.Or) and not truth:
            for v in e.values:
                add(v, False)
        else:
            out.append((e, truth))

    for b, lab in edges:
        if b.kind == "test" and lab in ("T", "F"):
            add(b.ast, lab == "T")
    return out


def guard_atoms(prog: Program, fi: FuncInfo, node: Node) -> list[tuple[ast.AST, bool, Node]]:
    """(sub-condition, truth value, test node) known at `node` from all the branches it (transitively) depends on."""
    out: list[tuple[ast.AST, bool, Node]] = []
    for b, lab in all_guards(prog, fi, node):
        for a, truth in must_atoms([(b, lab)]):
            out.append((a, truth, b))
    return out


def factory_closure(prog: Program, fac: FuncInfo) -> FuncInfo:
    """The nested function a wrapper factory hands out: its only local def, or - when it has local helpers too - the one
    that its return values are built from."""
    from ..decide import expand_expr
    from ..loader import AnalysisError

    inner = [f for f in fac.local_defs.values() if isinstance(f, FuncInfo) and not isinstance(f.node, ast.Lambda)]
    if len(inner) == 1:
        return inner[0]
    if not inner:
        # the factory may hand out an instance of a callable class instead of a closure: return C(base)  ->  C.__call__
        from ..loader import ClassInfo

        for r in prog.flow(fac).cfg.returns():
            v = r.ast.value
            if isinstance(v, ast.Call) and isinstance(v.func, (ast.Name, ast.Attribute)):
                ci = prog.repo.resolve_expr(v.func, fac.module, fac)
                if isinstance(ci, ClassInfo):
                    m = prog.repo.find_method(ci, "__call__")
                    if m is not None:
                        return m
        raise AnalysisError(f"{fac.qual} defines no inner function")
    flow = prog.flow(fac)
    names: set[str] = set()
    for r in flow.cfg.returns():
        if r.ast.value is not None:
            ex = expand_expr(prog, fac, r.ast.value, r, strict=False)
            names |= {x.id for x in ast.walk(ex) if isinstance(x, ast.Name)}
    hit = [f for f in inner if f.name in names]
    if len(hit) != 1:
        # the returned value may be assembled over several statements / branches: follow every reaching definition
        seen: set[str] = set()
        work = [(x, r) for r in flow.cfg.returns() if r.ast.value is not None for x in ast.walk(r.ast.value) if isinstance(x, ast.Name)]
        reach: set[str] = set()
        while work and len(seen) < 200:
            nm, at = work.pop()
            reach.add(nm.id)
            for d in flow.reaching(at, nm.id):
                key = f"{d.id}"
                if key in seen or d.value is None or d.kind not in ("assign", "unpack"):
                    continue
                seen.add(key)
                work += [(x, d.node) for x in ast.walk(d.value) if isinstance(x, ast.Name) and isinstance(x.ctx, ast.Load)]
        hit = [f for f in inner if f.name in reach]
    if len(hit) > 1:
        # several closures can be returned (an extra early-return wrapper next to the real one): the base wrapper is the one
        # that reaches the wrapping core; the others show up as additional outcomes of the factory and are judged as such
        core = [f for f in hit if any(isinstance(c, ast.Call) and isinstance(c.func, ast.Name) and c.func.id in ("wrap_paragraph", "wrap_paragraph_lines")
                                      for c in ast.walk(f.node))]
        if len(core) == 1:
            return core[0]
    if len(hit) != 1:
        raise AnalysisError(f"{fac.qual}: cannot tell which of its inner functions {sorted(f.name for f in inner)} is the one it returns")
    return hit[0]


def deep_origins(prog: Program, fi: FuncInfo, expr: ast.AST | None, node: Node, stop: set[str] | None = None, depth: int = 0) -> frozenset:
    """origins(), with calls to functions of the package (other than those in `stop`) replaced by the origins of what they
    return: `return helper(x)` where helper ends in `return fix(y)` has origin ("call", fix)."""
    stop = stop or set()
    out: set = set()
    for o in origins(prog, fi, expr, node):
        if isinstance(o, tuple) and o[0] == "call" and o[1] not in stop and depth < 3 and o[1] in prog.repo.functions:
            callee = prog.repo.functions[o[1]]
            if isinstance(callee.node, ast.Lambda):
                out.add(o)
                continue
            rets = [r for r in prog.flow(callee).cfg.returns() if r.ast.value is not None]
            if not rets:
                out.add(o)
                continue
            for r in rets:
                out |= deep_origins(prog, callee, r.ast.value, r, stop, depth + 1)
        else:
            out.add(o)
    return frozenset(out)



def base_call_predicate(prog: Program, fac: FuncInfo, w: FuncInfo):
    """How the wrapper `w` handed out by factory `fac` calls the wrapper it decorates: as the captured parameter of the
    factory (closure) or as the attribute the factory's argument was stored in (callable class). Returns a predicate on calls."""
    names = set(fac.params)
    attrs: set[str] = set()
    if w.cls is not None and w.params:
        from ..loader import ClassInfo

        ci = w.cls
        fields = [st.target.id for st in ci.node.body if isinstance(st, ast.AnnAssign) and isinstance(st.target, ast.Name)]
        init = prog.repo.find_method(ci, "__init__")
        ctor_params = list(init.params[1:]) if init is not None and init.cls is ci else fields
        for r in prog.flow(fac).cfg.returns():
            v = r.ast.value
            if isinstance(v, ast.Call) and prog.repo.resolve_expr(v.func, fac.module, fac) is ci:
                for p, a in list(zip(ctor_params, v.args)) + [(k.arg, k.value) for k in v.keywords if k.arg]:
                    if isinstance(a, ast.Name) and a.id in names:
                        attrs.add(p)
        selfname = w.params[0]

        def pred(c: ast.Call) -> bool:
            return isinstance(c.func, ast.Attribute) and isinstance(c.func.value, ast.Name) and c.func.value.id == selfname and c.func.attr in attrs
        return pred

    def pred(c: ast.Call) -> bool:  # type: ignore[misc]
        return isinstance(c.func, ast.Name) and c.func.id in names
    return pred


def unexpected_carried(prog: Program, fi: FuncInfo, h: Node, neighbour_registers: bool = False) -> tuple[set[str], set[str]]:
    """(carried, allowed): variables whose value flows from one iteration of loop `h` into the next, and the subset that is
    harmless: output accumulators that are only appended to and never read inside the loop, and one-way switches assigned
    from loop-invariant values. With `neighbour_registers`, also a variable that every trip sets - unconditionally, once - to
    something computed from the current element alone (`prev_is_tag = is_tag(line)`): the next trip reads what it could
    have computed from its neighbour i-1, nothing older survives."""
    flow = prog.flow(fi)
    carried = flow.loop_carried(h)
    body = flow.loop_body_nodes(h)
    allowed: set[str] = set()
    if neighbour_registers:
        from ..cfg import must_edges as _must_edges

        for v in carried:
            defs_in_body = [d for n in body for d in flow.defs_at[n] if d.var == v]
            if len(defs_in_body) != 1 or defs_in_body[0].kind != "assign" or defs_in_body[0].value is None:
                continue
            d = defs_in_body[0]
            edges = {(b, lab) for b, lab in (_must_edges(flow.cfg, h, d.node) or set()) if b is not h}
            if edges:
                continue  # set on some trips only: an older value would survive
            sl = prog.slice(fi, d.value, d.node)
            carried_defs = {dd for dd in sl.defs if dd.var in carried and dd.node in body}
            outside_carried = {dd for dd in sl.defs if dd.var in carried and dd.node not in body and dd.node is not h}
            if not carried_defs and not outside_carried:
                allowed.add(v)
    for v in carried:
        defs_in_body = [d for n in body for d in flow.defs_at[n] if d.var == v]
        if defs_in_body and all(d.kind == "assign" and d.value is not None and
                                not (prog.slice(fi, d.value, d.node).defs & set(defs_in_body)) for d in defs_in_body):
            if all(dd.node not in body for d in defs_in_body for dd in prog.slice(fi, d.value, d.node).defs):
                allowed.add(v)
        appends_only = defs_in_body and all(d.kind == "mutate" and isinstance(d.value, ast.Call) and isinstance(d.value.func, ast.Attribute)
                                            and d.value.func.attr in ("append", "extend") for d in defs_in_body)
        other_reads = False
        for n in body:
            for ex in flow.node_exprs(n):
                for sub in walk_no_nested(ex):
                    if isinstance(sub, ast.Name) and sub.id == v and isinstance(sub.ctx, ast.Load):
                        from ..loader import parent as _parent

                        pp = _parent(sub)
                        if not (isinstance(pp, ast.Attribute) and pp.attr in ("append", "extend")):
                            other_reads = True
        if appends_only and not other_reads:
            allowed.add(v)
    return carried, allowed


def check_memo_keys(ctx, rule_id: str, module_prefixes: tuple[str, ...], minimum: int = 0) -> int:
    """R-MEMO: a value stored in a table that outlives the call (`table[key] = value` with the table a closure variable of an
    enclosing function, a module-level name or an attribute of self) must be keyed by everything it was computed from:
    params(value) - params(key) = {} (both through data *and* control dependence). Otherwise a later call that differs in
    an uncovered input is handed the answer computed for another one (a wrapped segment with the wrong first-line indent,
    a sentence wrapped for another column ...). Returns the number of memo stores seen."""
    prog = ctx.prog
    n = 0
    for fi in prog.repo.functions.values():
        if not fi.module.name.startswith(module_prefixes) or isinstance(fi.node, ast.Lambda) or fi.name == "__init__":
            continue
        flow = prog.flow(fi)
        selfname = fi.params[0] if fi.cls is not None and fi.params else None
        local_names = {d.var for d in flow.defs if d.kind not in ("param", "mutate", "effect")} | set(fi.params)
        for node in flow.cfg.nodes:
            if node.kind != "stmt" or not isinstance(node.ast, ast.Assign) or len(node.ast.targets) != 1:
                continue
            t = node.ast.targets[0]
            if not isinstance(t, ast.Subscript):
                continue
            tab = t.value
            persistent = False
            if isinstance(tab, ast.Attribute) and isinstance(tab.value, ast.Name) and tab.value.id == selfname:
                persistent = True
            elif isinstance(tab, ast.Name) and tab.id not in local_names:
                # a free variable: bound in an enclosing function (closure-level table) or at module level
                f_ = fi.parent
                while f_ is not None and not persistent:
                    persistent = tab.id in prog.flow(f_).defs_of_var
                    f_ = f_.parent
                if not persistent:
                    from ..loader import ConstInfo
                    persistent = isinstance(prog.repo.lookup(tab.id, fi.module, fi), ConstInfo)
            if not persistent:
                continue
            # a memo is looked up before it is filled: table.get(k) / k in table / table[k] read in the same function
            # (a table that is only written - an accumulator handed back to the caller - is not one)
            tab_txt = norm(tab)
            looked_up = False
            for x in ast.walk(fi.node):
                if isinstance(x, ast.Call) and isinstance(x.func, ast.Attribute) and x.func.attr in ("get", "setdefault") and norm(x.func.value) == tab_txt:
                    looked_up = True
                elif isinstance(x, ast.Compare) and len(x.ops) == 1 and isinstance(x.ops[0], (ast.In, ast.NotIn)) and norm(x.comparators[0]) == tab_txt:
                    looked_up = True
                elif isinstance(x, ast.Subscript) and isinstance(x.ctx, ast.Load) and norm(x.value) == tab_txt:
                    looked_up = True
            if not looked_up:
                continue
            # ... and the store happens on the miss: it is controlled by a test on that lookup (an assert is not such a test)
            on_miss = False
            for b, _lab in all_guards(prog, fi, node):
                if b.kind != "test" or isinstance(b.owner, ast.Assert):
                    continue
                names_ = {x.id for x in ast.walk(b.ast) if isinstance(x, ast.Name)}
                via_lookup = tab_txt in norm(b.ast)
                for nm_ in names_:
                    for d in flow.reaching(b, nm_):
                        if d.value is not None and tab_txt in norm(d.value):
                            via_lookup = True
                on_miss = on_miss or via_lookup
            if not on_miss:
                continue
            n += 1
            key_params = prog.slice(fi, t.slice, node).params() - {selfname}
            val_params = prog.slice(fi, node.ast.value, node, control=False).params() - {selfname}
            extra = val_params - key_params
            ctx.ob(rule_id, f"{fi.qual} :: {norm(t)} keyed by all inputs of the cached value", not extra,
                   f"the cached value depends on {sorted(val_params)} but the key only on {sorted(key_params)}: a later call that differs in "
                   f"{sorted(extra)} gets the answer computed for another input", where(fi, node))
    ctx.require(rule_id, "memo stores", n, minimum)
    return n


def predicate_scenarios(prog: Program, fi: FuncInfo, edges, depth: int = 0) -> list[list[tuple[ast.AST, bool, FuncInfo, Node | None]]]:
    """What is known when the given branch edges of `fi` were taken, with calls to boolean helpers of the package *opened
    up*: each scenario is one way the helpers can have answered (one accepting return path each), as a list of
    (sub-condition, truth, function it is written in, node). A guard `if _usable(c):` thus yields the facts established
    inside `_usable` on each of its `return True` paths - the same facts an inlined test would give."""
    from ..cfg import must_edges as _must

    scenarios: list[list[tuple[ast.AST, bool, FuncInfo, Node | None]]] = [[]]
    for b, lab in sorted(edges, key=lambda x: x[0].id):
        for a, truth in must_atoms([(b, lab)]):
            alts: list[list[tuple[ast.AST, bool, FuncInfo, Node | None]]] = [[(a, truth, fi, b)]]
            if isinstance(a, ast.BoolOp) and depth < 3 and ((isinstance(a.op, ast.And) and not truth) or (isinstance(a.op, ast.Or) and truth)):
                # a conjunction known to be false (a disjunction known to be true): one scenario per operand that decided it, the
                # operands before it having let evaluation through
                alts = []
                passing = isinstance(a.op, ast.And)  # earlier operands of a failed `and` were true; of a passed `or`, false
                for i, v in enumerate(a.values):
                    fakes = {(type("N", (), {"kind": "test", "ast": w, "id": -(10 * i + j) - 1})(), "T" if passing else "F") for j, w in enumerate(a.values[:i])}
                    fakes.add((type("N", (), {"kind": "test", "ast": v, "id": -(10 * i) - 9})(), "F" if passing else "T"))
                    for sub in predicate_scenarios(prog, fi, fakes, depth + 1):
                        alts.append([(x_a, x_t, x_f, b if x_f is fi else _n) for x_a, x_t, x_f, _n in sub])
                alts = alts or [[(a, truth, fi, b)]]
            if isinstance(a, ast.Name) and depth < 2 and getattr(b, "id", -1) >= 0:
                # a flag several assignments can have set (the result of a spliced predicate helper): one scenario per
                # definition that can have given it this truth value, with what is known where that definition sits
                fl_ = prog.flow(fi)
                ds_ = fl_.reaching(b, a.id) if a.id in fl_.defs_of_var else []
                if len(ds_) >= 2 and all(d.kind == "assign" and d.value is not None for d in ds_):
                    got_alts = []
                    for d in ds_:
                        if isinstance(d.value, ast.Constant) and bool(d.value.value) is not truth:
                            continue
                        edges_d = {(x, l) for x, l in (_must(fl_.cfg, fl_.cfg.entry, d.node) or set()) if x.kind == "test"}
                        val_edges = set() if isinstance(d.value, ast.Constant) else {(type("N", (), {"kind": "test", "ast": d.value, "id": -77})(), "T" if truth else "F")}
                        for sub in predicate_scenarios(prog, fi, edges_d | val_edges, depth + 1):
                            got_alts.append([(a, truth, fi, b)] + [(x_a, x_t, x_f, (b if x_f is fi and getattr(x_n, "id", -1) < 0 else x_n)) for x_a, x_t, x_f, x_n in sub])
                    if got_alts:
                        alts = got_alts[:16]
            if isinstance(a, ast.Call) and depth < 2:
                t = prog.resolve_call(fi, a)
                if isinstance(t, list) and len(t) == 1 and not isinstance(t[0].node, ast.Lambda):
                    h = t[0]
                    hflow = prog.flow(h)
                    opened: list[list[tuple[ast.AST, bool, FuncInfo, Node | None]]] = []
                    understood = True
                    for r in hflow.cfg.returns():
                        v = r.ast.value
                        if v is None:
                            understood = False
                            continue
                        if isinstance(v, ast.Constant) and isinstance(v.value, bool):
                            if v.value is not truth:
                                continue
                            extra: list[tuple[ast.AST, bool]] = []
                        else:
                            extra = must_atoms([(type("N", (), {"kind": "test", "ast": v})(), "T" if truth else "F")])
                        path_edges = _must(hflow.cfg, hflow.cfg.entry, r) or set()
                        for sub in predicate_scenarios(prog, h, path_edges, depth + 1):
                            sc = list(sub)
                            # the value returned on this path, opened up as well when it is a helper call
                            for ea, et in extra:
                                inner_alts = [[(ea, et, h, r)]]
                                if isinstance(ea, ast.Call) and depth + 1 < 2:
                                    fake = type("N", (), {"kind": "test", "ast": ea, "id": -1})()
                                    got = predicate_scenarios(prog, h, {(fake, "T" if et else "F")}, depth + 1)
                                    inner_alts = [x for x in got] or inner_alts
                                sc_list = [sc + ia for ia in inner_alts]
                                sc = None
                                opened_local = sc_list
                                break
                            else:
                                opened_local = [sc]
                            opened += opened_local
                    if understood and opened:
                        alts = [[(a, truth, fi, b)] + o for o in opened]
            scenarios = [s + alt for s in scenarios for alt in alts][:64]
    return scenarios


def expand_flag_edges(flow, edges, depth: int = 0) -> set:
    """Branch edges implied by the given ones when a test is a boolean *flag* known to be true: `ok = False ... if A: if B:
    ok = <cond> ... if ok: S` - S runs only where A and B were true (the edges common to every place the flag can have
    become true are added)."""
    from ..cfg import must_edges as _must

    out = set(edges)
    if depth > 2:
        return out
    # a *mode* variable: every definition that reaches the test assigns a constant (a literal, an enum member, a module
    # constant); `if mode is K:` then runs only where the definitions that assign K are - and its false arm only where the others are
    for b, lab in list(edges):
        t = b.ast if b.kind == "test" else None
        if not (isinstance(t, ast.Compare) and len(t.ops) == 1 and isinstance(t.ops[0], (ast.Is, ast.IsNot, ast.Eq, ast.NotEq)) and lab in ("T", "F")
                and isinstance(t.left, ast.Name) and isinstance(t.comparators[0], (ast.Constant, ast.Attribute, ast.Name))):
            continue
        ds = flow.reaching(b, t.left.id)
        if len(ds) < 2 or any(d.kind != "assign" or not isinstance(d.value, (ast.Constant, ast.Attribute, ast.Name)) for d in ds):
            continue
        if any(isinstance(d.value, ast.Name) and d.value.id in flow.defs_of_var for d in ds):
            continue  # (a local, not a constant)
        k = ast.unparse(t.comparators[0])
        positive = isinstance(t.ops[0], (ast.Is, ast.Eq)) == (lab == "T")
        live = [d for d in ds if (ast.unparse(d.value) == k) == positive]
        if not live:
            continue
        common = None
        for d in live:
            es = expand_flag_edges(flow, _must(flow.cfg, flow.cfg.entry, d.node) or set(), depth + 1)
            common = es if common is None else (common & es)
        out |= common or set()
    for b, lab in list(edges):
        if b.kind != "test" or lab != "T" or not isinstance(b.ast, ast.Name):
            continue
        ds = flow.reaching(b, b.ast.id)
        live = [d for d in ds if not (d.kind == "assign" and isinstance(d.value, ast.Constant) and d.value.value in (False, None))]
        if not ds or not live or len(live) == len(ds) or any(d.kind != "assign" for d in ds):
            continue
        common = None
        for d in live:
            es = expand_flag_edges(flow, _must(flow.cfg, flow.cfg.entry, d.node) or set(), depth + 1)
            common = es if common is None else (common & es)
        out |= common or set()
    return out
