"""C06: the atomic-construct tables agree with each other and cover the construct families of the statement."""

from __future__ import annotations

import ast
import re

from ..cfg import walk_no_nested
from ..constfold import Folder, Record, RegexConst, Unknown
from ..dataflow import origins
from ..loader import AnalysisError, ConstInfo, FuncInfo
from ..regexlang import Regex
from ..report import Ctx
from .common import call_name, deep_origins, factory_closure, norm, where
from .wrap import TH

AP = "flowmark.linewrapping.atomic_patterns"

# construct families named in the statement of C06, each with constant sample spellings
FAMILIES = {
    "template tag {% %}": ["{% tag %}", "{% /tag %}", "{% a b=\"c d\" %}"],
    "template comment {# #}": ["{# note #}"],
    "template variable {{ }}": ["{{ var }}", "{{ a | b }}"],
    "HTML comment": ["<!-- c -->", "<!-- /c -->"],
    "inline HTML tag": ["<b>", "</b>", "<a href=\"x y\">"],
    "code span": ["`c d`", "``a ` b``"],
    "link": ["[t u](http://x)", "[t u][ref]", "[t u]"],
    "paired tags": ["{% f %}{% /f %}", "<!-- f --><!-- /f -->", "{{ f }}{{ /f }}", "{# f #}{# /f #}"],
}


def _records(ctx: Ctx) -> tuple[Folder, dict[str, Record], tuple]:
    repo = ctx.repo
    folder = Folder(repo)
    mod = repo.module(AP)
    recs: dict[str, Record] = {}
    for name, d in mod.defs.items():
        if isinstance(d, ConstInfo):
            try:
                v = folder.const(d.qual)
            except Unknown:
                continue
            if isinstance(v, Record) and v.cls.endswith(":AtomicPattern"):
                recs[name] = v
    try:
        table = folder.const(f"{AP}:ATOMIC_PATTERNS")
    except Unknown as e:
        raise AnalysisError(f"ATOMIC_PATTERNS cannot be folded: {e}") from e
    if not isinstance(table, tuple):
        raise AnalysisError("ATOMIC_PATTERNS is not a tuple")
    return folder, recs, table


def check_tables(ctx: Ctx) -> None:
    repo = ctx.repo
    folder, recs, table = _records(ctx)
    mod = repo.module(AP)
    ctx.note("atomic_pattern_records", sorted(recs))
    ctx.require("R-ATOMIC", "AtomicPattern records", len(recs), 6)
    order = [r.fields.get("name") for r in table if isinstance(r, Record)]
    by_const = {r.fields.get("name"): n for n, r in recs.items()}
    # every record is in the table
    for n, r in sorted(recs.items()):
        ctx.ob("R-ATOMIC-table", f"{AP}:ATOMIC_PATTERNS contains {n}", r.fields.get("name") in order,
               f"the AtomicPattern {n} is defined but not part of ATOMIC_PATTERNS, so the word splitter does not keep it together",
               where(mod, mod.defs[n].assigns[0]))
    # the combined pattern is the alternation of all entries, in table order, with DOTALL
    try:
        comb = folder.const(f"{AP}:ATOMIC_CONSTRUCT_PATTERN")
    except Unknown as e:
        raise AnalysisError(f"ATOMIC_CONSTRUCT_PATTERN cannot be folded: {e}") from e
    expect = "|".join(str(r.fields.get("pattern")) for r in table if isinstance(r, Record))
    ctx.ob("R-ATOMIC-table", f"{AP}:ATOMIC_CONSTRUCT_PATTERN == '|'.join(entries)", isinstance(comb, RegexConst) and comb.pattern == expect,
           "the pattern used by the splitter must be the alternation of every table entry, in table order", where(mod, mod.defs["ATOMIC_CONSTRUCT_PATTERN"].assigns[0]))
    ctx.ob("R-ATOMIC-table", f"{AP}:ATOMIC_CONSTRUCT_PATTERN uses DOTALL", isinstance(comb, RegexConst) and bool(comb.flags & re.DOTALL),
           "tags and comments may span lines inside a paragraph: `.` must match newlines", where(mod, mod.defs["ATOMIC_CONSTRUCT_PATTERN"].assigns[0]))
    # each paired pattern precedes its single pattern (alternation is ordered)
    for n in sorted(recs):
        if n.startswith("PAIRED_"):
            s = "SINGLE_" + n[len("PAIRED_"):]
            if s in recs:
                a, b = recs[n].fields.get("name"), recs[s].fields.get("name")
                ok = a in order and b in order and order.index(a) < order.index(b)
                ctx.ob("R-ATOMIC-table", f"{AP}:ATOMIC_PATTERNS orders {n} before {s}", ok,
                       "a paired construct `{% f %}{% /f %}` must be tried before the single tag, or the pair is split into two words", where(mod, mod.defs["ATOMIC_PATTERNS"].assigns[0]))
    # delimiter consistency of the delimiter-based records
    for n, r in sorted(recs.items()):
        od, cd, ore, cre, pat = (r.fields.get(k) for k in ("open_delim", "close_delim", "open_re", "close_re", "pattern"))
        if not od:
            continue
        ok_re = _literal_of(ore) == od and _literal_of(cre) == cd
        ok_pat = isinstance(pat, str) and pat.startswith(str(ore)) and pat.endswith(str(cre))
        ctx.ob("R-ATOMIC-delims", f"{AP}:{n} :: delimiters", ok_re and ok_pat,
               f"open_re/close_re must be the escaped spelling of {od!r}/{cd!r} and the pattern must start/end with them "
               f"(open_re={ore!r}, close_re={cre!r})", where(mod, mod.defs[n].assigns[0]))
    # families of the statement are covered by some entry
    autos = []
    for r in table:
        if isinstance(r, Record):
            try:
                autos.append((r.fields.get("name"), Regex(str(r.fields.get("pattern")), re.DOTALL).glushkov()))
            except ValueError as e:
                raise AnalysisError(f"atomic pattern {r.fields.get('name')}: {e}") from e
    for fam, samples in FAMILIES.items():
        for s in samples:
            hit = [nm for nm, a in autos if a.accepts(s)]
            ctx.ob("R-ATOMIC-family", f"{AP} :: {fam} :: {s}", bool(hit),
                   f"the construct `{s}` must be matched as a whole by an entry of ATOMIC_PATTERNS (matched by: {hit})", where(mod, mod.defs["ATOMIC_PATTERNS"].assigns[0]))
    # the derived tag regexes of tag_handling are built from the four SINGLE_/PAIRED_ families
    th = repo.module(TH)
    singles = [recs[n] for n in ("SINGLE_JINJA_TAG", "SINGLE_JINJA_COMMENT", "SINGLE_JINJA_VAR", "SINGLE_HTML_COMMENT") if n in recs]
    paireds = [recs[n] for n in ("PAIRED_JINJA_TAG", "PAIRED_JINJA_COMMENT", "PAIRED_JINJA_VAR", "PAIRED_HTML_COMMENT") if n in recs]
    ctx.require("R-ATOMIC", "single/paired tag families", len(singles) + len(paireds), 4)
    from .. import anchors

    expect_map = {
        "TEMPLATE_TAG_PATTERN": ("|".join(str(r.fields["pattern"]) for r in singles), re.DOTALL),
        "PAIRED_TAGS_PATTERN": ("|".join(str(r.fields["pattern"]) for r in paireds), re.DOTALL),
        # the two private patterns, found as what the public normalize / denormalize functions substitute with
        anchors.sub_pattern_of(ctx, f"{TH}:normalize_adjacent_tags"): ("|".join(f"({r.fields['close_re']})({r.fields['open_re']})" for r in singles), 0),
        anchors.sub_pattern_of(ctx, f"{TH}:denormalize_adjacent_tags"): ("|".join(f"({r.fields['close_re']}) ({r.fields['open_re']})" for r in singles), 0),
    }
    labels = {anchors.sub_pattern_of(ctx, f"{TH}:normalize_adjacent_tags"): f"{TH} :: adjacent-tags pattern (normalize)",
              anchors.sub_pattern_of(ctx, f"{TH}:denormalize_adjacent_tags"): f"{TH} :: adjacent-tags pattern (denormalize)"}
    for name, (pat, fl) in expect_map.items():
        cq = name if ":" in name else f"{TH}:{name}"
        try:
            v = folder.const(cq)
        except Unknown as e:
            raise AnalysisError(f"{cq}: {e}") from e
        ok = isinstance(v, RegexConst) and v.pattern == pat and (v.flags & fl) == fl
        ctx.ob("R-ATOMIC-derived", labels.get(name, cq), ok,
               "must be built from all four tag families ({% %}, {# #}, {{ }}, <!-- -->) of the atomic pattern table", _where_const(ctx, th, cq.partition(":")[2]))
    # _is_closing_tag literals = open_delim + " /" for each family
    ict = anchors.closing_tag_predicate(ctx)
    if ict is None:
        raise AnalysisError("anchor vanished: the closing-tag predicate of tag_handling (a one-parameter function testing `<open delimiter> /` prefixes)")
    # (the prefixes tested in that function itself; when the predicate is written out inside the spacing fix, its other
    # prefix tests - block-content markers - are not closing-tag spellings)
    direct = _affix_tests(ctx, folder, ict, depth=3)["startswith"]
    lits = sorted(s_ for s_ in direct if s_.endswith("/")) or sorted(_affix_tests(ctx, folder, ict)["startswith"])
    want = sorted(str(r.fields["open_delim"]) + " /" for r in singles)
    ctx.ob("R-ATOMIC-derived", f"{ict.qual} :: closing-tag spellings", lits == want,
           f"a closing tag is `<open delimiter> /...` for each of the four families: expected {want}, found {lits}", where(ict, ict.node))
    # tag predicates consult all four families
    # (decided on the delimiter *strings* each predicate compares against with startswith / endswith, read through
    # module constants and helper predicates - not on how the comparison is spelled)
    opens = {str(r.fields["open_delim"]) for r in singles}
    closes = {str(r.fields["close_delim"]) for r in singles}
    for fn, need_open, need_close in (("line_ends_with_tag", False, True), ("line_starts_with_tag", True, False), (None, True, True)):
        f = repo.func(f"{TH}:{fn}") if fn else anchors.tag_only_line_predicate(ctx)
        got = _affix_tests(ctx, folder, f)
        ok = (not need_open or opens <= got["startswith"]) and (not need_close or closes <= got["endswith"])
        ctx.ob("R-ATOMIC-derived", f"{f.qual} :: all four tag families", ok,
               f"the predicate must test every tag family ({sorted(opens) if need_open else ''} {sorted(closes) if need_close else ''}); "
               f"it tests startswith {sorted(got['startswith'])} / endswith {sorted(got['endswith'])}", where(f, f.node))


def _where_const(ctx: Ctx, mod, name: str) -> str:
    """Location of a module constant - where it is defined, also when the module only imports it."""
    d = mod.defs.get(name)
    if isinstance(d, ConstInfo) and d.assigns:
        return where(mod, d.assigns[0])
    r = ctx.repo.lookup(name, mod, None)
    if isinstance(r, ConstInfo) and r.assigns:
        return where(r.module, r.assigns[0])
    return str(mod.path.name)


def _fold_strs(ctx: Ctx, folder: Folder, fi: FuncInfo, e: ast.AST, bind: dict[str, list[ast.AST]] | None = None) -> set[str] | None:
    """The constant string(s) an expression denotes: "x", CONST, RECORD.field, or a tuple of those. `bind` maps loop /
    comprehension variables to the literal elements they range over (`for pattern in (A, B): ... pattern.close_delim`)."""
    if isinstance(e, ast.Constant) and isinstance(e.value, str):
        return {e.value}
    if bind:
        root = e.value if isinstance(e, ast.Attribute) else e
        if isinstance(root, ast.Name) and root.id in bind:
            out_b: set[str] = set()
            for el in bind[root.id]:
                sub = ast.Attribute(value=el, attr=e.attr, ctx=ast.Load()) if isinstance(e, ast.Attribute) else el
                v = _fold_strs(ctx, folder, fi, sub)
                if v is None:
                    return None
                out_b |= v
            return out_b
    if isinstance(e, ast.Tuple):
        out: set[str] = set()
        for x in e.elts:
            v = _fold_strs(ctx, folder, fi, x)
            if v is None:
                return None
            out |= v
        return out
    if isinstance(e, ast.Attribute) and isinstance(e.value, ast.Name):
        r = ctx.repo.lookup(e.value.id, fi.module, fi)
        if isinstance(r, ConstInfo):
            try:
                v = folder.const(r.qual)
            except Unknown:
                return None
            if isinstance(v, Record) and isinstance(v.fields.get(e.attr), str):
                return {v.fields[e.attr]}
        return None
    if isinstance(e, ast.Name):
        r = ctx.repo.lookup(e.id, fi.module, fi)
        if isinstance(r, ConstInfo):
            try:
                v = folder.const(r.qual)
            except Unknown:
                return None
            if isinstance(v, str):
                return {v}
            if isinstance(v, tuple) and all(isinstance(x, str) for x in v):
                return set(v)
    return None


def _affix_tests(ctx: Ctx, folder: Folder, f: FuncInfo, depth: int = 0, seen: set[str] | None = None) -> dict[str, set[str]]:
    """Constant prefixes / suffixes the function (and the module-local helpers it calls) tests with startswith / endswith."""
    seen = seen if seen is not None else set()
    out: dict[str, set[str]] = {"startswith": set(), "endswith": set()}
    if f.qual in seen or depth > 3:
        return out
    seen.add(f.qual)
    # loop / comprehension variables ranging over a literal tuple or list (possibly behind a module constant)
    bind: dict[str, list[ast.AST]] = {}
    for x in ast.walk(f.node):
        tgt, it = None, None
        if isinstance(x, ast.comprehension) or isinstance(x, ast.For):
            tgt, it = x.target, x.iter
        if isinstance(tgt, ast.Name) and it is not None:
            if isinstance(it, ast.Name):
                r = ctx.repo.lookup(it.id, f.module, f)
                if isinstance(r, ConstInfo) and isinstance(r.value, (ast.Tuple, ast.List)):
                    it = r.value
            if isinstance(it, (ast.Tuple, ast.List)):
                bind[tgt.id] = list(it.elts)
            else:
                # a constant computed at import time (`tuple(kind.open_delim for kind in _TAG_KINDS)`): folded to its value
                try:
                    v_ = folder.eval(it, f.module, {}, f)
                except Exception:  # noqa: BLE001
                    v_ = None
                if isinstance(v_, (tuple, list)) and v_ and all(isinstance(e_, str) for e_ in v_):
                    bind[tgt.id] = [ast.Constant(value=e_) for e_ in v_]
    for c in walk_no_nested(f.node):
        if not isinstance(c, ast.Call):
            continue
        if isinstance(c.func, ast.Attribute) and c.func.attr in out and len(c.args) >= 1:
            v = _fold_strs(ctx, folder, f, c.args[0], bind)
            if v is not None:
                out[c.func.attr] |= v
            continue
        t = ctx.prog.resolve_call(f, c)
        if isinstance(t, list) and len(t) == 1 and not isinstance(t[0].node, ast.Lambda):
            sub = _affix_tests(ctx, folder, t[0], depth + 1, seen)
            for k in out:
                out[k] |= sub[k]
    return out


def _literal_of(pattern) -> str | None:
    """The single string a pure-literal regex matches."""
    if not isinstance(pattern, str):
        return None
    try:
        from ..regexlang import sre_parse

        t = list(sre_parse.parse(pattern))
    except Exception:  # noqa: BLE001
        return None
    if all(str(op) == "LITERAL" for op, _ in t):
        return "".join(chr(av) for _, av in t)
    return None


def check_preprocess_stateless(ctx: Ctx) -> None:
    """preprocess_tag_block_spacing decides per line from that line and its neighbours: it carries no mode from line to line
    (its only memory is the output list it appends to)."""
    from .common import unexpected_carried

    repo, prog = ctx.repo, ctx.prog
    pp = repo.func(f"{TH}:preprocess_tag_block_spacing")
    flow = prog.flow(pp)
    loops = [h for h in flow.cfg.nodes if h.kind == "for"]
    for h in loops:
        carried, allowed = unexpected_carried(prog, pp, h, neighbour_registers=True)
        bad = sorted(carried - allowed)
        ctx.ob("R-ATOMIC-pre", f"{pp.qual} :: no mode is carried from line to line", not bad,
               "blank lines around tag-delimited blocks are decided from the current line and its neighbours; a flag that persists across lines "
               f"(e.g. a hand-rolled 'inside a code fence' tracker) makes the treatment of a block depend on unrelated text far above it; carried: {bad or 'none'}",
               where(pp, h))


def check_continuation_test(ctx: Ctx) -> None:
    """_fix_multiline_opening_tag_with_closing splits `... %}{% /tag %}` only on lines that continue a tag opened on an earlier
    line. Whether a line itself starts a tag is a question about the tag openers after its indentation - an indented line that
    starts with a paired tag (inside a list item) is not a continuation."""
    repo, prog = ctx.repo, ctx.prog
    from .. import anchors

    fm = anchors.multiline_tag_fix(ctx)
    flow = prog.flow(fm)
    folder, recs, _t = _records(ctx)
    opens = {str(r.fields["open_delim"]) for n, r in recs.items() if n.startswith("SINGLE_") and r.fields.get("open_delim")}
    searches = [n for n, c in flow.all_calls() if isinstance(c.func, ast.Attribute) and c.func.attr in ("search", "match", "finditer")
                and isinstance(ctx.repo.resolve_expr(c.func.value, fm.module, fm), ConstInfo)]
    for sn in searches:
        from .common import guard_atoms

        for a, truth, b in guard_atoms(prog, fm, sn):
            sl = prog.slice(fm, a, b, control=True)  # what decides the value, not only what it is copied from
            callees = {q for q in sl.callees() if q in repo.functions}
            tested: set[str] = set()
            indent_sensitive = any(op == ".isspace()" for op, _ in sl.ops)
            # prefixes tested directly in the function on the way to this guard, plus those of the predicates it calls
            for d in sl.defs:
                if d.value is not None:
                    for c in ast.walk(d.value):
                        if isinstance(c, ast.Call) and isinstance(c.func, ast.Attribute) and c.func.attr == "startswith" and c.args:
                            v = _fold_strs(ctx, folder, fm, c.args[0])
                            tested |= v or set()
            for q in callees:
                got = _affix_tests(ctx, folder, repo.functions[q])
                tested |= got["startswith"]
                for c in ast.walk(repo.functions[q].node):
                    if isinstance(c, ast.Call) and isinstance(c.func, ast.Attribute) and c.func.attr == "isspace":
                        indent_sensitive = True
            if not (tested & opens):
                continue  # not the tag-start test
            ctx.ob("R-ATOMIC-cont", f"{fm.qual} :: tag-start test of the continuation check", opens <= tested and not indent_sensitive,
                   "a line is a continuation unless it starts (after its indentation) with one of the four tag openers; the test looks at "
                   f"{sorted(tested)}" + (" and at the line's indentation (isspace): an indented line that begins with a paired tag would be split" if indent_sensitive else ""),
                   where(fm, b))


def check_post_passes(ctx: Ctx) -> None:
    """The tag post-passes run on every exit of the tag newline handler."""
    repo, prog = ctx.repo, ctx.prog
    fac = repo.func(f"{TH}:add_tag_newline_handling")
    w = factory_closure(prog, fac)
    flow = prog.flow(w)
    from .. import anchors

    fm_q = anchors.multiline_tag_fix(ctx).qual
    fc_q = anchors.closing_tag_spacing_fix(ctx).qual
    rets = flow.cfg.returns()
    ctx.require("R-ATOMIC-post", "returns of the tag newline handler", len(rets), 1)
    from .common import reachable_functions as _reach

    if fm_q not in _reach(prog, [w]):
        raise AnalysisError("the multi-line tag fix is not called (as a function) from the tag newline handler: the post-pass cannot be located")
    for r in rets:
        org = deep_origins(prog, w, r.ast.value, r, stop={fm_q})
        ctx.ob("R-ATOMIC-post", f"{w.qual} :: {norm(r.ast)} passes the multi-line tag fix", org == frozenset({("call", fm_q)}),
               "every result of the handler must go through _fix_multiline_opening_tag_with_closing; it is " + ", ".join(str(o[1]) for o in org),
               where(w, r))
    # the multi-segment join passes the closing-tag fix (the join of the list the handler appends its segments to)
    appended = {c.func.value.id for _n, c in flow.all_calls() if isinstance(c.func, ast.Attribute) and c.func.attr in ("append", "extend")
                and isinstance(c.func.value, ast.Name)}
    joins = [n for n in flow.cfg.nodes if n.kind == "stmt" and isinstance(n.ast, ast.Assign) and isinstance(n.ast.value, ast.Call)
             and isinstance(n.ast.value.func, ast.Attribute) and n.ast.value.func.attr == "join" and len(n.ast.value.args) == 1
             and isinstance(n.ast.value.args[0], ast.Name) and (n.ast.value.args[0].id in appended or (
                 # ... or of what a helper of the package produced (a generator of parts, a list built elsewhere)
                 isinstance(n.ast.value.func.value, ast.Constant) and n.ast.value.func.value.value == "\n"
                 and any(d.kind == "assign" and isinstance(d.value, ast.Call) and isinstance(prog.resolve_call(w, d.value), list)
                         for d in flow.reaching(n, n.ast.value.args[0].id))))]
    fcs = [n for n, c in flow.all_calls() if call_name(prog, w, c) == fc_q]
    for j in joins:
        # (a return that applies the fix itself - `return outer(fix(result))` - passes it as well)
        ok = bool(fcs) and all(r in fcs or flow.cfg.path_avoiding(j, r, set(fcs)) is None for r in rets if flow.cfg.path_avoiding(j, r, set()) is not None)
        ctx.ob("R-ATOMIC-post", f"{w.qual} :: joined segments pass the closing-tag fix", ok,
               "after the segments are rejoined, closing tags must be un-indented / separated (_fix_closing_tag_spacing) on every path to the return",
               where(w, j))
    ctx.require("R-ATOMIC-post", "segment join in the tag newline handler", len(joins), 1)


def check_block_heuristics_indent_free(ctx: Ctx) -> None:
    """The list / table-row heuristics are applied to lines *inside containers* (a list item nested three levels deep starts
    at column 4 or more; a quote adds its own prefix). They may therefore look at a line only after its leading whitespace is
    gone: every use of the raw line parameter is `.lstrip()` / `.strip()`, a hand-off to a sibling heuristic, or a plain
    emptiness test. A test on the indentation itself (CommonMark's "4 columns = code" rule) is wrong here - the blank line
    that keeps a closing tag out of the preceding list item would be dropped for deep items."""
    repo, prog = ctx.repo, ctx.prog
    mod = "flowmark.linewrapping.block_heuristics"
    fns = [f for f in repo.functions.values() if f.module.name == mod and f.parent is None and f.cls is None and f.name.startswith("line_is_")
           and not isinstance(f.node, ast.Lambda) and len(f.params) == 1]
    ctx.require("R-ATOMIC-block", "line heuristics of block_heuristics", len(fns), 2)
    quals = {f.qual for f in fns}
    for f in fns:
        p = f.params[0]
        bad: list[str] = []
        flow = prog.flow(f)
        from ..loader import parent

        for x in ast.walk(f.node):
            if not (isinstance(x, ast.Name) and x.id == p and isinstance(x.ctx, ast.Load)):
                continue
            # the parameter must still be the raw line here (not re-bound)
            par = parent(x)
            if isinstance(par, ast.Attribute) and par.attr in ("lstrip", "strip") and isinstance(parent(par), ast.Call):
                continue
            if isinstance(par, ast.Call) and x in par.args:
                t = prog.resolve_call(f, par)
                if isinstance(t, list) and len(t) == 1 and t[0].qual in quals:
                    continue  # handed to a sibling heuristic, which is under the same rule
            if isinstance(par, (ast.If, ast.While, ast.BoolOp)) or (isinstance(par, ast.UnaryOp) and isinstance(par.op, ast.Not)):
                continue  # emptiness test
            bad.append(norm(par)[:50] if par is not None else p)
        ctx.ob("R-ATOMIC-block", f"{f.qual} :: looks at the line only after its indentation is removed", not bad,
               "block heuristics run on lines inside nested containers, whose indentation is the container's, not the block's; the raw line is used in "
               f"{bad or 'nothing but lstrip()/strip()'}", where(f, f.node))
