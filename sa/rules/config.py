"""R-CONFIG (C16): the precedence tables of cli.py and config.py agree."""

from __future__ import annotations

import ast
import itertools

from ..argmodel import ArgSpec, parsers_in
from ..cfg import Node, walk_no_nested
from ..dataflow import bind_call, fmt_origin, origins
from ..decide import expand_expr
from ..loader import AnalysisError, ClassInfo, ConstInfo, FuncInfo
from ..report import Ctx
from .common import all_guards, call_name, direct_guards, must_atoms, norm, where
from .optflow import AUTO_SET, _bind_dataclass, _is_options_origin, find_parse_args

# from the statement of C16: ".flowmark.toml before flowmark.toml before a pyproject.toml that has a [tool.flowmark] table"
CONFIG_FILENAMES = [".flowmark.toml", "flowmark.toml", "pyproject.toml"]


def dataclass_fields(ci: ClassInfo) -> list[str]:
    return [st.target.id for st in ci.node.body if isinstance(st, ast.AnnAssign) and isinstance(st.target, ast.Name)]


def _tracked_flags(ctx: Ctx, fi: FuncInfo, option_fields: list[str]) -> tuple[dict[str, str], ast.AST]:
    """dest -> name recorded in the explicit-flags set, from the loop that fills that set.

    Shapes understood: `for dest, field in TABLE.items(): ... S.add(field)` (dict literal) and
    `for dest in TABLE: ... S.add(dest)` (tuple / list / set literal of dest names)."""
    prog = ctx.prog
    flow = prog.flow(fi)
    # the set that is returned as element 1 of the result tuple
    set_names: set[str] = set()
    for r in flow.cfg.returns():
        v = r.ast.value
        if isinstance(v, ast.Tuple) and len(v.elts) >= 2 and isinstance(v.elts[1], ast.Name):
            set_names.add(v.elts[1].id)
    if not set_names:
        raise AnalysisError("anchor vanished: the parser function no longer returns (options, explicit_flags, is_auto)")
    # names the set is copied from (explicit_flags = flags_found)
    changed = True
    while changed:
        changed = False
        for n in flow.cfg.nodes:
            if n.kind == "stmt" and isinstance(n.ast, (ast.Assign, ast.AnnAssign)) and isinstance(getattr(n.ast, "value", None), ast.Name):
                tg = n.ast.targets[0] if isinstance(n.ast, ast.Assign) else n.ast.target
                if isinstance(tg, ast.Name) and tg.id in set_names and n.ast.value.id not in set_names:
                    set_names.add(n.ast.value.id)
                    changed = True
    out: dict[str, str] = {}
    table_node: ast.AST | None = None
    adds = [(n, c) for n, c in flow.all_calls() if isinstance(c.func, ast.Attribute) and c.func.attr == "add"
            and isinstance(c.func.value, ast.Name) and c.func.value.id in set_names and c.args]
    if not adds:
        # the set may be built in one expression: {field for dest, field in TABLE.items() if <supplied>}
        for n in flow.cfg.nodes:
            if n.kind == "stmt" and isinstance(n.ast, (ast.Assign, ast.AnnAssign)) and isinstance(getattr(n.ast, "value", None), ast.SetComp):
                tg = n.ast.targets[0] if isinstance(n.ast, ast.Assign) else n.ast.target
                sc = n.ast.value
                if isinstance(tg, ast.Name) and tg.id in set_names and len(sc.generators) == 1 and isinstance(sc.elt, ast.Name):
                    g = sc.generators[0]
                    it = g.iter
                    table_expr = it.func.value if isinstance(it, ast.Call) and isinstance(it.func, ast.Attribute) and it.func.attr == "items" else it
                    lit = _table_literal(ctx, fi, flow, table_expr, n)
                    if isinstance(lit, ast.Dict) and isinstance(g.target, ast.Tuple) and len(g.target.elts) == 2:
                        kname, vname = (e.id if isinstance(e, ast.Name) else None for e in g.target.elts)
                        for k, v in zip(lit.keys, lit.values):
                            if isinstance(k, ast.Constant) and isinstance(v, ast.Constant):
                                out[k.value] = v.value if sc.elt.id == vname else (k.value if sc.elt.id == kname else "?")
                        return out, lit
                    if isinstance(lit, (ast.Tuple, ast.List, ast.Set)) and isinstance(g.target, ast.Name):
                        for e in lit.elts:
                            if isinstance(e, ast.Constant) and isinstance(e.value, str):
                                out[e.value] = e.value if sc.elt.id == g.target.id else "?"
                        return out, lit
        raise AnalysisError("anchor vanished: nothing is ever added to the explicit-flags set")
    for n, c in adds:
        arg = c.args[0]
        if isinstance(arg, ast.Constant) and isinstance(arg.value, str):
            out[arg.value] = arg.value
            continue
        if isinstance(arg, ast.Attribute) and isinstance(arg.value, ast.Name):
            # a table of small records: for flag in TABLE: ... getattr(ns, flag.dest, S) ... S.add(flag.option_field)
            loops_ = [h for h in flow.cfg.nodes if h.kind == "for" and n in flow.loop_body_nodes(h) and isinstance(h.ast.target, ast.Name) and h.ast.target.id == arg.value.id]
            done = False
            for h in loops_[-1:]:
                lit = _table_literal(ctx, fi, flow, h.ast.iter, h)
                dest_attr = None
                for m_ in flow.loop_body_nodes(h):
                    for c2 in flow.calls_in(m_):
                        if isinstance(c2.func, ast.Name) and c2.func.id == "getattr" and len(c2.args) >= 2 and isinstance(c2.args[1], ast.Attribute) \
                                and isinstance(c2.args[1].value, ast.Name) and c2.args[1].value.id == arg.value.id:
                            dest_attr = c2.args[1].attr
                if isinstance(lit, (ast.Tuple, ast.List)) and dest_attr is not None:
                    for e in lit.elts:
                        if not isinstance(e, ast.Call):
                            continue
                        ci = ctx.repo.resolve_expr(e.func, fi.module, fi) if isinstance(e.func, (ast.Name, ast.Attribute)) else None
                        if not isinstance(ci, ClassInfo):
                            continue
                        fields_ = dataclass_fields(ci)
                        vals_ = {f_: a for f_, a in zip(fields_, e.args)}
                        vals_.update({k.arg: k.value for k in e.keywords if k.arg})
                        d_, f_ = vals_.get(dest_attr), vals_.get(arg.attr)
                        if isinstance(d_, ast.Constant) and isinstance(f_, ast.Constant):
                            out[d_.value] = f_.value
                            done = True
                    table_node = lit
            if done:
                continue
        if not isinstance(arg, ast.Name):
            raise AnalysisError(f"explicit-flags entry `{norm(arg)}` is not a loop variable or a constant")
        loops = [h for h in flow.cfg.nodes if h.kind == "for" and n in flow.loop_body_nodes(h)]
        if not loops:
            raise AnalysisError("explicit-flags entries are not added inside a loop over a table")
        h = max(loops, key=lambda x: x.id)
        it = h.ast.iter
        tgt = h.ast.target
        table_expr = it.func.value if isinstance(it, ast.Call) and isinstance(it.func, ast.Attribute) and it.func.attr == "items" else it
        lit = _table_literal(ctx, fi, flow, table_expr, h)
        table_node = lit
        if isinstance(lit, ast.Dict) and isinstance(tgt, ast.Tuple) and len(tgt.elts) == 2:
            kname, vname = (e.id if isinstance(e, ast.Name) else None for e in tgt.elts)
            for k, v in zip(lit.keys, lit.values):
                if isinstance(k, ast.Constant) and isinstance(v, ast.Constant):
                    out[k.value] = v.value if arg.id == vname else (k.value if arg.id == kname else "?")
        elif isinstance(lit, (ast.Tuple, ast.List, ast.Set)) and isinstance(tgt, ast.Name):
            for e in lit.elts:
                if isinstance(e, ast.Constant) and isinstance(e.value, str):
                    out[e.value] = e.value if arg.id == tgt.id else "?"
        else:
            raise AnalysisError(f"explicit-flag table shape not understood: {norm(lit)[:60]}")
    if table_node is None:
        table_node = adds[0][1]
    return out, table_node


def _fields_comprehension(ctx: Ctx, fi: FuncInfo, e: ast.AST) -> ast.AST:
    """`[f.name for f in fields(Cls)]` over a dataclass of the package, written out as the list of its field names
    (`{f.name: f.name for f in fields(Cls)}` as the dict)."""
    if isinstance(e, ast.Call) and isinstance(e.func, ast.Name) and e.func.id in ("list", "tuple", "set", "frozenset", "sorted") and len(e.args) == 1:
        e = e.args[0]
    if not (isinstance(e, (ast.ListComp, ast.SetComp, ast.GeneratorExp, ast.DictComp)) and len(e.generators) == 1 and not e.generators[0].ifs):
        return e
    g = e.generators[0]
    it = g.iter
    if not (isinstance(g.target, ast.Name) and isinstance(it, ast.Call) and len(it.args) == 1 and not it.keywords
            and norm(it.func) in ("fields", "dataclasses.fields")):
        return e
    ci = ctx.repo.resolve_expr(it.args[0], fi.module, fi) if isinstance(it.args[0], (ast.Name, ast.Attribute)) else None
    if not isinstance(ci, ClassInfo):
        return e

    def is_name(x: ast.AST) -> bool:
        return isinstance(x, ast.Attribute) and x.attr == "name" and isinstance(x.value, ast.Name) and x.value.id == g.target.id

    names = [ast.Constant(value=f) for f in dataclass_fields(ci)]
    if isinstance(e, ast.DictComp):
        if is_name(e.key) and is_name(e.value):
            return ast.copy_location(ast.Dict(keys=list(names), values=list(names)), e)
        return e
    if is_name(e.elt):
        return ast.copy_location(ast.List(elts=names, ctx=ast.Load()), e)
    return e


def _table_literal(ctx: Ctx, fi: FuncInfo, flow, table_expr: ast.AST, at: Node) -> ast.AST:
    """The literal behind the explicit-flag table: written in place, bound to a local, or a module-level constant."""
    return _fields_comprehension(ctx, fi, _table_literal0(ctx, fi, flow, table_expr, at))


def _table_literal0(ctx: Ctx, fi: FuncInfo, flow, table_expr: ast.AST, at: Node) -> ast.AST:
    if not isinstance(table_expr, ast.Name):
        return table_expr
    defs = flow.reaching(at, table_expr.id)
    if not defs:
        r = ctx.repo.lookup(table_expr.id, fi.module, fi)
        if not (isinstance(r, ConstInfo) and len(r.assigns) == 1 and getattr(r.assigns[0], "value", None) is not None):
            raise AnalysisError(f"explicit-flag table `{table_expr.id}` is neither a local nor a module-level literal")
        return r.assigns[0].value
    if len(defs) != 1 or defs[0].value is None:
        raise AnalysisError("explicit-flag table is not a single local literal")
    return defs[0].value


def check_config(ctx: Ctx) -> None:
    repo, prog = ctx.repo, ctx.prog
    cfg_cls = repo.cls("flowmark.config:FlowmarkConfig")
    opt_cls = repo.cls("flowmark.cli:Options")
    cfg_fields = dataclass_fields(cfg_cls)
    opt_fields = dataclass_fields(opt_cls)
    ctx.note("config_fields", cfg_fields)
    ctx.note("options_fields", len(opt_fields))
    ctx.require("R-CONFIG", "FlowmarkConfig fields", len(cfg_fields), 6)
    pa = find_parse_args(ctx)
    if pa.name == "main":
        raise AnalysisError("the argument parsers are built in main itself: there is no parse function whose result (options, explicit flags, "
                            "auto) the precedence rules could follow into the merge")
    pflow = prog.flow(pa)
    pms = parsers_in(repo, pa)
    from .optflow import split_parsers

    main_pm, sent_pm = split_parsers(pms)
    if sent_pm is None:
        raise AnalysisError("anchor vanished: the sentinel (explicit-flag) ArgumentParser was not found")
    ctx.note("argparse_arguments", {"main": len(main_pm.args), "sentinel": len(sent_pm.args)})
    main_dests = main_pm.by_dest()
    sent_dests = sent_pm.by_dest()

    # Options(...) bindings: field -> argparse dest it is read from
    opt_call = None
    opt_node = None
    for n, c in pflow.all_calls():
        r = repo.resolve_expr(c.func, pa.module, pa)
        if r is opt_cls:
            opt_call, opt_node = c, n
    if opt_call is None:
        raise AnalysisError("Options(...) construction not found")
    binding = _bind_dataclass(opt_fields, opt_call)
    field_dest: dict[str, tuple[str, bool]] = {}
    for f, expr in binding.items():
        org = origins(prog, pa, _strip_enum(ctx, pa, expr), opt_node)
        for o in org:
            neg = False
            if o[0] == "not":
                neg, o = True, o[1]
            if o[0] == "attr" and o[2] in main_dests:
                field_dest[f] = (o[2], neg)

    # ---- K1 every accepted config key has an effect
    main = repo.func("flowmark.cli:main")
    readers = [f for f in repo.functions.values() if f.module.name == "flowmark.cli" and f is not pa and not isinstance(f.node, ast.Lambda)]
    read_fields: dict[str, str] = {}
    for f in readers:
        flow = prog.flow(f)
        for n in flow.cfg.nodes:
            for ex in flow.node_exprs(n):
                for sub in walk_no_nested(ex):
                    if isinstance(sub, ast.Attribute) and isinstance(sub.ctx, ast.Load) and sub.attr in opt_fields:
                        for o in origins(prog, f, sub, n):
                            if o[0] == "attr" and _is_options_origin(ctx, o[1]):
                                read_fields.setdefault(sub.attr, f.qual)
    for f in cfg_fields:
        key = f"flowmark.config:FlowmarkConfig.{f}"
        ctx.ob("R-CONFIG-K1", key + " :: Options field", f in opt_fields,
               f"config key `{f}` is accepted without warning but Options has no such field: merge_cli_with_config skips it "
               f"silently (hasattr guard), so the key has no effect", where(cfg_cls, cfg_cls.node))
        ctx.ob("R-CONFIG-K1", key + " :: consumed after the merge", f in read_fields,
               f"config key `{f}` must be read from the merged options on the way to reformat_files / FileResolverConfig "
               f"(read in: {read_fields.get(f)})", where(cfg_cls, cfg_cls.node))

    # ---- K2 tracked flags cover every setting that has both a config key and a CLI flag
    tracked, tnode = _tracked_flags(ctx, pa, opt_fields)
    ctx.note("tracked_flags", tracked)
    for f in cfg_fields:
        if f in field_dest:
            dest, neg = field_dest[f]
            ctx.ob("R-CONFIG-K2", f"{pa.qual} :: explicit-flag table covers `{f}`", tracked.get(dest) == f,
                   f"setting `{f}` has a CLI flag (dest `{dest}`) and a config key; the explicit-flag table must map "
                   f"`{dest}` -> `{f}` or an explicitly passed flag loses against the config file (found: {tracked.get(dest)!r})",
                   where(pa, tnode))
    for dest, f in tracked.items():
        if dest not in main_dests and dest not in sent_dests and f == dest and f in cfg_fields and f not in field_dest:
            continue  # a config-only setting listed for completeness: no parser can ever supply it, the entry is inert
        ok = dest in main_dests and f in opt_fields and field_dest.get(f, (None, False))[0] == dest
        ctx.ob("R-CONFIG-K2", f"{pa.qual} :: table entry {dest}->{f}", ok,
               f"table entry must name an argparse dest of the main parser and the Options field that is read from it "
               f"(Options.{f} is read from {field_dest.get(f)})", where(pa, tnode))

    # ---- K3 main parser vs sentinel parser
    for dest in tracked:
        m: ArgSpec | None = main_dests.get(dest)
        s: ArgSpec | None = sent_dests.get(dest)
        key = f"{pa.qual} :: sentinel parser dest={dest}"
        if m is None and s is None:
            # a tracked name no parser declares (a config-only setting in a table derived from the config fields): it can
            # never be seen as explicit, which is what K2 wants for it - nothing to compare
            continue
        if m is None or s is None:
            ctx.ob("R-CONFIG-K3", key, False, f"dest `{dest}` must be declared in both parsers (main: {m is not None}, sentinel: {s is not None})",
                   where(pa, tnode))
            continue
        same_opts = set(m.option_strings) == set(s.option_strings)
        same_arity = m.takes_value == s.takes_value and (m.nargs == s.nargs)
        sentinel_default = s.default is not None and (s.default == "None" if m.action in ("append", "extend") else s.default not in ("None", "False", "True"))
        ctx.ob("R-CONFIG-K3", key, same_opts and same_arity and sentinel_default,
               f"the sentinel declaration must use the same option strings {sorted(m.option_strings)} (has {sorted(s.option_strings)}), "
               f"the same arity (main action={m.action}, sentinel action={s.action}) and a sentinel default (has {s.default})",
               where(pa, s.node))
    sent_shorts = {o for a in sent_pm.args for o in a.shorts}
    for a in main_pm.args:
        for sh in a.shorts:
            s = next((x for x in sent_pm.args if sh in x.option_strings), None)
            ok = s is not None and s.takes_value == a.takes_value
            ctx.ob("R-CONFIG-K3", f"{pa.qual} :: short option {sh} known to the sentinel parser", ok,
                   f"argparse clusters short options (`-pw 100`, `-ic`): `{sh}` (takes_value={a.takes_value}) must be declared in "
                   f"the sentinel parser with the same arity, otherwise a tracked flag clustered behind it is not seen as explicit",
                   where(pa, a.node))
    # both parsers read option strings the same way: constructor settings that change how argv is tokenised / matched
    # (abbreviations, prefix characters, @file expansion) must agree, else an option the main parser accepts is invisible
    # to the sentinel parser and a flag given on the command line is not recorded as explicit
    PARSING_KW = ("allow_abbrev", "prefix_chars", "fromfile_prefix_chars", "exit_on_error", "argument_default")
    DEFAULTS = {"allow_abbrev": "True", "prefix_chars": "'-'", "fromfile_prefix_chars": "None", "exit_on_error": "True", "argument_default": "None"}

    def ctor_kw(pm) -> dict[str, str]:
        d = dict(DEFAULTS)
        for k in pm.ctor.keywords:
            if k.arg in PARSING_KW:
                d[k.arg] = norm(k.value)
        return d
    mk, sk = ctor_kw(main_pm), ctor_kw(sent_pm)
    diff = {k: (mk[k], sk[k]) for k in ("allow_abbrev", "prefix_chars", "fromfile_prefix_chars") if mk[k] != sk[k]}
    ctx.ob("R-CONFIG-K3", f"{pa.qual} :: both parsers match option strings alike", not diff,
           "the sentinel parser must recognise every spelling the main parser accepts (abbreviated long options included); "
           f"constructor settings differ (main, sentinel): {diff}", where(pa, sent_pm.ctor))
    # both parsers see the same argv
    mp = main_pm.parse_calls
    sp = sent_pm.parse_calls
    ctx.ob("R-CONFIG-K3", f"{pa.qual} :: both parsers parse the same argv", len(mp) == 1 and len(sp) == 1 and _same_argv(ctx, pa, mp[0], sp[0]),
           "the sentinel parser must be run on the same argument list as the main parser", where(pa, sp[0] if sp else pa.node))

    # ---- K4 auto_locked == preset set
    merge = repo.func("flowmark.config:merge_cli_with_config")
    mflow = prog.flow(merge)
    locked = None
    for n in walk_no_nested(merge.node):
        v = _str_set(n)
        if v is None and isinstance(n, ast.Name) and isinstance(n.ctx, ast.Load) and not mflow.defs_of_var.get(n.id):
            # a module-level constant holding the set
            r = repo.lookup(n.id, merge.module, merge)
            if isinstance(r, ConstInfo) and len(r.assigns) == 1:
                v = _str_set(getattr(r.assigns[0], "value", None))
        if v is not None and not (isinstance(getattr(n, "_parent", None), ast.Call) and _str_set(getattr(n, "_parent", None)) is not None):
            locked = v
            lnode = n
    if locked is None:
        raise AnalysisError("anchor vanished: auto-locked set literal in merge_cli_with_config")
    ctx.ob("R-CONFIG-K4", f"{merge.qual} :: auto-locked set", locked == set(AUTO_SET),
           f"the fields the config file may not override under --auto are {sorted(locked)}; the preset fixes {sorted(AUTO_SET)}",
           where(merge, lnode))
    # ... and width / file discovery are *not* locked
    for f in cfg_fields:
        if f not in AUTO_SET:
            ctx.ob("R-CONFIG-K4", f"{merge.qual} :: `{f}` not locked by --auto", f not in locked,
                   f"`{f}` must still come from the config file under --auto", where(merge, lnode))

    # ---- K6 the three skip guards of the merge loop
    _check_merge_guards(ctx, merge, cfg_cls)

    # ---- K5 search order
    _check_find_config(ctx)

    # ---- K7 kebab table
    _check_kebab(ctx, cfg_fields)

    # ---- K8 main wires the merge before anything consumes the options
    _check_main_wiring(ctx, main, merge)


def _str_set(n: ast.AST | None) -> set[str] | None:
    """{"a", "b"} / frozenset({"a", "b"}) / set(["a", "b"]) as a Python set, else None."""
    if isinstance(n, ast.Call) and isinstance(n.func, ast.Name) and n.func.id in ("frozenset", "set") and len(n.args) == 1 and not n.keywords:
        n = n.args[0]
        if isinstance(n, (ast.List, ast.Tuple)) and n.elts and all(isinstance(e, ast.Constant) and isinstance(e.value, str) for e in n.elts):
            return {e.value for e in n.elts}  # type: ignore[attr-defined]
    if isinstance(n, ast.Set) and all(isinstance(e, ast.Constant) and isinstance(e.value, str) for e in n.elts):
        return {e.value for e in n.elts}  # type: ignore[attr-defined]
    return None


def _resolve_str_set(ctx: Ctx, fi: FuncInfo, e: ast.AST, node: Node) -> set[str] | None:
    """The constant set of strings `e` denotes: a literal, a local bound to one, or a module-level constant."""
    v = _str_set(e)
    if v is not None:
        return v
    if isinstance(e, ast.Name):
        flow = ctx.prog.flow(fi)
        defs = flow.reaching(node, e.id)
        if defs:
            vals = [_str_set(d.value) for d in defs]
            return vals[0] if len(vals) == 1 and vals[0] is not None else None
        r = ctx.repo.lookup(e.id, fi.module, fi)
        if isinstance(r, ConstInfo) and len(r.assigns) == 1:
            return _str_set(getattr(r.assigns[0], "value", None))
    return None


def _strip_enum(ctx: Ctx, fi: FuncInfo, expr: ast.AST) -> ast.AST:
    from .optflow import _through_enum

    return _through_enum(ctx, fi, expr)


def _same_argv(ctx: Ctx, fi: FuncInfo, a: ast.Call, b: ast.Call) -> bool:
    """main: parse_args(args) ; sentinel: parse_known_args(args if args is not None else sys.argv[1:])"""
    flow = ctx.prog.flow(fi)

    def names(c: ast.Call) -> set[str]:
        if not c.args:
            return {"<sys.argv>"}
        out = set()
        node = flow.node_of(c)
        arg = expand_expr(ctx.prog, fi, c.args[0], node) if node is not None else c.args[0]  # read through `argv = args if ... else ...`
        for s in ast.walk(arg):
            if isinstance(s, ast.Name):
                out.add(s.id)
        return out

    na, nb = names(a), names(b)
    pa_params = set(fi.params)
    return bool((na & pa_params) == (nb & pa_params)) and bool(na & pa_params or na == {"<sys.argv>"})


def _leaves(expr: ast.AST) -> list[ast.AST]:
    """Maximal non-boolean sub-expressions of a condition."""
    if isinstance(expr, ast.BoolOp):
        out: list[ast.AST] = []
        for v in expr.values:
            out += _leaves(v)
        return out
    if isinstance(expr, ast.UnaryOp) and isinstance(expr.op, ast.Not):
        return _leaves(expr.operand)
    return [expr]


def _eval_bool(expr: ast.AST, env: dict[str, bool]) -> bool:
    if isinstance(expr, ast.BoolOp):
        vals = [_eval_bool(v, env) for v in expr.values]
        return all(vals) if isinstance(expr.op, ast.And) else any(vals)
    if isinstance(expr, ast.UnaryOp) and isinstance(expr.op, ast.Not):
        return not _eval_bool(expr.operand, env)
    return env[ast.unparse(expr)]


def implied_by(cond: ast.AST, true_leaves: list[ast.AST]) -> bool:
    """cond is True under every assignment of its leaves that makes all `true_leaves` True."""
    leaves = {ast.unparse(l): l for l in _leaves(cond)}
    fixed = {ast.unparse(l) for l in true_leaves}
    free = [k for k in leaves if k not in fixed]
    for combo in itertools.product([False, True], repeat=len(free)):
        env = {k: True for k in fixed}
        env.update(dict(zip(free, combo)))
        if not _eval_bool(cond, env):
            return False
    return True


def _flags_as_formulas(prog, fi: FuncInfo, flow, head: Node, expr: ast.AST, at: Node, depth: int = 0) -> ast.AST:
    """A name that several assignments inside the loop body can have set (the result of a spliced predicate helper:
    `if v is None: ok = False ... else: ok = not (...)`) is replaced by the formula it stands for: the disjunction, over
    its definitions, of (the conditions under which that definition is the one that ran) and (the value it assigns)."""
    from ..cfg import must_edges as _must
    from ..inline import clone as _clone

    if depth > 2:
        return expr
    body = flow.loop_body_nodes(head)

    class _Sub(ast.NodeTransformer):
        def visit_Name(self, node: ast.Name):
            if not isinstance(node.ctx, ast.Load):
                return node
            ds = flow.reaching(at, node.id)
            if len(ds) < 2 or any(d.kind != "assign" or d.value is None or d.node not in body for d in ds):
                return node
            alts: list[ast.expr] = []
            for d in ds:
                conj: list[ast.expr] = []
                for b, lab in sorted(_must(flow.cfg, head, d.node) or set(), key=lambda x: x[0].id):
                    if b.kind != "test" or not isinstance(b.ast, ast.expr) or isinstance(b.owner, ast.While) and isinstance(b.ast, ast.Constant):
                        continue
                    c_ = _flags_as_formulas(prog, fi, flow, head, expand_expr(prog, fi, b.ast, b, strict=False), b, depth + 1)
                    conj.append(c_ if lab == "T" else ast.UnaryOp(op=ast.Not(), operand=c_))
                val = _flags_as_formulas(prog, fi, flow, head, expand_expr(prog, fi, d.value, d.node, strict=False), d.node, depth + 1)
                if isinstance(val, ast.Constant) and val.value is True:
                    term = conj
                elif isinstance(val, ast.Constant) and val.value is False:
                    continue
                else:
                    term = conj + [val]
                if not term:
                    return ast.copy_location(ast.Constant(value=True), node)
                alts.append(term[0] if len(term) == 1 else ast.BoolOp(op=ast.And(), values=term))
            if not alts:
                return ast.copy_location(ast.Constant(value=False), node)
            return ast.copy_location(alts[0] if len(alts) == 1 else ast.BoolOp(op=ast.Or(), values=alts), node)

    out = _Sub().visit(_clone(expr))
    ast.fix_missing_locations(out)
    return out


def _check_merge_guards(ctx: Ctx, merge: FuncInfo, cfg_cls: ClassInfo) -> None:
    prog = ctx.prog
    flow = prog.flow(merge)
    setattrs = [(n, c) for n, c in flow.all_calls() if isinstance(c.func, ast.Name) and c.func.id == "setattr"]
    ctx.require("R-CONFIG-K6", "setattr in merge_cli_with_config", len(setattrs), 1)
    if not setattrs:
        return
    sn, sc = setattrs[0]
    loops = [h for h in flow.cfg.nodes if h.kind == "for" and sn in flow.loop_body_nodes(h)]
    if not loops:
        raise AnalysisError("merge loop not found")
    head = loops[0]
    # the loop runs over fields(FlowmarkConfig)
    it = expand_expr(prog, merge, head.ast.iter, head, strict=False)
    if isinstance(it, ast.Name):
        # names = [f.name for f in fields(C)] ... for name in names
        ds_ = flow.reaching(head, it.id)
        if len(ds_) == 1 and ds_[0].kind == "assign" and isinstance(ds_[0].value, (ast.GeneratorExp, ast.ListComp)):
            it = ds_[0].value
    for _step in range(3):
        if isinstance(it, ast.Name) and it.id not in flow.defs_of_var:
            # a module-level table of the field names: _CONFIG_FIELD_NAMES = tuple(f.name for f in fields(FlowmarkConfig))
            r_ = ctx.repo.lookup(it.id, merge.module, merge)
            if isinstance(r_, ConstInfo) and r_.value is not None:
                it = r_.value
                continue
        if isinstance(it, ast.Call) and isinstance(it.func, ast.Name) and it.func.id in ("tuple", "list", "sorted") and len(it.args) == 1:
            it = it.args[0]
            continue
        break
    if isinstance(it, (ast.GeneratorExp, ast.ListComp)) and len(it.generators) == 1 and not it.generators[0].ifs:
        it = it.generators[0].iter  # (f.name for f in fields(C)): still one element per field
    ok_iter = isinstance(it, ast.Call) and call_name(prog, merge, it) == "dataclasses.fields" and it.args and \
        ctx.repo.resolve_expr(it.args[0], merge.module, merge) is cfg_cls
    ctx.ob("R-CONFIG-K6", f"{merge.qual} :: loop over all config fields", bool(ok_iter),
           "the merge must visit every field of FlowmarkConfig (fields(FlowmarkConfig))", where(merge, head))
    body = flow.loop_body_nodes(head)
    tests = [n for n in body if n.kind == "test"]
    # skip-guards: tests whose T-successor cannot reach the setattr within the iteration
    # (or whose F-successor cannot: `if a and b and not c: setattr(...)` skips under `not (a and b and not c)`); the skip
    # condition is kept as a formula over positive leaves: `x is not None` reads `not (x is None)`, `k not in s` reads `not (k in s)`
    class _Pos(ast.NodeTransformer):
        def visit_Compare(self, node: ast.Compare) -> ast.AST:
            if len(node.ops) == 1 and isinstance(node.ops[0], (ast.IsNot, ast.NotIn)):
                pos = ast.Compare(left=node.left, ops=[ast.Is() if isinstance(node.ops[0], ast.IsNot) else ast.In()], comparators=node.comparators)
                return ast.copy_location(ast.UnaryOp(op=ast.Not(), operand=ast.copy_location(pos, node)), node)
            return node

    class _Guard:
        def __init__(self, node: Node, cond: ast.AST) -> None:
            self.node, self.ast = node, cond
            self.kind, self.id, self.succ = node.kind, node.id, node.succ

    skip_guards = []
    for t in tests:
        for want_lab in ("T", "F"):
            succ_ = [s for s, lab in t.succ if lab == want_lab]
            if succ_ and sn not in flow.cfg.reachable_from(succ_[0], avoid={head}) and succ_[0] is not sn:
                from ..inline import clone

                cond = _Pos().visit(_flags_as_formulas(prog, merge, flow, head, expand_expr(prog, merge, t.ast, t, strict=False), t))  # (a clone, temporaries read through)
                if want_lab == "F":
                    cond = ast.UnaryOp(op=ast.Not(), operand=cond)
                ast.fix_missing_locations(cond)
                skip_guards.append(_Guard(t, cond))
    ctx.note("merge_skip_guards", [norm(t.ast) for t in skip_guards])

    def find_leaf(pred) -> list[tuple[Node, ast.AST]]:
        out = []
        for t in skip_guards:
            for l in _leaves(t.ast):
                if pred(l, t.node):
                    out.append((t, l))
        return out

    def is_none_test(l: ast.AST, t: Node) -> bool:
        if isinstance(l, ast.Compare) and len(l.ops) == 1 and isinstance(l.ops[0], ast.Is) and isinstance(l.comparators[0], ast.Constant) \
                and l.comparators[0].value is None:
            org = origins(prog, merge, l.left, t)
            return any(o[0] == "call" and o[1] == "getattr" for o in org)
        return False

    def is_in_param(pname: str):
        def pred(l: ast.AST, t: Node) -> bool:
            if isinstance(l, ast.Compare) and len(l.ops) == 1 and isinstance(l.ops[0], ast.In):
                org = origins(prog, merge, l.comparators[0], t)
                return org == frozenset({("param", pname)})
            return False
        return pred

    def is_in_locked(l: ast.AST, t: Node) -> bool:
        if isinstance(l, ast.Compare) and len(l.ops) == 1 and isinstance(l.ops[0], ast.In):
            return _resolve_str_set(ctx, merge, l.comparators[0], t) is not None
        return False

    def is_param(pname: str):
        def pred(l: ast.AST, t: Node) -> bool:
            return isinstance(l, ast.Name) and origins(prog, merge, l, t) == frozenset({("param", pname)})
        return pred

    atoms = [
        ("config value unset (is None)", [is_none_test]),
        ("flag passed explicitly (name in explicit_flags)", [is_in_param("explicit_flags")]),
        ("--auto locks the field (is_auto and name in auto_locked)", [is_param("is_auto"), is_in_locked]),
    ]
    for label, preds in atoms:
        ok = False
        found_any = False
        for t in skip_guards:
            leaves = []
            for p in preds:
                ls = [l for l in _leaves(t.ast) if p(l, t.node)]
                if ls:
                    leaves.append(ls[0])
            if len(leaves) == len(preds):
                found_any = True
                if implied_by(t.ast, leaves):
                    ok = True
        ctx.ob("R-CONFIG-K6", f"{merge.qual} :: skip when {label}", ok,
               ("a guard mentions the condition but is not implied by it (an extra conjunct lets the config override in some case)"
                if found_any and not ok else
                "the merge loop must skip the field (not reach setattr) whenever this condition holds"), where(merge, head))
    # the setattr writes the config value under the same name onto the options object
    if len(sc.args) == 3:
        o0 = origins(prog, merge, sc.args[0], sn)
        o2 = origins(prog, merge, sc.args[2], sn)
        getattrs = [c for n, c in flow.all_calls() if isinstance(c.func, ast.Name) and c.func.id == "getattr" and n in body]
        same_name = any(len(g.args) >= 2 and ast.unparse(g.args[1]) == ast.unparse(sc.args[1]) for g in getattrs)
        ctx.ob("R-CONFIG-K6", f"{merge.qual} :: setattr target/value", o0 == frozenset({("param", merge.params[0])})
               and o2 == frozenset({("call", "getattr")}) and same_name,
               "setattr must store the config value of field f into the options' attribute f", where(merge, sc))


def _check_find_config(ctx: Ctx) -> None:
    repo, prog = ctx.repo, ctx.prog
    fi = repo.func("flowmark.config:find_config_file")
    flow = prog.flow(fi)
    fors = [h for h in flow.cfg.nodes if h.kind == "for"]
    name_loop = None
    names: list[str] | None = None
    product_outer: dict[int, list[ast.AST]] = {}
    for h in fors:
        it_e = expand_expr(prog, fi, h.ast.iter, h, strict=False)
        src = h.ast.iter
        if isinstance(it_e, ast.Call) and isinstance(it_e.func, (ast.Name, ast.Attribute)) and (norm(it_e.func) in ("product", "itertools.product")) \
                and len(it_e.args) >= 2 and not it_e.keywords:
            # for d, name in product(DIRS, NAMES): nested loops written as one - the last argument varies fastest
            src = it_e.args[-1]
            product_outer[h.id] = list(it_e.args[:-1])
        org = origins(prog, fi, src, h)
        for o in org:
            if o[0] == "global":
                d = repo.module(o[1].split(":")[0]).defs.get(o[1].split(":")[1]) if ":" in o[1] else None
                if isinstance(d, ConstInfo) and isinstance(d.value, (ast.List, ast.Tuple)):
                    vals = []
                    for e in d.value.elts:
                        if isinstance(e, ast.Constant):
                            vals.append(e.value)
                        elif isinstance(e, ast.Name):
                            # an element spelled as a named constant of the module
                            r_ = repo.lookup(e.id, d.module, None)
                            if isinstance(r_, ConstInfo) and isinstance(r_.value, ast.Constant):
                                vals.append(r_.value.value)
                    name_loop, names = h, vals
        if isinstance(h.ast.iter, (ast.List, ast.Tuple)):
            name_loop, names = h, [e.value for e in h.ast.iter.elts if isinstance(e, ast.Constant)]
    if name_loop is None:
        raise AnalysisError("anchor vanished: loop over the config file names in find_config_file")
    ctx.ob("R-CONFIG-K5", f"{fi.qual} :: filename order", names == CONFIG_FILENAMES,
           f"per-directory search order must be {CONFIG_FILENAMES}, it is {names}", where(fi, name_loop))
    # the filename loop is nested inside the upward directory loop
    # the upward walk: the loop(s) in which the search moves to `.parent`
    moves0 = [n for n in flow.cfg.nodes if n.kind == "stmt" and isinstance(n.ast, ast.Assign) and ".parent" in ast.unparse(n.ast.value)]
    whiles = [t for t in flow.cfg.nodes if (t.kind == "test" and isinstance(t.owner, ast.While)) or (t.kind == "for" and t is not name_loop)]
    # ... or that iterates the chain of parents itself: for d in (start, *start.parents)
    whiles = [w for w in whiles if any(mv in flow.loop_body_nodes(w) for mv in moves0)
              or (w.kind == "for" and any(isinstance(x, ast.Attribute) and x.attr == "parents" for x in ast.walk(expand_expr(prog, fi, w.ast.iter, w))))]
    nested = any(name_loop in flow.loop_body_nodes(w) for w in whiles)
    inverted = any(w in flow.loop_body_nodes(name_loop) for w in whiles)
    if name_loop.id in product_outer:
        outer = product_outer[name_loop.id]
        nested = any(isinstance(x, ast.Attribute) and x.attr == "parents" for a in outer for x in ast.walk(expand_expr(prog, fi, a, name_loop, strict=False)))
        whiles = whiles or [name_loop]
    ctx.ob("R-CONFIG-K5", f"{fi.qual} :: nearest directory first", nested and not inverted,
           "the file-name loop must run inside the upward directory walk (nearest config wins over file-name priority)", where(fi, name_loop))
    # every successful return is guarded by an is_file() test; the pyproject arm by the [tool.flowmark] test
    n_ret = 0
    for r in flow.cfg.returns():
        v = r.ast.value
        if v is None or (isinstance(v, ast.Constant) and v.value is None):
            continue
        n_ret += 1
        from ..cfg import must_edges

        guards = sorted(must_edges(flow.cfg, name_loop, r) or set(), key=lambda x: x[0].id)
        # every way the guards (and the boolean helpers they call) can have let this return through
        from .common import predicate_scenarios

        scen = predicate_scenarios(prog, fi, guards)
        has_isfile = bool(scen) and all(any(truth and ".is_file()" in ast.unparse(a) for a, truth, _f, _n in sc) for sc in scen)
        ctx.ob("R-CONFIG-K5", f"{fi.qual} :: {norm(r.ast)} requires an existing file", has_isfile,
               "a candidate is only returned when it exists as a file", where(fi, r))
        sect_ok = True
        may_be_pyproject = False
        for sc in scen:
            def says_pyproject(a: ast.AST) -> bool | None:
                """True / False if the atom `a` (taken as true) says the name is / is not pyproject.toml"""
                def _mentions_pyproject(e_: ast.AST) -> bool:
                    if "pyproject.toml" in ast.unparse(e_):
                        return True
                    for x_ in ast.walk(e_):  # ... or through a module-level name for it
                        if isinstance(x_, ast.Name):
                            r_ = repo.lookup(x_.id, fi.module, fi)
                            if isinstance(r_, ConstInfo) and isinstance(r_.value, ast.Constant) and r_.value.value == "pyproject.toml":
                                return True
                    return False

                if isinstance(a, ast.Compare) and len(a.ops) == 1 and _mentions_pyproject(a):
                    if isinstance(a.ops[0], ast.Eq):
                        return True
                    if isinstance(a.ops[0], ast.NotEq):
                        return False
                return None
            not_py = False
            for a, truth, _f, _n in sc:
                sp = says_pyproject(a)
                if sp is not None and (sp is False) == truth:
                    not_py = True  # `name != pyproject` holds, or `name == pyproject` is false
            if not_py:
                continue
            may_be_pyproject = True
            # this scenario may hand out a pyproject.toml: it needs the section test
            sect = False
            for a, truth, f_, n_ in sc:
                if not truth:
                    continue
                consts = set()
                if n_ is not None and hasattr(n_, "succ"):
                    consts = {s_[1] for s_ in prog.slice(f_, a, n_).sources if s_[0] == "const"}
                for c in [x for x in ast.walk(a) if isinstance(x, ast.Call)]:
                    t = prog.resolve_call(f_, c)
                    if isinstance(t, list) and prog.summary(t[0], True, 0) is not None:
                        consts |= {s_[1] for s_ in prog.summary(t[0], True, 0).sources if s_[0] == "const"}
                consts |= {repr(x.value) for x in ast.walk(a) if isinstance(x, ast.Constant) and isinstance(x.value, str)}
                if "'flowmark'" in consts and "'tool'" in consts:
                    sect = True
            sect_ok = sect_ok and sect
        if may_be_pyproject:
            ctx.ob("R-CONFIG-K5", f"{fi.qual} :: {norm(r.ast)} pyproject needs [tool.flowmark]", sect_ok,
                   "a pyproject.toml may only be chosen when it has a [tool.flowmark] table", where(fi, r))
# ... and "has the table" is a presence test: an empty [tool.flowmark] table is still a table. A guard that takes
            # the truth value of the table itself (a helper returning the dict or None, or a local holding it) treats the
            # empty one as absent.
            def boolean_shaped(e: ast.AST, at, fl_, depth: int = 0) -> bool:
                if isinstance(e, ast.Constant):
                    return isinstance(e.value, bool)
                if isinstance(e, ast.Compare):
                    return True
                if isinstance(e, ast.UnaryOp) and isinstance(e.op, ast.Not):
                    return True
                if isinstance(e, ast.BoolOp):
                    return all(boolean_shaped(v_, at, fl_, depth) for v_ in e.values)
                if isinstance(e, ast.IfExp):
                    return boolean_shaped(e.body, at, fl_, depth) and boolean_shaped(e.orelse, at, fl_, depth)
                if isinstance(e, ast.Call) and isinstance(e.func, ast.Name) and e.func.id in ("isinstance", "bool", "any", "all", "callable", "hasattr"):
                    return True
                if isinstance(e, ast.Call) and isinstance(e.func, ast.Attribute) and e.func.attr in ("startswith", "endswith", "is_file", "is_dir", "exists", "isdigit"):
                    return True
                if isinstance(e, ast.Name) and depth < 3:
                    ds_ = fl_.reaching(at, e.id)
                    return bool(ds_) and all(d.kind == "assign" and d.value is not None and boolean_shaped(d.value, d.node, fl_, depth + 1) for d in ds_)
                return False

            def leaves(e: ast.AST) -> list[ast.AST]:
                if isinstance(e, ast.BoolOp):
                    return [x for v_ in e.values for x in leaves(v_)]
                if isinstance(e, ast.UnaryOp) and isinstance(e.op, ast.Not):
                    return leaves(e.operand)
                return [e]

            for b_, lab_ in guards:
                if b_.kind != "test" or not isinstance(b_.ast, ast.expr):
                    continue
                for a_ in leaves(b_.ast):
                    valued: list[str] = []
                    about_section = False
                    if isinstance(a_, ast.Call):
                        t_ = prog.resolve_call(fi, a_)
                        if not (isinstance(t_, list) and len(t_) == 1) or isinstance(t_[0].node, ast.Lambda):
                            continue
                        g_ = t_[0]
                        summ = prog.summary(g_, True, 0)
                        cs_ = {s_[1] for s_ in summ.sources if s_[0] == "const"} if summ is not None else set()
                        about_section = "'flowmark'" in cs_ and "'tool'" in cs_
                        gflow = prog.flow(g_)
                        valued = [norm(r_.ast.value)[:40] for r_ in gflow.cfg.returns() if r_.ast.value is not None
                                  and not boolean_shaped(r_.ast.value, r_, gflow) and not (isinstance(r_.ast.value, ast.Constant) and r_.ast.value.value is None)]
                    elif isinstance(a_, ast.Name):
                        cs_ = {s_[1] for s_ in prog.slice(fi, a_, b_).sources if s_[0] == "const"}
                        about_section = "'flowmark'" in cs_ and "'tool'" in cs_
                        valued = [norm(d.value)[:40] for d in flow.reaching(b_, a_.id) if d.kind == "assign" and d.value is not None
                                  and not boolean_shaped(d.value, d.node, flow) and not (isinstance(d.value, ast.Constant) and d.value.value is None)]
                    else:
                        continue
                    if not about_section:
                        continue
                    ctx.ob("R-CONFIG-K5", f"{fi.qual} :: the [tool.flowmark] test is a presence test", not valued,
                           f"`{norm(a_)[:50]}` can be the table itself ({valued}); taken as a truth value, an empty `[tool.flowmark]` table counts as "
                           "no table and the search walks past a pyproject.toml that does configure flowmark", where(fi, b_))
    # ... and it is decided on the parsed document: a search of the file's *text* for one spelling of the header
    # (`"[tool.flowmark]" in text`) misses the other ways TOML writes the same table (sub-tables only, dotted keys, spaces)
    from .common import reachable_functions as _reach

    scope_ = [f_ for f_ in _reach(prog, [fi]).values() if f_.module is fi.module and not isinstance(f_.node, ast.Lambda)]
    textual = [(f_, x) for f_ in scope_ for x in ast.walk(f_.node) if isinstance(x, ast.Compare) and len(x.ops) == 1 and isinstance(x.ops[0], (ast.In, ast.NotIn))
               and isinstance(x.left, ast.Constant) and isinstance(x.left.value, str) and "flowmark" in x.left.value and any(ch in x.left.value for ch in "[.]")]
    ctx.ob("R-CONFIG-K5", f"{fi.qual} :: the [tool.flowmark] test reads the parsed table", not textual,
           "whether the table exists is a question for the TOML parser (`[tool.flowmark.formatting]`, `tool.flowmark.width = 1`, `[ tool.flowmark ]` all "
           "define it); the search consults the file's text: " + ", ".join(norm(x)[:50] for _f, x in textual), where(textual[0][0], textual[0][1]) if textual else where(fi, fi.node))
    ctx.require("R-CONFIG-K5", "successful returns of find_config_file", n_ret, 1)
    # the walk starts at the resolved start directory and moves to .parent
    moves = [n for n in flow.cfg.nodes if n.kind == "stmt" and isinstance(n.ast, ast.Assign) and ".parent" in ast.unparse(n.ast.value)]
    moves += [w for w in whiles if w.kind == "for"]
    ctx.ob("R-CONFIG-K5", f"{fi.qual} :: upward walk", bool(moves), "the search moves to the parent directory", where(fi, fi.node))


def _check_kebab(ctx: Ctx, cfg_fields: list[str]) -> None:
    repo = ctx.repo
    mod = repo.module("flowmark.config")
    from .. import anchors

    d = anchors.kebab_table(ctx)
    n = 0
    for k, v in zip(d.value.keys, d.value.values):
        if isinstance(k, ast.Constant) and isinstance(v, ast.Constant):
            n += 1
            ok = v.value in cfg_fields and v.value == k.value.replace("-", "_")
            ctx.ob("R-CONFIG-K7", f"flowmark.config :: kebab table [{k.value!r}]", ok,
                   f"kebab key `{k.value}` must map to the config field `{k.value.replace('-', '_')}` (maps to `{v.value}`)", where(mod, k))
    # every multi-word field is reachable from its kebab spelling: table entry or generic fallback
    parse = anchors.parse_config_function(ctx)
    vf = anchors.valid_fields_const(ctx, parse)
    fallback = False
    if parse is not None:
        for c in walk_no_nested(parse.node):
            if isinstance(c, ast.Call) and isinstance(c.func, ast.Attribute) and c.func.attr == "replace" and len(c.args) == 2 \
                    and all(isinstance(a, ast.Constant) for a in c.args) and c.args[0].value == "-" and c.args[1].value == "_":
                fallback = True
    table = {k.value for k in d.value.keys if isinstance(k, ast.Constant)}
    for f in cfg_fields:
        if "_" in f:
            ctx.ob("R-CONFIG-K7", f"flowmark.config :: kebab spelling of `{f}`", fallback or f.replace("_", "-") in table,
                   f"`{f.replace('_', '-')}` must be accepted: table entry or the generic '-'->'_' fallback", where(mod, d.value))
    # unknown keys are warned about (the else-arm of the valid-field test prints)
    if parse is not None:
        flow = ctx.prog.flow(parse)
        prints = [n for n, c in flow.all_calls() if isinstance(c.func, ast.Name) and c.func.id == "print"]
        ok = False
        for pn in prints:
            # the warning is printed exactly where the key is known not to be a valid field
            for a, truth in must_atoms(flow.control_deps(pn)):
                if isinstance(a, ast.Compare) and len(a.ops) == 1 and vf is not None and isinstance(a.comparators[0], ast.Name) \
                        and repo.lookup(a.comparators[0].id, parse.module, parse) is vf:
                    if (isinstance(a.ops[0], ast.In) and not truth) or (isinstance(a.ops[0], ast.NotIn) and truth):
                        ok = True
        if not ok:
            # collected first, reported afterwards: the key goes to a list where it is known not to be a field, and a later
            # loop over that list prints one warning per element
            def unknown_guard(n_) -> bool:
                for a, truth in must_atoms(flow.control_deps(n_)):
                    if isinstance(a, ast.Compare) and len(a.ops) == 1 and vf is not None and isinstance(a.comparators[0], ast.Name) \
                            and repo.lookup(a.comparators[0].id, parse.module, parse) is vf:
                        if (isinstance(a.ops[0], ast.In) and not truth) or (isinstance(a.ops[0], ast.NotIn) and truth):
                            return True
                return False

            collectors = {c.func.value.id for n_, c in flow.all_calls() if isinstance(c.func, ast.Attribute) and c.func.attr == "append"
                          and isinstance(c.func.value, ast.Name) and unknown_guard(n_)}
            for h_ in flow.cfg.nodes:
                if h_.kind == "for" and isinstance(h_.ast.iter, ast.Name) and h_.ast.iter.id in collectors and all(b is h_ for b, _l in flow.control_deps(h_)):
                    body_ = flow.loop_body_nodes(h_)
                    for pn in prints:
                        if pn in body_ and all(b is h_ for b, _lab in flow.control_deps(pn)):
                            ok = True
        ctx.ob("R-CONFIG-K7", f"{parse.qual} :: unknown keys warn", ok,
               "a key that is not a FlowmarkConfig field must produce a warning (so 'accepted without warning' == fields(FlowmarkConfig))",
               where(parse, parse.node))
        def _derived_text(ci_: ConstInfo, depth_: int = 0) -> str:
            """the defining expression, with the module constants it mentions written out (one table built from another)"""
            if ci_.value is None:
                return ""
            txt_ = ast.unparse(ci_.value)
            if depth_ < 2:
                for x_ in ast.walk(ci_.value):
                    if isinstance(x_, ast.Name):
                        r2_ = repo.lookup(x_.id, ci_.module, None)
                        if isinstance(r2_, ConstInfo) and r2_ is not ci_:
                            txt_ += " " + _derived_text(r2_, depth_ + 1)
            return txt_

        okv = isinstance(vf, ConstInfo) and vf.value is not None and "fields(FlowmarkConfig)" in _derived_text(vf)
        ctx.ob("R-CONFIG-K7", "flowmark.config :: accepted field names", bool(okv), "the set of accepted keys must be derived from fields(FlowmarkConfig)", where(mod, vf.assigns[0] if isinstance(vf, ConstInfo) else mod.tree))


def _check_main_wiring(ctx: Ctx, main: FuncInfo, merge: FuncInfo) -> None:
    repo, prog = ctx.repo, ctx.prog
    flow = prog.flow(main)
    pa = find_parse_args(ctx)
    merges = [(n, c) for n, c in flow.all_calls() if prog.resolve_call(main, c) == [merge]]
    ctx.require("R-CONFIG-K8", "call to merge_cli_with_config in main", len(merges), 1)
    if not merges:
        return
    mn, mc = merges[0]
    b = bind_call(merge, mc)
    want = {"cli_opts": 0, "explicit_flags": 1, "is_auto": 2}
    for p, idx in want.items():
        org = origins(prog, main, b.get(p), mn) if b.get(p) is not None else frozenset()
        ok = org == frozenset({("unpack", ("call", pa.qual), idx)})
        ctx.ob("R-CONFIG-K8", f"{main.qual} -> {merge.qual} :: {p}", ok,
               f"merge argument `{p}` must be element {idx} of the parsed-arguments result; it is "
               + ", ".join(fmt_origin(o) for o in org), where(main, mc))
    corg = origins(prog, main, b.get("config"), mn) if b.get("config") is not None else frozenset()
    ctx.ob("R-CONFIG-K8", f"{main.qual} -> {merge.qual} :: config", corg == frozenset({("call", "flowmark.config:load_config")}),
           "the merged config must be the loaded config file", where(main, mc))
    from .. import anchors

    rf = anchors.resolve_files_function(ctx)
    consumer_quals = {"flowmark.reformat_api:reformat_files"} | ({rf.qual} if rf is not None else set())
    consumers = [n for n, c in flow.all_calls() if call_name(prog, main, c) in consumer_quals]
    ctx.require("R-CONFIG-K8", "consumers of the merged options in main", len(consumers), 1)
    for cn in consumers:
        before = flow.cfg.path_avoiding(mn, cn, set()) is not None and flow.cfg.path_avoiding(cn, mn, set()) is None
        ctx.ob("R-CONFIG-K8", f"{main.qual} :: merge precedes {norm(cn.ast)[:40]}", before,
               "the config merge must happen before the options are consumed", where(main, cn))
    guards = direct_guards(prog, main, mn)
    # `if config_path:` and `if config_path is not None:` ask the same question of a Path | None
    norm_guards = []
    for g in guards:
        t_ = g[0].ast
        if isinstance(t_, ast.Compare) and len(t_.ops) == 1 and isinstance(t_.comparators[0], ast.Constant) and t_.comparators[0].value is None \
                and isinstance(t_.ops[0], (ast.IsNot, ast.Is)):
            lab = g[1] if isinstance(t_.ops[0], ast.IsNot) else ("F" if g[1] == "T" else "T")
            norm_guards.append((g[0], lab, origins(prog, main, t_.left, g[0])))
        elif isinstance(t_, ast.UnaryOp) and isinstance(t_.op, ast.Not):
            # `if not config_path: <skip>` passed on its false arm
            norm_guards.append((g[0], "F" if g[1] == "T" else "T", origins(prog, main, t_.operand, g[0])))
        else:
            norm_guards.append(g)
    guards = norm_guards
    ok = len(guards) == 1 and guards[0][1] == "T" and guards[0][2] == frozenset({("call", "flowmark.config:find_config_file")})
    ctx.ob("R-CONFIG-K8", f"{main.qual} :: merge runs whenever a config file is found", ok,
           "the merge may depend only on whether find_config_file found a file; guards: "
           + "; ".join(f"{norm(g[0].ast)}[{g[1]}]" for g in guards), where(main, mc))
    # search starts at the current directory
    for n, c in flow.all_calls():
        if call_name(prog, main, c) == "flowmark.config:find_config_file":
            ok = bool(c.args) and "cwd" in ast.unparse(c.args[0])
            ctx.ob("R-CONFIG-K8", f"{main.qual} :: config search starts at cwd", ok, "nearest config file, searching upward from the current directory", where(main, c))
