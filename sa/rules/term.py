"""R-TERM (C12): loops, recursion and regexes cannot diverge; partial operations are guarded."""

from __future__ import annotations

import ast
import re

from ..cfg import Node, must_edges, walk_no_nested
from ..constfold import Folder, RegexConst, Unknown
from ..dataflow import chain_key, origins, root_key
from ..loader import AnalysisError, FuncInfo, parent
from ..regexlang import Regex
from ..report import Ctx
from .common import call_name, norm, reachable_functions, where

ADVANCING_METHODS = {"consume", "pop", "popleft", "read", "readline", "__next__"}  # Source.next_line only peeks

FORMAT_ROOTS = [
    "flowmark.reformat_api:reformat_text",
    "flowmark.linewrapping.markdown_filling:fill_markdown",
    "flowmark.linewrapping.text_filling:fill_text",
    "flowmark.formats.flowmark_markdown:flowmark_markdown",
    "flowmark.formats.frontmatter:split_frontmatter",
    "flowmark.linewrapping.line_wrappers:line_wrap_to_width",
    "flowmark.linewrapping.line_wrappers:line_wrap_by_sentence",
]

# subscripts whose base cannot be empty for a reason outside the function (one reason each)
def _is_groups_unpack(o, index: int) -> bool:
    return isinstance(o, tuple) and o[0] == "unpack" and o[2] == index and isinstance(o[1], tuple) and o[1][0] == "call" and str(o[1][1]).endswith(".groups")


def _is_children_of_param(o) -> bool:
    return isinstance(o, tuple) and o[0] == "attr" and o[2] == "children" and isinstance(o[1], tuple) and o[1][0] == "param"


# index sites whose non-emptiness comes from outside the function; identified by where the indexed value comes from (not by
# the name of the variable that holds it): (function, index, predicate on the value's origins, reason)
SUBSCRIPT_EXEMPT = [
    ("flowmark.formats.flowmark_markdown:CustomFencedCode.match", "0", lambda org: bool(org) and all(_is_groups_unpack(o, 1) for o in org),
     "group 2 of marko's FencedCode.pattern is `{3,}`: at least three characters"),
    ("<code-block renderers>", "0", lambda org: bool(org) and all(_is_children_of_param(o) for o in org),
     "marko's FencedCode / CodeBlock (and CustomFencedCode.__init__) always store exactly one RawText child"),
    ("<table renderer>", "0", lambda org: bool(org) and all(_is_children_of_param(o) for o in org),
     "marko's gfm Table.match only accepts a header row followed by a delimiter row, and stores the header as the first child"),
]
_CODE_RENDERERS = tuple(f"flowmark.formats.flowmark_markdown:MarkdownNormalizer.{m}" for m in ("render_fenced_code", "render_code_block", "render_custom_fenced_code"))


def _referenced_as_value(prog, fi: FuncInfo) -> bool:
    """Is the function mentioned anywhere in the package other than in its own definition (passed around, stored, called)?"""
    for m in prog.repo.modules.values():
        for x in ast.walk(m.tree):
            if isinstance(x, ast.Attribute) and x.attr == fi.name:
                return True
            if isinstance(x, ast.Name) and x.id == fi.name and isinstance(x.ctx, ast.Load):
                return True
    return False


def _exempt_applies(prog, q: str, fi: FuncInfo) -> bool:
    """`<code-block renderers>`: the three code-block render methods and the private code they share (helpers whose every
    caller is one of them) - whatever that helper is called."""
    if q == "<table renderer>":
        return fi.cls is not None and fi.name == "render_table"  # (marko's dispatch name for gfm Table elements)
    if q != "<code-block renderers>":
        return q == fi.qual
    if fi.qual in _CODE_RENDERERS:
        return True
    from .common import callers_index

    idx = callers_index(prog)
    if not idx.get(fi.qual) and fi.name.startswith("_") and not fi.name.startswith("__") and not _referenced_as_value(prog, fi):
        return True  # a private helper nobody calls any more (its body was written out in the render methods): unreachable
    seen: set[str] = set()
    work = [fi.qual]
    while work:
        x = work.pop()
        if x in seen:
            continue
        seen.add(x)
        if x in _CODE_RENDERERS:
            continue
        callers = idx.get(x, set())
        if not callers or x not in prog.repo.functions or not prog.repo.functions[x].name.startswith("_"):
            return False
        work.extend(callers)
    return True


def format_scope(ctx: Ctx) -> dict[str, FuncInfo]:
    roots = [ctx.repo.func(q) for q in FORMAT_ROOTS]
    sc = reachable_functions(ctx.prog, roots)
    # marko calls these class methods of the custom elements during parsing
    from .common import framework_hook_functions

    for q, f in framework_hook_functions(ctx.repo).items():
        sc[q] = f
    return sc


# ------------------------------------------------------------------------------------------- T1
def _names(expr: ast.AST) -> set[str]:
    out: set[str] = set()
    for n in walk_no_nested(expr):
        if isinstance(n, ast.Name):
            out.add(n.id)
        elif isinstance(n, ast.Attribute):
            k = chain_key(n)
            if k:
                out.add(k)
    return out


def check_loops(ctx: Ctx) -> None:
    prog = ctx.prog
    scope = format_scope(ctx)
    # C12 is a statement about the formatter: only what reformat_text / fill_markdown can reach (plus the parser hooks of
    # the custom elements) is in scope - the file resolver and config search have their own properties
    funcs = dict(scope)
    n_loops = 0
    for fi in funcs.values():
        if isinstance(fi.node, ast.Lambda):
            continue
        if not any(isinstance(n, ast.While) for n in walk_no_nested(fi.node)):
            continue
        flow = prog.flow(fi)
        for h in flow.cfg.nodes:
            if h.kind != "test" or not isinstance(h.owner, ast.While):
                continue
            n_loops += 1
            body = flow.loop_body_nodes(h)
            cond = _names(h.ast)
            is_true = isinstance(h.ast, ast.Constant) and bool(h.ast.value)
            exits: list[Node] = []
            if is_true:
                # conditions that leave the loop from inside: tests with a successor outside the loop body
                for t in body:
                    if t.kind == "test":
                        for s, _lab in t.succ:
                            if s not in body and s is not h:
                                exits.append(t)
                                cond |= _names(t.ast)
                            elif s.kind == "stmt" and isinstance(s.ast, (ast.Break, ast.Return, ast.Raise)):
                                exits.append(t)
                                cond |= _names(t.ast)
            cond -= {"len", "True", "False", "isinstance", "not"}
            roots = {c.split(".")[0] for c in cond}
            progress: set[Node] = set()
            for n in body:
                for d in flow.defs_at[n]:
                    if d.var in cond or d.var.split(".")[0] in roots and d.kind != "effect":
                        progress.add(n)
                for c in flow.calls_in(n):
                    if isinstance(c.func, ast.Attribute) and c.func.attr in ADVANCING_METHODS:
                        rk = root_key(c.func.value)
                        if rk and rk.split(".")[0] in roots:
                            progress.add(n)
                if n.kind == "stmt" and isinstance(n.ast, (ast.Break, ast.Return, ast.Raise)):
                    progress.add(n)
            # is there a cycle head -> body -> head that makes no progress?
            p = None
            for s, lab in h.succ:
                if lab == "T" and s not in progress:
                    # a trip round *this* loop: the path stays inside its body (leaving it and coming back through an
                    # enclosing loop is a new entry, not an iteration)
                    outside = {x for x in flow.cfg.nodes if x not in body and x is not h}
                    p = flow.cfg.path_avoiding(s, h, progress | outside) if s is not h else [s]
                    if p is not None:
                        break
            ctx.ob("R-TERM-T1", f"{fi.qual} :: while {norm(h.ast)[:60]}", p is None,
                   "every trip round the loop must change something its exit condition reads "
                   f"(condition / break variables: {sorted(cond)}); a path back to the loop head without such a step exists"
                   if p is not None else f"each iteration updates one of {sorted(cond)} or leaves the loop",
                   where(fi, h), [f"{x.lineno}: {x.text()}" for x in (p or [])])
    ctx.require("R-TERM-T1", "while loops", n_loops, 3)
    ctx.note("while_loops", n_loops)


# ------------------------------------------------------------------------------------------- T2
def check_recursion(ctx: Ctx) -> None:
    prog = ctx.prog
    n_rec = 0
    for fi in format_scope(ctx).values():
        if isinstance(fi.node, ast.Lambda) or fi.name.startswith("test_"):
            continue
        flow = None
        for c in walk_no_nested(fi.node):
            if isinstance(c, ast.Call):
                t = prog.resolve_call(fi, c)
                if isinstance(t, list) and t[0] is fi:
                    flow = flow or prog.flow(fi)
                    node = flow.node_of(c)
                    n_rec += 1
                    arg = c.args[0] if c.args else None
                    org = origins(prog, fi, arg, node) if arg is not None and node is not None else frozenset()
                    ok = bool(org) and all(_is_child_of_param(o, fi.params) for o in org)
                    ctx.ob("R-TERM-T2", f"{fi.qual} :: recursive call {norm(c)[:50]}", ok,
                           "recursion must descend to a child of the parameter (structural recursion on the finite document tree); "
                           "the argument is " + ", ".join(str(o) for o in org), where(fi, c))
    ctx.require("R-TERM-T2", "directly recursive calls", n_rec, 1)


def _is_child_of_param(o, params: list[str]) -> bool:
    # ("iter", X, idx) where X derives from param.children (possibly through list(...) copy)
    if not isinstance(o, tuple):
        return False
    if o[0] == "iter":
        return _derives_children(o[1], params)
    return False


def _derives_children(o, params: list[str]) -> bool:
    if not isinstance(o, tuple):
        return False
    if o[0] == "attr" and o[2] == "children":
        return _root_param(o[1], params)
    if o[0] in ("call",):
        return o[1] in ("list", "tuple", "iter", "reversed")  # list(element.children): a copy of the children
    if o[0] in ("iter", "index", "unpack"):
        return _derives_children(o[1], params)
    return False


def _root_param(o, params: list[str]) -> bool:
    if not isinstance(o, tuple):
        return False
    if o[0] == "param":
        return o[1] in params
    if o[0] in ("attr", "iter", "index"):
        return _root_param(o[1], params)
    return False


# ------------------------------------------------------------------------------------------- T3
def collect_regexes(ctx: Ctx) -> list[tuple[str, str, int, str]]:
    """(name, pattern, flags, where) of every regex constant and literal pattern of the package."""
    repo = ctx.repo
    folder = Folder(repo)
    out: list[tuple[str, str, int, str]] = []
    consts = folder.all_regex_constants()
    for q, rc in consts.items():
        mod = repo.module(q.split(":")[0])
        d = mod.defs[q.split(":")[1]]
        out.append((q, rc.pattern, rc.flags, where(mod, d.assigns[0])))
    for q, why in getattr(folder, "unfolded", {}).items():
        raise AnalysisError(f"regex constant {q} cannot be folded: {why}")
    # class-level patterns and patterns given literally to re.* calls inside functions
    for ci in repo.classes.values():
        for name, val in ci.class_attrs.items():
            if isinstance(val, ast.Call) and "compile" in norm(val.func) and val.args and isinstance(val.args[0], ast.Constant):
                fl = 0
                out.append((f"{ci.qual}.{name}", val.args[0].value, fl, where(ci, val)))
    for fi in repo.functions.values():
        if isinstance(fi.node, ast.Lambda) or fi.name.startswith("test_"):
            continue
        for c in walk_no_nested(fi.node):
            if not isinstance(c, ast.Call):
                continue
            nm = call_name(ctx.prog, fi, c)
            if nm.split(".")[0] in ("re", "regex") and nm.split(".")[-1] in (
                    "compile", "match", "search", "sub", "subn", "split", "findall", "finditer", "fullmatch") and c.args:
                p = c.args[0]
                pats: list[str] = []
                if isinstance(p, ast.Constant) and isinstance(p.value, str):
                    pats = [p.value]
                elif isinstance(p, ast.Name):
                    # local pattern variable built from an f-string (fence scan): fold with the call-site constants
                    for n in walk_no_nested(fi.node):
                        if isinstance(n, ast.Assign) and isinstance(n.targets[0], ast.Name) and n.targets[0].id == p.id:
                            for sample in ("`", "~"):
                                try:
                                    v = folder.eval(n.value, fi.module, {x: sample for x in fi.params}, fi)
                                    if isinstance(v, str):
                                        pats.append(v)
                                except Unknown:
                                    pass
                    if not pats:
                        r = repo.resolve_expr(p, fi.module, fi)
                        if r is None:
                            continue
                        continue
                elif isinstance(p, ast.Attribute) or isinstance(p, ast.Name):
                    continue  # a module constant: already collected
                else:
                    try:
                        v = folder.eval(p, fi.module, {}, fi)
                        if isinstance(v, str):
                            pats = [v]
                    except Unknown:
                        continue
                for i, pt in enumerate(pats):
                    out.append((f"{fi.qual} :: {nm}({pt!r})", pt, 0, where(fi, c)))
    return out


def check_regexes(ctx: Ctx) -> None:
    regs = collect_regexes(ctx)
    ctx.note("regex_constants", len(regs))
    ctx.require("R-TERM-T3", "regex constants and literal patterns", len(regs), 15)
    for name, pat, flags, loc in regs:
        try:
            rx = Regex(pat, flags, name)
        except ValueError as e:
            raise AnalysisError(f"T3: {name}: {e}") from e
        amb = rx.glushkov().exponentially_ambiguous()
        stars = rx.star_problems()
        key = name if len(name) < 150 else name[:147] + "..."
        ctx.ob("R-TERM-T3", f"{key}", amb is None and not stars,
               "no shape that makes a backtracking matcher exponential"
               if amb is None and not stars else
               f"pattern {pat!r}: " + "; ".join(([f"exponentially ambiguous: {amb}"] if amb else []) + stars), loc)


# -------------------------------------------------------------------------- partial operations
def _path_key(e: ast.AST) -> str | None:
    """key of an access path: `x.a.b` (chain key) or a path with constant subscripts `x.a[0].b` (its text)"""
    k = chain_key(e) if isinstance(e, (ast.Name, ast.Attribute)) else None
    if k is not None:
        return k
    cur = e
    while isinstance(cur, (ast.Attribute, ast.Subscript)):
        if isinstance(cur, ast.Subscript) and not (isinstance(cur.slice, ast.Constant) or (isinstance(cur.slice, ast.UnaryOp) and isinstance(cur.slice.operand, ast.Constant))):
            return None
        cur = cur.value
    return norm(e) if isinstance(cur, ast.Name) and isinstance(e, (ast.Attribute, ast.Subscript)) else None


def _facts(expr: ast.AST, truth: bool) -> set[str]:
    """Keys proven non-empty when `expr` evaluates to `truth`."""
    out: set[str] = set()
    if isinstance(expr, ast.UnaryOp) and isinstance(expr.op, ast.Not):
        return _facts(expr.operand, not truth)
    if isinstance(expr, ast.BoolOp):
        if isinstance(expr.op, ast.And) and truth:
            for v in expr.values:
                out |= _facts(v, True)
        elif isinstance(expr.op, ast.Or) and not truth:
            for v in expr.values:
                out |= _facts(v, False)
        return out
    if isinstance(expr, ast.Call) and isinstance(expr.func, ast.Name) and expr.func.id == "bool" and len(expr.args) == 1 and not expr.keywords:
        return _facts(expr.args[0], truth)  # bool(x) is the truthiness of x
    k = _path_key(expr)
    if k is not None:
        return {k} if truth else set()
    if isinstance(expr, ast.Compare) and len(expr.ops) == 1:
        l, op, r = expr.left, expr.ops[0], expr.comparators[0]

        def len_of(e: ast.AST) -> str | None:
            if isinstance(e, ast.Call) and isinstance(e.func, ast.Name) and e.func.id in ("len", "length") and e.args:
                return _path_key(e.args[0])
            return None

        def const(e: ast.AST) -> int | None:
            return e.value if isinstance(e, ast.Constant) and isinstance(e.value, int) else None

        # pattern.match(x) is not None  ==  the match succeeded
        if isinstance(r, ast.Constant) and r.value is None and isinstance(l, ast.Call) and isinstance(op, (ast.Is, ast.IsNot)):
            return _facts(l, truth if isinstance(op, ast.IsNot) else not truth)
        # x is None / x is not None
        if isinstance(r, ast.Constant) and r.value is None:
            kx = chain_key(l) if isinstance(l, (ast.Name, ast.Attribute)) else None
            if kx and ((isinstance(op, ast.Is) and not truth) or (isinstance(op, ast.IsNot) and truth)):
                out.add(kx)
        kl, kr = len_of(l), len_of(r)
        if kl is not None:
            c = const(r)
            if truth and ((isinstance(op, ast.Gt) and (c is None or c >= 0)) or (isinstance(op, ast.GtE) and c is not None and c >= 1)
                          or (isinstance(op, ast.Eq) and c is not None and c >= 1)):
                out.add(kl)
            if not truth and ((isinstance(op, ast.Eq) and c == 0) or (isinstance(op, ast.Lt) and c is not None and c <= 1)
                              or (isinstance(op, ast.LtE) and c == 0) or (isinstance(op, ast.NotEq) and c is not None and c >= 1)):
                out.add(kl)
            if truth and isinstance(op, ast.NotEq) and c == 0:
                out.add(kl)
            if truth and isinstance(op, ast.NotEq) and c == 0:
                out.add(kl)
        if kr is not None:
            if truth and isinstance(op, (ast.Lt,)):
                out.add(kr)  # i < len(B)
            if truth and isinstance(op, ast.LtE) and const(l) is not None and const(l) >= 1:
                out.add(kr)
        # B != "" / B == ""
        for a, b in ((l, r), (r, l)):
            ka = chain_key(a) if isinstance(a, (ast.Name, ast.Attribute)) else None
            if ka and isinstance(b, ast.Constant) and b.value == "":
                if (truth and isinstance(op, ast.NotEq)) or (not truth and isinstance(op, ast.Eq)):
                    out.add(ka)
    if isinstance(expr, ast.Call) and isinstance(expr.func, ast.Attribute) and expr.func.attr in ("match", "search", "fullmatch") and truth:
        # a successful match of a pattern that cannot match the empty string (all such patterns in the repo are `^...+...$`)
        for a in expr.args:
            k2 = chain_key(a) if isinstance(a, (ast.Name, ast.Attribute)) else None
            if k2:
                out.add(k2)
    if isinstance(expr, ast.Call) and isinstance(expr.func, ast.Attribute) and expr.func.attr in ("startswith", "endswith", "isdigit", "isspace", "isalpha") and truth:
        k2 = chain_key(expr.func.value)
        if k2:
            out.add(k2)
    return out


def _guarded_in_expression(sub: ast.Subscript, key: str, facts=None) -> bool:
    facts = facts or _facts
    cur: ast.AST = sub
    p = parent(cur)
    while p is not None and not isinstance(p, ast.stmt):
        if isinstance(p, ast.BoolOp):
            idx = next((i for i, v in enumerate(p.values) if _contains(v, cur)), None)
            if idx is not None:
                for earlier in p.values[:idx]:
                    if key in facts(earlier, isinstance(p.op, ast.And)) and isinstance(p.op, ast.And):
                        return True
                    if isinstance(p.op, ast.Or) and key in facts(earlier, False):
                        return True
        if isinstance(p, ast.IfExp):
            if _contains(p.body, cur) and key in facts(p.test, True):
                return True
            if _contains(p.orelse, cur) and key in facts(p.test, False):
                return True
        if isinstance(p, ast.comprehension):
            pass
        cur = p
        p = parent(p)
    return False


def _contains(tree: ast.AST, node: ast.AST) -> bool:
    return any(x is node for x in ast.walk(tree))


def _in_try_catching(node: ast.AST, names: tuple[str, ...]) -> bool:
    p = parent(node)
    prev = node
    while p is not None and not isinstance(p, (ast.FunctionDef, ast.AsyncFunctionDef)):
        if isinstance(p, ast.Try) and any(prev is s or _contains(s, prev) for s in p.body):
            for h in p.handlers:
                t = norm(h.type) if h.type is not None else ""
                if h.type is None or any(n in t for n in names):
                    return True
        prev = p
        p = parent(p)
    return False


def check_subscripts(ctx: Ctx) -> None:
    prog = ctx.prog
    scope = format_scope(ctx)
    n_sub = 0
    for fi in scope.values():
        if isinstance(fi.node, ast.Lambda):
            continue
        subs = []
        for n in walk_no_nested(fi.node):
            if isinstance(n, ast.Subscript) and isinstance(n.ctx, ast.Load):
                s = n.slice
                if isinstance(s, ast.Constant) and isinstance(s.value, int):
                    subs.append(n)
                elif isinstance(s, ast.UnaryOp) and isinstance(s.op, ast.USub) and isinstance(s.operand, ast.Constant):
                    subs.append(n)
        # `first, *rest = xs` needs at least one element just as xs[0] does
        unpacks: dict[int, ast.Assign] = {}
        for n in walk_no_nested(fi.node):
            if isinstance(n, ast.Assign) and len(n.targets) == 1 and isinstance(n.targets[0], (ast.Tuple, ast.List)) \
                    and any(isinstance(e, ast.Starred) for e in n.targets[0].elts) and len(n.targets[0].elts) >= 2 \
                    and isinstance(n.value, (ast.Name, ast.Attribute)):
                unpacks[id(n.value)] = n
                subs.append(n.value)
        # `(line,) = helper(...)`: an exact-arity unpacking of what a function of the package declares to be a list of any length
        exact: list[tuple[ast.Assign, FuncInfo]] = []
        for n in walk_no_nested(fi.node):
            if isinstance(n, ast.Assign) and len(n.targets) == 1 and isinstance(n.targets[0], (ast.Tuple, ast.List)) \
                    and not any(isinstance(e, ast.Starred) for e in n.targets[0].elts) and isinstance(n.value, ast.Call):
                tg = prog.resolve_call(fi, n.value)
                if isinstance(tg, list) and len(tg) == 1 and not isinstance(tg[0].node, ast.Lambda) and getattr(tg[0].node, "returns", None) is not None \
                        and norm(tg[0].node.returns).split("[")[0] in ("list", "List", "typing.List", "Sequence", "Iterable", "Iterator"):
                    exact.append((n, tg[0]))
        for st_, callee_ in exact:
            n_sub += 1
            ok_ = _in_try_catching(st_.value, ("ValueError", "Exception"))
            ctx.ob("R-TERM-index", f"{fi.qual} :: {norm(st_)[:60]}", ok_,
                   f"`{callee_.name}` returns a list of any length (`{norm(callee_.node.returns)}`), e.g. none for empty input; unpacking it into exactly "
                   f"{len(st_.targets[0].elts)} name(s) raises ValueError for every other length" if not ok_ else "inside a try that catches ValueError",
                   where(fi, st_))
        if not subs:
            continue
        flow = prog.flow(fi)
        ne_states = None
        for sub in subs:
            is_unpack = id(sub) in unpacks
            base = sub if is_unpack else sub.value
            key = _path_key(base)
            txt = norm(unpacks[id(sub)])[:60] if is_unpack else norm(sub)
            n_sub += 1
            okey = f"{fi.qual} :: {txt}"
            node0 = flow.node_of(sub)
            exempt = None
            for q, idx_txt, pred, reason in SUBSCRIPT_EXEMPT:
                if (q == "<table renderer>" or not is_unpack) and _exempt_applies(prog, q, fi) and (is_unpack or norm(sub.slice) == idx_txt) and node0 is not None \
                        and pred(origins(prog, fi, base, node0)):
                    exempt = reason
            if exempt is not None:
                ctx.ob("R-TERM-index", okey, True, "exempt: " + exempt, where(fi, sub))
                continue
            # a parameter typed as a fixed-size tuple
            if isinstance(base, ast.Name) and base.id in fi.params:
                ann = next((a.annotation for a in fi.node.args.args if a.arg == base.id), None)
                if isinstance(ann, ast.Name):
                    # a module-level alias of the tuple type (`_Parts: TypeAlias = tuple[str, str, int]`)
                    al = prog.repo.lookup(ann.id, fi.module, fi)
                    if hasattr(al, "assigns") and getattr(al, "value", None) is not None:
                        ann = al.value
                if ann is not None and norm(ann).startswith(("tuple[", "Tuple[", "typing.Tuple[")) and "..." not in norm(ann):
                    ctx.ob("R-TERM-index", okey, True, "index into a fixed-size tuple parameter", where(fi, sub))
                    continue
            # str.split(sep) never returns an empty list
            if isinstance(base, ast.Call) and isinstance(base.func, ast.Attribute) and base.func.attr == "split" and base.args:
                ctx.ob("R-TERM-index", okey, True, "str.split(sep) has at least one element", where(fi, sub))
                continue
            if _in_try_catching(sub, ("IndexError", "Exception")):
                ctx.ob("R-TERM-index", okey, True, "inside a try that catches IndexError", where(fi, sub))
                continue
            node = flow.node_of(sub)
            ok = False
            why = ""
            if isinstance(base, ast.Name) and node is not None:
                # a local that holds what a helper of the package or a comprehension produced: whether it can be empty is a
                # fact about that producer and its arguments, which this local rule cannot decide either way - no obligation
                defs0 = flow.reaching(node, base.id)
                if defs0 and all(d.kind == "assign" and d.value is not None and (
                        isinstance(d.value, (ast.ListComp, ast.GeneratorExp)) or
                        (isinstance(d.value, ast.Call) and isinstance(prog.resolve_call(fi, d.value), list))) for d in defs0):
                    n_sub -= 1
                    continue
            def facts_x(e: ast.AST, truth: bool, at=node, _d: int = 0) -> set[str]:
                """facts of a condition, also read through its single-assignment temporaries (n = len(xs) ... if n == 0)"""
                out_ = _facts(e, truth)
                if isinstance(e, ast.Name) and truth and at is not None and _d < 2:
                    # a flag: ok = False ... if xs and ys: ok = <...> ... if ok:  - whatever was known where it can have become
                    # true is known when it is true
                    ds = flow.reaching(at, e.id)
                    live = [d for d in ds if not (d.kind == "assign" and isinstance(d.value, ast.Constant) and d.value.value in (False, None, 0, ""))]
                    if ds and live and len(live) < len(ds) and all(d.kind == "assign" for d in ds):
                        common: set[str] | None = None
                        for d in live:
                            fs: set[str] = set()
                            for b2, lab2 in must_edges(flow.cfg, flow.cfg.entry, d.node) or set():
                                if b2.kind == "test":
                                    fs |= facts_x(b2.ast, lab2 == "T", b2, _d + 1)
                            common = fs if common is None else (common & fs)
                        out_ |= common or set()
                if at is not None and any(isinstance(x, ast.Name) for x in ast.walk(e)):
                    try:
                        from ..decide import expand_expr as _xp
                        for d_ in (1, 2, 3):  # one level of temporaries at a time: the fact is about a *name*
                            out_ |= _facts(_xp(prog, fi, e, at, depth=d_), truth)
                    except Exception:  # noqa: BLE001
                        pass
                return out_

            if key is not None:
                if _guarded_in_expression(sub, key, facts_x):
                    ok, why = True, "guarded by an earlier operand of the same expression"
                elif node is not None:
                    facts: set[str] = set()
                    for b, lab in must_edges(flow.cfg, flow.cfg.entry, node) or set():
                        if b.kind == "test":
                            facts |= facts_x(b.ast, lab == "T", b)
                        elif b.kind == "for" and lab == "iter":
                            pass
                    if key in facts:
                        ok, why = True, "dominated by a non-emptiness test on every path"
                    else:
                        # single definition from str.split(sep)
                        defs = flow.reaching(node, key) if "." not in key else []
                        if defs and all(d.kind == "assign" and isinstance(d.value, ast.Call) and isinstance(d.value.func, ast.Attribute)
                                        and d.value.func.attr == "split" and d.value.args for d in defs):
                            ok, why = True, "result of str.split(sep)"
            if not ok and node is not None and key is not None:
                # the forward must-analysis: appended to on every path, built element-wise from a non-empty sequence, filled by a
                # loop that is known to run at least once ...
                if ne_states is None:
                    try:
                        from ..nonempty import compute as _ne_compute

                        ne_states = _ne_compute(flow, _facts, _path_key)
                    except Exception:  # noqa: BLE001
                        ne_states = {}
                st_ = ne_states.get(node)
                if st_ is not None and key in st_:
                    ok, why = True, "non-empty on every path to this point (appends / non-empty sources / loops that run at least once)"
            if not ok and node is not None:
                # an element of a local list of lists / strings that only ever receives non-empty elements:
                #   if cur: groups.append(cur)  ...  groups[i][0]   /   for g in groups: g[0]
                holder = None
                if isinstance(base, ast.Subscript) and isinstance(base.value, ast.Name) and not isinstance(base.slice, ast.Slice):
                    holder = base.value.id
                elif isinstance(base, ast.Name):
                    ds_ = flow.reaching(node, base.id)
                    its = {d.node.ast.iter.id for d in ds_ if d.kind in ("iter", "for", "unpack", "assign") and d.node.kind == "for"
                           and isinstance(d.node.ast.iter, ast.Name) and isinstance(d.node.ast.target, ast.Name)}
                    if ds_ and len(its) == 1 and all(d.node.kind == "for" for d in ds_):
                        holder = next(iter(its))
                if holder is not None and holder not in fi.params:
                    hdefs = [d for d in flow.defs if d.var == holder]
                    good = bool(hdefs)
                    n_app = 0
                    for d in hdefs:
                        if d.kind == "assign" and isinstance(d.value, ast.List) and not d.value.elts:
                            continue
                        if d.kind == "mutate" and isinstance(d.value, ast.Call) and isinstance(d.value.func, ast.Attribute) and d.value.func.attr == "append" \
                                and len(d.value.args) == 1:
                            ak = _path_key(d.value.args[0])
                            fs_: set[str] = set()
                            for b, lab in must_edges(flow.cfg, flow.cfg.entry, d.node) or set():
                                if b.kind == "test":
                                    fs_ |= facts_x(b.ast, lab == "T", b)
                            shrinks = [d2 for d2 in flow.defs if d2.var == ak and d2.kind == "mutate" and isinstance(d2.value, ast.Call)
                                       and isinstance(d2.value.func, ast.Attribute) and d2.value.func.attr in ("clear", "pop", "remove")]
                            if ak is not None and ak in fs_ and not shrinks:  # (the appended object is not emptied later under another name)
                                n_app += 1
                                continue
                        good = False
                    if good and n_app:
                        ok, why = True, f"element of `{holder}`, which only ever receives values tested non-empty"
            ctx.ob("R-TERM-index", okey, ok,
                   why or "constant index into a value that may be empty: no non-emptiness test dominates it (IndexError on an empty "
                          "string / list would escape to the caller)", where(fi, sub))
    ctx.require("R-TERM-index", "constant-index subscripts on the formatting path", n_sub, 8)


# ------------------------------------------------------------------------------ optional results
def _optional_source_methods() -> set[str]:
    """Methods of marko.source.Source whose (non-overload) return annotation admits None."""
    from ..loader import site_packages

    path = site_packages() / "marko" / "source.py"
    try:
        tree = ast.parse(path.read_text())
    except (OSError, SyntaxError) as e:
        raise AnalysisError(f"cannot read {path}: {e}") from e
    out: set[str] = set()
    for c in tree.body:
        if isinstance(c, ast.ClassDef) and c.name == "Source":
            for st in c.body:
                if isinstance(st, ast.FunctionDef) and st.returns is not None and not any("overload" in norm(d) for d in st.decorator_list):
                    if "None" in norm(st.returns) and norm(st.returns) != "None":
                        out.add(st.name)
    return out


def check_optional_results(ctx: Ctx) -> None:
    """A value that marko may return as None (Source.next_line, Source.expect_re) is tested before it is used."""
    prog = ctx.prog
    opt = _optional_source_methods()
    ctx.note("optional_marko_source_methods", sorted(opt))
    if not opt:
        raise AnalysisError("no Optional-returning method found on marko.source.Source (dependency changed)")
    n_vars = 0
    for fi in ctx.repo.functions.values():
        if isinstance(fi.node, ast.Lambda) or fi.name.startswith("test_"):
            continue
        src_params = {a.arg for a in fi.node.args.args if a.annotation is not None and norm(a.annotation).endswith("Source")}
        if not src_params:
            continue
        flow = prog.flow(fi)
        for d in flow.defs:
            if d.kind != "assign" or not isinstance(d.value, ast.Call) or not isinstance(d.value.func, ast.Attribute):
                continue
            f = d.value.func
            if not (f.attr in opt and isinstance(f.value, ast.Name) and f.value.id in src_params):
                continue
            rp = next((k.value for k in d.value.keywords if k.arg == "require_prefix"), None)
            if f.attr == "next_line" and isinstance(rp, ast.Constant) and rp.value is False:
                continue  # the overload that cannot return None
            n_vars += 1
            var = d.var
            for node in flow.cfg.nodes:
                if d not in flow.reaching(node, var):
                    continue
                for ex in flow.node_exprs(node):
                    for sub in walk_no_nested(ex):
                        if not (isinstance(sub, ast.Name) and sub.id == var and isinstance(sub.ctx, ast.Load)):
                            continue
                        pp = parent(sub)
                        deref = isinstance(pp, (ast.Attribute, ast.Subscript)) and pp.value is sub
                        as_arg = isinstance(pp, ast.Call) and sub in pp.args and not (
                            isinstance(pp.func, ast.Name) and pp.func.id in ("isinstance", "bool", "print", "repr", "str"))
                        if not (deref or as_arg):
                            continue
                        if _guarded_in_expression_name(sub, var):
                            continue
                        facts: set[str] = set()
                        for b, lab in must_edges(flow.cfg, d.node, node) or set():
                            if b.kind == "test":
                                facts |= _facts(b.ast, lab == "T")
                        ctx.ob("R-TERM-none", f"{fi.qual} :: `{var}` from {f.value.id}.{f.attr}() used in `{norm(pp)[:50]}`", var in facts,
                               f"marko's Source.{f.attr} may return None (end of the enclosing container); `{var}` must be tested before it is "
                               "dereferenced or passed on, or the parser raises on such input", where(fi, node))
    ctx.require("R-TERM-none", "variables holding an Optional result of marko's Source", n_vars, 1)


def _guarded_in_expression_name(sub: ast.AST, key: str) -> bool:
    cur: ast.AST = sub
    p = parent(cur)
    while p is not None and not isinstance(p, ast.stmt):
        if isinstance(p, ast.BoolOp) and isinstance(p.op, ast.And):
            idx = next((i for i, v in enumerate(p.values) if _contains(v, cur)), None)
            if idx is not None and any(key in _facts(e, True) for e in p.values[:idx]):
                return True
        if isinstance(p, ast.IfExp):
            if _contains(p.body, cur) and key in _facts(p.test, True):
                return True
            if _contains(p.orelse, cur) and key in _facts(p.test, False):
                return True
        cur = p
        p = parent(p)
    return False


def check_dependency_regexes(ctx: Ctx) -> None:
    """Thorough: the literal regex constants of the marko modules on the parse path have none of the exponential shapes either."""
    from ..loader import site_packages

    sp = site_packages() / "marko"
    n = 0
    for path in sorted(sp.rglob("*.py")):
        rel = path.relative_to(sp)
        if rel.parts[0] == "ext" and (len(rel.parts) < 2 or rel.parts[1] not in ("gfm", "footnote.py", "pangu.py", "__init__.py")):
            continue
        try:
            tree = ast.parse(path.read_text())
        except (OSError, SyntaxError):
            continue
        for c in ast.walk(tree):
            if not (isinstance(c, ast.Call) and isinstance(c.func, ast.Attribute) and c.args and isinstance(c.args[0], ast.Constant)
                    and isinstance(c.args[0].value, str) and len(c.args[0].value) > 2):
                continue
            attr = c.func.attr
            is_re_call = isinstance(c.func.value, ast.Name) and c.func.value.id == "re" and attr in (
                "compile", "match", "search", "sub", "finditer", "findall", "split", "fullmatch")
            if not (is_re_call or attr == "expect_re"):
                continue
            pat = c.args[0].value
            n += 1
            try:
                rx = Regex(pat, re.M)
                amb = rx.glushkov().exponentially_ambiguous()
                stars = rx.star_problems()
            except ValueError as e:
                ctx.note(f"dependency_regex_unparsed:{rel}:{c.lineno}", str(e))
                continue
            ctx.ob("R-TERM-T3dep", f"marko/{rel} :: {pat!r}"[:160], amb is None and not stars,
                   "dependency pattern with an exponential-backtracking shape (a hang here is outside the repository, but it is a hang of "
                   "the formatter): " + "; ".join(([amb] if amb else []) + stars) if (amb or stars) else "no exponential shape",
                   f"marko/{rel}:{c.lineno}")
    ctx.require("R-TERM-T3dep", "literal regex patterns in marko", n, 20)


# ------------------------------------------------------------------------------ final newline
def check_result_newline(ctx: Ctx) -> None:
    """Markdown mode: whatever fill_markdown returns ends with the renderer's output (whose blocks are newline-terminated,
    R-PREFIX-P6) - on every path, early exits included - and reformat_text hands that value out unchanged."""
    from ..decide import Decider, role_of
    from .callback import flatten

    repo, prog = ctx.repo, ctx.prog
    fm = repo.func("flowmark.linewrapping.markdown_filling:fill_markdown")

    def value_leaf(cur: FuncInfo, e: ast.AST, aliases: frozenset):
        if isinstance(e, ast.Call) and isinstance(e.func, ast.Attribute) and e.func.attr == "render":
            return "RENDER"
        return None

    dec = Decider(prog, lambda _leaf, _al: None, value_leaf=value_leaf, derive=True, opaque={"flowmark.formats.frontmatter:split_frontmatter"})
    outs = dec.func_outcomes(fm, frozenset())
    bad = []
    for v in outs:
        parts = flatten(v) if v is not None else ()
        last = parts[-1] if parts else None
        if not (last == "RENDER" or (type(last) is str and last.endswith("\n"))):
            bad.append(v)
    ctx.ob("R-TERM-newline", f"{fm.qual} :: every returned text ends with the rendered document", not bad,
           "Markdown-mode output must end in a newline: each return value has to end with the renderer's output (or a literal newline); "
           f"the function can also return {sorted(map(str, bad))}" if bad else f"returns: {sorted(map(str, outs))}", where(fm, fm.node))
    rt = repo.func("flowmark.reformat_api:reformat_text")
    flow = prog.flow(rt)
    for r in flow.cfg.returns():
        org = origins(prog, rt, r.ast.value, r)
        ok = bool(org) and all(o[0] == "call" and str(o[1]).endswith((":fill_markdown", ":fill_text")) for o in org)
        ctx.ob("R-TERM-newline", f"{rt.qual} :: {norm(r.ast)} is the filler's result", ok,
               "reformat_text must return what fill_markdown / fill_text produced, unchanged; it returns " + ", ".join(str(o) for o in org), where(rt, r))
