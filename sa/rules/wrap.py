"""R-LOSSLESS, R-ACCT, R-SENT (C05, C06, C11, C12): words are placed exactly once, in order; widths are accounted once."""

from __future__ import annotations

import ast

from ..cfg import Node, must_edges, walk_no_nested
from ..constfold import Folder, Unknown
from ..dataflow import bind_call, chain_key, fmt_origin, origins
from ..decide import Decider, LoopFacts, expand_expr, role_of
from ..loader import AnalysisError, ConstInfo, FuncInfo
from ..report import Ctx
from .common import all_guards, base_call_predicate, call_name, deep_origins, direct_guards, factory_closure, norm, where

TW = "flowmark.linewrapping.text_wrapping"
LW = "flowmark.linewrapping.line_wrappers"
TH = "flowmark.linewrapping.tag_handling"


def iteration_paths(flow, head: Node, limit: int = 4000) -> list[list[Node]]:
    """Simple paths from the loop head through the body back to the head (one iteration each)."""
    out: list[list[Node]] = []
    stack: list[tuple[Node, list[Node]]] = [(s, [s]) for s, lab in head.succ if lab in ("iter", "T")]
    while stack and len(out) < limit:
        n, path = stack.pop()
        if n is head:
            out.append(path[:-1])
            continue
        for s, _ in n.succ:
            if s is head:
                out.append(path)
            elif s not in path and s in flow.loop_body_nodes(head):
                stack.append((s, path + [s]))
    return out


def sentence_wrapper(ctx: Ctx) -> FuncInfo:
    fac = ctx.repo.func(f"{LW}:line_wrap_by_sentence")
    return factory_closure(ctx.prog, fac)


def width_wrapper(ctx: Ctx) -> FuncInfo:
    fac = ctx.repo.func(f"{LW}:line_wrap_to_width")
    return factory_closure(ctx.prog, fac)


# --------------------------------------------------------------------------------------- L1 / L3
def check_word_placement(ctx: Ctx) -> None:
    repo, prog = ctx.repo, ctx.prog
    wl = repo.func(f"{TW}:wrap_paragraph_lines")
    flow = prog.flow(wl)
    loops = [h for h in flow.cfg.nodes if h.kind == "for"]
    word_loops = []
    for h in loops:
        org = origins(prog, wl, h.ast.iter, h)
        if any(o[0] == "call" for o in org):
            word_loops.append(h)
    ctx.require("R-LOSSLESS-L1", "word loop in wrap_paragraph_lines", len(word_loops), 1)
    for h in word_loops:
        var = h.ast.target.id
        # the word list is the splitter's result, unmodified
        worg = origins(prog, wl, h.ast.iter, h)
        ctx.ob("R-LOSSLESS-L1", f"{wl.qual} :: loop ranges over the splitter's words in order",
               all(o[0] == "call" for o in worg) and not any(isinstance(c, ast.Call) and isinstance(c.func, ast.Name) and c.func.id in ("sorted", "reversed", "set")
                                                            for c in ast.walk(h.ast.iter)),
               "the fill loop must visit the words as the splitter produced them", where(wl, h))

        def placement(n: Node) -> ast.AST | None:
            if n.kind != "stmt":
                return None
            a = n.ast
            if isinstance(a, ast.Expr) and isinstance(a.value, ast.Call) and isinstance(a.value.func, ast.Attribute) \
                    and a.value.func.attr == "append" and a.value.args and _is_line_acc(a.value.func.value):
                return a.value.args[0]
            if isinstance(a, ast.Assign) and isinstance(a.value, ast.List) and len(a.value.elts) == 1 and _is_line_acc(a.targets[0]):
                return a.value.elts[0]
            return None

        def _is_line_acc(e: ast.AST) -> bool:
            return isinstance(e, ast.Name) and e.id == acc

        # the accumulator: the list that is reset to a one-element list inside the loop
        acc = None
        for n in flow.loop_body_nodes(h):
            if n.kind == "stmt" and isinstance(n.ast, ast.Assign) and isinstance(n.ast.value, ast.List) and len(n.ast.value.elts) == 1 \
                    and isinstance(n.ast.targets[0], ast.Name):
                acc = n.ast.targets[0].id
        if acc is None:
            raise AnalysisError("L1: line accumulator of the fill loop not found")
        paths = iteration_paths(flow, h)
        ctx.note("fill_loop_iteration_paths", len(paths))
        bad = None
        for p in paths:
            k = sum(1 for n in p if placement(n) is not None)
            if k != 1:
                bad = (p, k)
                break
        ctx.ob("R-LOSSLESS-L1", f"{wl.qual} :: every iteration places its word exactly once", bad is None and bool(paths),
               f"on every path through the loop body the current word must be put on a line exactly once ({len(paths)} paths)"
               + (f"; a path places it {bad[1]} times" if bad else ""), where(wl, h),
               [f"{x.lineno}: {x.text()}" for x in (bad[0] if bad else [])])
        for n in flow.loop_body_nodes(h):
            v = placement(n)
            if v is None:
                continue
            org = origins(prog, wl, v, n)
            ok = bool(org) and all((o[0] == "iter") or (o[0] == "call" and o[1].endswith(":markdown_escape_word")) for o in org)
            ctx.ob("R-LOSSLESS-L1", f"{wl.qual} :: placed value {norm(n.ast)[:50]}", ok,
                   "the value placed on the line must be the word itself or its escaped form (never a slice, strip or re-split of it); "
                   "it is " + ", ".join(sorted(fmt_origin(o) for o in org)), where(wl, n))
    # L3 flush after the loop
    _check_flush(ctx, wl)
    ss = repo.func("flowmark.linewrapping.sentence_split_regex:split_sentences_regex")
    _check_flush(ctx, ss)
    tn = repo.func(f"{TH}:add_tag_newline_handling")
    for inner in tn.local_defs.values():
        if isinstance(inner, FuncInfo):
            _check_flush(ctx, inner)


def _check_flush(ctx: Ctx, fi: FuncInfo) -> None:
    """An accumulator that is emitted-and-reset inside a loop must be emitted once more after the loop."""
    prog = ctx.prog
    flow = prog.flow(fi)
    n_acc = 0
    for h in flow.cfg.nodes:
        if h.kind != "for":
            continue
        body = flow.loop_body_nodes(h)
        resets = {}
        for n in body:
            if n.kind == "stmt" and isinstance(n.ast, ast.Assign) and isinstance(n.ast.value, ast.List) and isinstance(n.ast.targets[0], ast.Name):
                resets[n.ast.targets[0].id] = n
        for acc, rn in resets.items():
            # emitted inside: X.append(<sep>.join(acc)) (directly or through a local)
            def emits(n: Node) -> bool:
                for c in flow.calls_in(n):
                    if isinstance(c.func, ast.Attribute) and c.func.attr == "join" and c.args and isinstance(c.args[0], ast.Name) and c.args[0].id == acc:
                        return True
                return False
            inside = [n for n in body if emits(n)]
            if not inside:
                continue
            n_acc += 1
            after = [n for n in flow.cfg.nodes if n not in body and n is not h and emits(n) and flow.cfg.path_avoiding(h, n, set()) is not None]
            ok = bool(after)
            if ok:
                # reachable on the path where the accumulator is non-empty: guarded at most by `if acc`
                for a in after:
                    gs = [g for g in direct_guards(prog, fi, a) if g[0].kind == "test"]
                    ok = ok and all(norm(g[0].ast) == acc and g[1] == "T" for g in gs)
            ctx.ob("R-LOSSLESS-L3", f"{fi.qual} :: accumulator `{acc}` flushed after the loop", ok,
                   f"`{acc}` is emitted and reset inside the loop; what it holds when the loop ends must be emitted too "
                   "(otherwise the last line / sentence / segment is dropped)", where(fi, h))
    ctx.count("flush_accumulators", n_acc)


# ------------------------------------------------------------------------------------------- L4
def check_sentence_lines(ctx: Ctx) -> None:
    """L4 + R-SENT: only lines[-1] crosses a sentence boundary; every wrapped line reaches the output."""
    repo, prog = ctx.repo, ctx.prog
    lw = sentence_wrapper(ctx)
    flow = prog.flow(lw)
    wl = repo.func(f"{TW}:wrap_paragraph_lines")
    loops = []
    for h in flow.cfg.nodes:
        if h.kind == "for" and any(prog.resolve_call(lw, c) == [wl] for m in flow.loop_body_nodes(h) for c in flow.calls_in(m)):
            loops.append(h)
    ctx.require("R-SENT", "sentence loop", len(loops), 1)
    if not loops:
        return
    h = loops[0]
    body = flow.loop_body_nodes(h)
    # sentences come from the splitter, one at a time
    it_org = origins(prog, lw, h.ast.iter, h)
    ctx.ob("R-SENT", f"{lw.qual} :: loop over the splitter's sentences", all(o[0] == "call" and "split_sentences" in o[1] or o[0] == "call" and o[1].startswith("local:") or o[0] == "free" for o in it_org) or
           any(o[0] == "call" for o in it_org), "the loop must range over the sentence splitter's result", where(lw, h))
    for n, c in flow.all_calls():
        if prog.resolve_call(lw, c) == [wl] and n in body:
            targ = bind_call(wl, c).get(wl.params[0])
            org = origins(prog, lw, targ, n) if targ is not None else frozenset()
            ctx.ob("R-SENT", f"{lw.qual} :: wraps one sentence at a time", bool(org) and all(o[0] == "iter" for o in org),
                   "wrap_paragraph_lines must be applied to the current sentence only; it gets " + ", ".join(fmt_origin(o) for o in org), where(lw, c))
    carried = flow.loop_carried(h)
    out_lists = {d.var for n in body for d in flow.defs_at[n] if d.kind == "mutate" and isinstance(d.value, ast.Call)
                 and isinstance(d.value.func, ast.Attribute) and d.value.func.attr == "extend"}
    # `lines += wrapped` on a list is the same extension
    for n in body:
        if n.kind == "stmt" and isinstance(n.ast, ast.AugAssign) and isinstance(n.ast.op, ast.Add) and isinstance(n.ast.target, ast.Name) \
                and any(d.kind == "assign" and isinstance(d.value, ast.List) for d in flow.defs if d.var == n.ast.target.id):
            out_lists.add(n.ast.target.id)
    ctx.note("sentence_loop_carried", sorted(carried))
    # besides the output list: one-way switches ("first line") and append-only accumulators, whatever they are called
    from .common import unexpected_carried

    _c, harmless = unexpected_carried(prog, lw, h)
    allowed = set(out_lists) | set(harmless)
    ctx.ob("R-SENT", f"{lw.qual} :: state carried across sentences", carried <= allowed and bool(out_lists),
           f"only the output line list and the first-line flag may be carried from one sentence to the next; carried: {sorted(carried)}", where(lw, h))
    for L in out_lists:
        reads_ok, writes_ok = True, True
        bad = []
        for n in body | {h}:
            for ex in flow.node_exprs(n):
                for sub in walk_no_nested(ex):
                    if isinstance(sub, ast.Name) and sub.id == L:
                        from ..loader import parent

                        p = parent(sub)
                        if isinstance(p, ast.Subscript) and norm(p.slice) == "-1":
                            continue  # lines[-1] read or lines[-1] += ...
                        if isinstance(p, ast.Call) and isinstance(p.func, ast.Name) and p.func.id == "len":
                            continue
                        if isinstance(p, ast.Attribute) and p.attr == "extend":
                            continue
                        if isinstance(p, ast.AugAssign) and p.target is sub and isinstance(p.op, ast.Add):
                            continue  # lines += wrapped
                        # truthiness (`if lines and ...`, `not lines`): the same information as len(lines) > 0
                        if isinstance(p, (ast.BoolOp, ast.If, ast.While, ast.IfExp)) or (isinstance(p, ast.UnaryOp) and isinstance(p.op, ast.Not)) \
                                or (isinstance(p, ast.Call) and isinstance(p.func, ast.Name) and p.func.id == "bool"):
                            if not (isinstance(p, ast.IfExp) and sub is not p.test):
                                continue
                        if n.kind == "test" and sub is n.ast:
                            continue
                        bad.append(norm(p)[:40])
        ctx.ob("R-SENT", f"{lw.qual} :: footprint on `{L}` inside the sentence loop", not bad,
               f"inside the loop the line list may only be touched as {L}[-1], len({L}) and {L}.extend(...): earlier lines are final once "
               f"written (diff locality); other uses: {bad}", where(lw, h))
        # merge statement guarded by the short-line test, and the pop paired with it
        merges = [n for n in body if n.kind == "stmt" and ((isinstance(n.ast, ast.AugAssign) and norm(n.ast.target) == f"{L}[-1]") or (
            isinstance(n.ast, ast.Assign) and len(n.ast.targets) == 1 and norm(n.ast.targets[0]) == f"{L}[-1]"
            and isinstance(n.ast.value, ast.BinOp) and isinstance(n.ast.value.op, ast.Add) and norm(n.ast.value).startswith(f"{L}[-1] +")) or (
            # lines[-1] = f"{lines[-1]} {...}": the same concatenation as an f-string
            isinstance(n.ast, ast.Assign) and len(n.ast.targets) == 1 and norm(n.ast.targets[0]) == f"{L}[-1]"
            and isinstance(n.ast.value, ast.JoinedStr) and n.ast.value.values and isinstance(n.ast.value.values[0], ast.FormattedValue)
            and n.ast.value.values[0].conversion == -1 and n.ast.value.values[0].format_spec is None and norm(n.ast.value.values[0].value) == f"{L}[-1]"))]
        def removals(x: Node) -> int:
            """how many times the statement takes the first line off a list: X.pop(0), X = X[1:], del X[0]"""
            k_ = sum(1 for c in flow.calls_in(x) if isinstance(c.func, ast.Attribute) and c.func.attr == "pop")
            a_ = x.ast
            if x.kind == "stmt" and isinstance(a_, ast.Assign) and len(a_.targets) == 1 and isinstance(a_.targets[0], ast.Name) and isinstance(a_.value, ast.Subscript) \
                    and isinstance(a_.value.value, ast.Name) and a_.value.value.id == a_.targets[0].id and isinstance(a_.value.slice, ast.Slice) \
                    and isinstance(a_.value.slice.lower, ast.Constant) and a_.value.slice.lower.value == 1 and a_.value.slice.upper is None and a_.value.slice.step is None:
                k_ += 1
            if x.kind == "stmt" and isinstance(a_, ast.Delete) and len(a_.targets) == 1 and isinstance(a_.targets[0], ast.Subscript) \
                    and isinstance(a_.targets[0].slice, ast.Constant) and a_.targets[0].slice.value == 0:
                k_ += 1
            return k_

        pops = [n for n in body if removals(n)]
        ctx.require("R-SENT", "short-line merge statements in the sentence loop", len(merges), 1)
        for mnode in merges:
            from .common import expand_flag_edges

            edges = expand_flag_edges(flow, must_edges(flow.cfg, h, mnode) or set())
            # ... and only when the merged line still fits: the fit test compares against the wrapper's own width
            fit_w = None
            for b_, lab_ in edges:
                if b_.kind != "test" or lab_ != "T":
                    continue
                cands_ = [b_.ast]
                try:
                    cands_.append(expand_expr(prog, lw, b_.ast, b_))
                except Exception:  # noqa: BLE001
                    pass
                for e_ in cands_:
                    for cj in ast.walk(e_):
                        if isinstance(cj, ast.Compare) and len(cj.ops) == 1 and isinstance(cj.ops[0], (ast.LtE, ast.Lt)) and f"{L}[-1]" in norm(cj.left) \
                                and isinstance(cj.comparators[0], ast.Name) and "min_line_len" not in norm(cj.comparators[0]):
                            fit_w = (cj.comparators[0], b_)
            if fit_w is not None:
                worg = origins(prog, lw, fit_w[0], fit_w[1])
                ctx.ob("R-SENT", f"{lw.qual} :: merged line is measured against the wrapper's width", worg <= frozenset({("free", "width"), ("param", "width")}) and bool(worg),
                       "the short-line merge must be limited by the width the wrapper was built with; it is compared with "
                       + ", ".join(fmt_origin(o) for o in worg), where(lw, mnode))
            def short_test(b: Node) -> bool:
                """a conjunct of the condition says: length of {L}[-1] < min_line_len (possibly behind a named temporary /
                the result of a predicate helper)"""
                cands_ = [b.ast]
                try:
                    cands_.append(expand_expr(prog, lw, b.ast, b))
                except Exception:  # noqa: BLE001
                    pass
                for e_ in cands_:
                    conj = []

                    def flat_and(x: ast.AST) -> None:
                        if isinstance(x, ast.BoolOp) and isinstance(x.op, ast.And):
                            for v_ in x.values:
                                flat_and(v_)
                        else:
                            conj.append(x)
                    flat_and(e_)
                    for cj in conj:
                        if isinstance(cj, ast.UnaryOp) and isinstance(cj.op, ast.Not) and isinstance(cj.operand, ast.Compare) and len(cj.operand.ops) == 1:
                            inv = {ast.GtE: ast.Lt, ast.LtE: ast.Gt}.get(type(cj.operand.ops[0]))
                            if inv is None:
                                continue
                            cj = ast.Compare(left=cj.operand.left, ops=[inv()], comparators=cj.operand.comparators)
                        if isinstance(cj, ast.Compare) and len(cj.ops) == 1:
                            l_, op_, r_ = cj.left, cj.ops[0], cj.comparators[0]
                            if isinstance(op_, ast.Gt):
                                l_, r_, op_ = r_, l_, ast.Lt()
                            if isinstance(op_, ast.Lt) and f"{L}[-1]" in norm(l_) and isinstance(l_, ast.Call) and len(l_.args) == 1 \
                                    and norm(l_.args[0]) == f"{L}[-1]" and "min_line_len" in norm(r_) and isinstance(r_, ast.Name):
                                return True
                return False

            short = any(b.kind == "test" and lab == "T" and short_test(b) for b, lab in edges)
            ctx.ob("R-SENT", f"{lw.qual} :: merge into {L}[-1] only when it is short", short,
                   "a sentence may join the previous line only if that line is shorter than the minimum line length", where(lw, mnode))
        for pn in pops:
            if pn in merges:
                # lines[-1] += " " + wrapped.pop(0): the removal is part of the merge statement itself
                ctx.ob("R-LOSSLESS-L4", f"{lw.qual} :: pop(0) paired with the merge", True, "removed and appended in one statement", where(lw, pn))
                continue
            edges = must_edges(flow.cfg, h, pn) or set()
            medges = [must_edges(flow.cfg, h, m) or set() for m in merges]
            paired = bool(merges) and any(edges == me for me in medges) and any(flow.cfg.path_avoiding(m, pn, set()) is not None for m in merges)
            ctx.ob("R-LOSSLESS-L4", f"{lw.qual} :: pop(0) paired with the merge", paired,
                   "the first wrapped line may be removed from `wrapped` only right after it was appended to the previous line "
                   "(otherwise a line is lost)", where(lw, pn))
        def dropped_on(path: list) -> int | None:
            """How many leading lines are missing from what this path hands to `{L}.extend(...)`, followed through copies
            (`rest = wrapped`), slices (`rest = wrapped[1:]`, islice(wrapped, 1, None)) and in-place removals (pop(0), del x[0]);
            None when the path extends by something that is not the wrapped sentence seen that way."""
            objs: dict[int, int] = {}
            env: dict[str, int | None] = {}
            fresh = [0]

            def new_obj(d: int) -> int:
                fresh[0] += 1
                objs[fresh[0]] = d
                return fresh[0]

            def ev(e: ast.AST) -> int | None:
                if isinstance(e, ast.Name):
                    return env.get(e.id)
                if isinstance(e, ast.Call) and prog.resolve_call(lw, e) == [wl]:
                    return new_obj(0)
                if isinstance(e, ast.Subscript) and isinstance(e.slice, ast.Slice) and e.slice.upper is None and e.slice.step is None \
                        and isinstance(e.slice.lower, ast.Constant) and isinstance(e.slice.lower.value, int) and e.slice.lower.value >= 0:
                    o = ev(e.value)
                    return None if o is None else new_obj(objs[o] + e.slice.lower.value)
                if isinstance(e, ast.Call) and isinstance(e.func, (ast.Name, ast.Attribute)) and (e.func.id if isinstance(e.func, ast.Name) else e.func.attr) == "islice" \
                        and len(e.args) == 3 and isinstance(e.args[1], ast.Constant) and isinstance(e.args[1].value, int) and e.args[1].value >= 0 \
                        and isinstance(e.args[2], ast.Constant) and e.args[2].value is None:
                    o = ev(e.args[0])
                    return None if o is None else new_obj(objs[o] + e.args[1].value)
                if isinstance(e, ast.Call) and isinstance(e.func, ast.Name) and e.func.id == "list" and len(e.args) == 1 and not e.keywords:
                    o = ev(e.args[0])
                    return None if o is None else new_obj(objs[o])
                return None

            seen_ext: list[int | None] = []
            for x in path:
                a_ = x.ast
                # removals in place
                for c in flow.calls_in(x):
                    if isinstance(c.func, ast.Attribute) and c.func.attr == "pop" and isinstance(c.func.value, ast.Name) and env.get(c.func.value.id) is not None \
                            and len(c.args) == 1 and isinstance(c.args[0], ast.Constant) and c.args[0].value == 0:
                        objs[env[c.func.value.id]] += 1
                    if isinstance(c.func, ast.Attribute) and c.func.attr == "extend" and isinstance(c.func.value, ast.Name) and c.func.value.id == L and len(c.args) == 1:
                        o = ev(c.args[0])
                        seen_ext.append(None if o is None else objs[o])
                if x.kind == "stmt" and isinstance(a_, ast.Delete) and len(a_.targets) == 1 and isinstance(a_.targets[0], ast.Subscript) \
                        and isinstance(a_.targets[0].value, ast.Name) and isinstance(a_.targets[0].slice, ast.Constant) and a_.targets[0].slice.value == 0 \
                        and env.get(a_.targets[0].value.id) is not None:
                    objs[env[a_.targets[0].value.id]] += 1
                if x.kind == "stmt" and isinstance(a_, ast.AugAssign) and isinstance(a_.target, ast.Name) and a_.target.id == L and isinstance(a_.op, ast.Add):
                    o = ev(a_.value)
                    seen_ext.append(None if o is None else objs[o])
                if x.kind == "stmt" and isinstance(a_, ast.Assign) and len(a_.targets) == 1 and isinstance(a_.targets[0], ast.Name):
                    env[a_.targets[0].id] = ev(a_.value)
                elif x.kind == "stmt" and isinstance(a_, (ast.Assign, ast.AnnAssign, ast.AugAssign)):
                    for t_ in ast.walk(a_):
                        if isinstance(t_, ast.Name) and isinstance(t_.ctx, ast.Store) and t_.id != L:
                            env[t_.id] = None
            if len(seen_ext) != 1 or seen_ext[0] is None:
                return None
            return seen_ext[0]

        bad_path = None
        n_tracked = 0
        for path in iteration_paths(flow, h):
            n_m = sum(1 for x in path if x in merges)
            d_ = dropped_on(path)
            n_p = d_ if d_ is not None else sum(removals(x) for x in path)
            n_tracked += d_ is not None
            if n_m != n_p:
                bad_path = path
                break
        ctx.count("sentence_loop_paths_with_the_extended_value_followed", n_tracked)
        ctx.ob("R-LOSSLESS-L4", f"{lw.qual} :: as many pops as merges on every path", bad_path is None,
               "on every path through the loop body the number of lines removed from `wrapped` must equal the number merged into the previous line",
               where(lw, h), [f"{x.lineno}: {x.text()}" for x in (bad_path or [])])
        exts = [n for n in body if any(isinstance(c.func, ast.Attribute) and c.func.attr == "extend" for c in flow.calls_in(n))
                or (n.kind == "stmt" and isinstance(n.ast, ast.AugAssign) and isinstance(n.ast.target, ast.Name) and n.ast.target.id == L)]
        for en in exts:
            edges = {(b, lab) for b, lab in (must_edges(flow.cfg, h, en) or set()) if b is not h}
            ctx.ob("R-LOSSLESS-L4", f"{lw.qual} :: every wrapped line is added to the output", not edges,
                   "lines.extend(wrapped) must run in every iteration", where(lw, en))


def check_wrapping_memos(ctx: Ctx) -> None:
    """R-MEMO over the line-wrapping layer (today it keeps no such table at all)."""
    from .common import check_memo_keys

    n = check_memo_keys(ctx, "R-MEMO", ("flowmark.linewrapping",))
    ctx.note("memo_stores_in_the_wrapping_layer", n)
    # a function memoised with functools (decorator, or wrapped by hand: `fast = lru_cache(maxsize=256)(f)`) hands the very
    # object it cached to every caller that hits: if that object is a list (wrapped lines that the sentence merge pops and
    # edits), one caller's edit is what the next caller gets
    prog, repo = ctx.prog, ctx.repo
    n_wrapped = 0
    for fi in repo.functions.values():
        if not fi.module.name.startswith("flowmark.linewrapping") or isinstance(fi.node, ast.Lambda):
            continue
        cands: list[tuple[ast.AST, FuncInfo]] = []
        if any(d.split("(")[0].split(".")[-1] in ("cache", "lru_cache") for d in fi.decorators):
            cands.append((fi.node, fi))
        for c in walk_no_nested(fi.node):
            if isinstance(c, ast.Call) and c.args and isinstance(c.args[0], (ast.Name, ast.Attribute)):
                f0 = c.func
                inner = f0.func if isinstance(f0, ast.Call) else f0   # lru_cache(maxsize=..)(f)  /  cache(f)
                nm = inner.id if isinstance(inner, ast.Name) else (inner.attr if isinstance(inner, ast.Attribute) else "")
                if nm in ("cache", "lru_cache"):
                    tgt = repo.resolve_expr(c.args[0], fi.module, fi)
                    if isinstance(tgt, FuncInfo) and not isinstance(tgt.node, ast.Lambda):
                        cands.append((c, tgt))
        for site, tgt in cands:
            n_wrapped += 1
            ann = norm(tgt.node.returns) if getattr(tgt.node, "returns", None) is not None else ""
            mutable = ann.split("[")[0].split(".")[-1] in ("list", "List", "dict", "Dict", "set", "Set", "deque")
            if not mutable:
                for r in prog.flow(tgt).cfg.returns():
                    v = r.ast.value
                    if isinstance(v, (ast.List, ast.ListComp, ast.Dict, ast.Set)):
                        mutable = True
                    elif isinstance(v, ast.Call):
                        t2 = prog.resolve_call(tgt, v)
                        if isinstance(t2, list) and len(t2) == 1 and not isinstance(t2[0].node, ast.Lambda) and getattr(t2[0].node, "returns", None) is not None \
                                and norm(t2[0].node.returns).split("[")[0].split(".")[-1] in ("list", "List", "dict", "Dict", "set", "Set"):
                            mutable = True
            ctx.ob("R-MEMO", f"{fi.qual} :: memoised `{tgt.name}` returns an immutable value", not mutable,
                   f"`{tgt.name}` is memoised and returns a mutable container (`{ann or 'list'}`): every hit hands out the same object, so a caller that "
                   "pops from it or edits it in place changes what later calls with equal arguments get", where(fi, site))
    ctx.note("memoised_functions_in_the_wrapping_layer", n_wrapped)


# ------------------------------------------------------------------------------------- L5 L6 L7
def check_placeholders(ctx: Ctx) -> None:
    """L5: atomic constructs leave the text as NUL-delimited placeholders and all come back.

    The rule is stated on the *sites*, wherever they live (two private helpers, as today, or written out in the splitter):
    the one substitution over ATOMIC_CONSTRUCT_PATTERN (site E, with its callback and the container it stores matches in)
    and the `.replace(placeholder, construct)` loop (site R). Between them: the same placeholder spelling, the same
    container, every token handed out has been through the replace loop."""
    from .. import anchors
    from .callback import callback_of, group_index

    repo, prog = ctx.repo, ctx.prog
    call = anchors.splitter_call(ctx)
    region = [call] + [f for f in anchors._callees(ctx, call, 2) if f.module.name != TH]

    def is_combined(e: ast.AST, f: FuncInfo) -> bool:
        r = repo.resolve_expr(e, f.module, f) if isinstance(e, (ast.Name, ast.Attribute)) else None
        return isinstance(r, ConstInfo) and r.name == "ATOMIC_CONSTRUCT_PATTERN"

    # ---- site E: substitutions with a callback, in the splitter and its private helpers
    sub_sites: list[tuple[FuncInfo, Node, ast.Call]] = []
    for f in region:
        for n, c in prog.flow(f).all_calls():
            if isinstance(c.func, ast.Attribute) and c.func.attr in ("sub", "subn") and callback_of(prog, f, c) is not None:
                sub_sites.append((f, n, c))

    def combined_site(f: FuncInfo, c: ast.Call) -> bool:
        recv = c.func.value
        if is_combined(recv, f):
            return True
        if isinstance(recv, ast.Name) and recv.id in f.params:
            # the pattern is a parameter: every caller of the helper must hand in the combined pattern
            sites = [(g, cc) for g in repo.functions.values() if not isinstance(g.node, ast.Lambda)
                     for cc in walk_no_nested(g.node) if isinstance(cc, ast.Call) and prog.resolve_call(g, cc) == [f]]
            return bool(sites) and all(bind_call(f, cc).get(recv.id) is not None and is_combined(bind_call(f, cc)[recv.id], g) for g, cc in sites)
        return False

    if not sub_sites:
        raise AnalysisError("the atomic-construct extraction (a .sub with a replacement callback in the word splitter or its helpers) was not found")
    ext, e_node, e_call = sub_sites[0]
    ok = len(sub_sites) == 1 and combined_site(ext, e_call)
    ctx.ob("R-LOSSLESS-L5", f"{ext.qual} :: one pass over ATOMIC_CONSTRUCT_PATTERN", ok,
           "constructs are extracted by a single sub() over the combined pattern (nested re-extraction would corrupt placeholders)", where(ext, e_call))
    cb = callback_of(prog, ext, e_call)
    cbf = cb.func
    # the callback stores the whole match, in a container it shares with the restore step
    cflow = prog.flow(cbf)
    container: str | None = None  # the container, as the function holding site E names it
    stores = False

    def as_seen_by_ext(target: ast.AST) -> str | None:
        k = chain_key(target) if isinstance(target, (ast.Name, ast.Attribute)) else None
        if k is None:
            return None
        if cb.how == "function" and isinstance(target, ast.Name):
            return k  # closure variable shared with the enclosing function
        if cb.how in ("instance", "bound") and cbf.params and k.startswith(cbf.params[0] + "."):
            arg = e_call.args[1] if prog.resolve_call(ext, e_call) in ("re.sub", "re.subn") and len(e_call.args) > 1 else (e_call.args[0] if e_call.args else None)
            if cb.how == "bound" and isinstance(arg, ast.Attribute):
                arg = arg.value  # obj.method: the container is a field of obj
            if isinstance(arg, ast.Name):
                return arg.id + k[len(cbf.params[0]):]
        return None

    for n_ in cflow.cfg.nodes:
        if n_.kind == "stmt" and isinstance(n_.ast, ast.Assign) and isinstance(n_.ast.targets[0], ast.Subscript):
            if group_index(prog, cbf, n_.ast.value, n_, cb.mparam) == 0:
                stores, container = True, as_seen_by_ext(n_.ast.targets[0].value)
        for c_ in cflow.calls_in(n_):
            if isinstance(c_.func, ast.Attribute) and c_.func.attr == "append" and len(c_.args) == 1 \
                    and group_index(prog, cbf, c_.args[0], n_, cb.mparam) == 0:
                stores, container = True, as_seen_by_ext(c_.func.value)
    ctx.ob("R-LOSSLESS-L5", f"{cbf.qual} :: stores the whole match", stores, "the map must hold match.group(0) (the construct verbatim)", where(cbf, cbf.node))
    ext_t: set = set()
    for r in cflow.cfg.returns():
        ext_t.add(str_template(prog, cbf, r.ast.value, r))
    # NUL-delimited: read off the template the extraction side builds (prefix, index, suffix)
    pre = suf = None
    if len(ext_t) == 1:
        t0 = next(iter(ext_t))
        if t0 is not None and len(t0) == 3 and t0[0][0] == "c" and t0[1] == ("h",) and t0[2][0] == "c":
            pre, suf = t0[0][1], t0[2][1]
    ctx.ob("R-LOSSLESS-L5", f"{TW} :: placeholder delimiters", isinstance(pre, str) and isinstance(suf, str) and pre.startswith("\x00") and suf == "\x00",
           f"placeholders must be delimited by NUL bytes (cannot be produced by whitespace splitting or occur in text): {pre!r} ... {suf!r}",
           "text_wrapping.py")

    # ---- site R: the replace calls that put constructs back
    rep_sites: list[tuple[FuncInfo, Node, ast.Call, object]] = []
    for f in region:
        if f is cbf:
            continue
        for n, c in prog.flow(f).all_calls():
            if isinstance(c.func, ast.Attribute) and c.func.attr == "replace" and len(c.args) == 2 and not c.keywords:
                rep_sites.append((f, n, c, _replace_template(prog, f, c.args[0], n)))
    if not rep_sites:
        raise AnalysisError("the restore step (str.replace of placeholders in the word splitter or its helpers) cannot be located")
    res_t = {t for _f, _n, _c, t in rep_sites}
    want_t = (("c", pre), ("h",), ("c", suf)) if isinstance(pre, str) and isinstance(suf, str) else None
    ctx.ob("R-LOSSLESS-L5", f"{TW} :: extract and restore spell placeholders alike",
           bool(ext_t) and ext_t == res_t and None not in ext_t and (want_t is None or ext_t == {want_t}),
           f"both sides must build the placeholder as prefix+index+suffix: extract returns {sorted(map(str, ext_t))}, restore replaces {sorted(map(str, res_t))}",
           "text_wrapping.py")
    res_funcs = list({f.qual: f for f, _n, _c, _t in rep_sites}.values())
    if len(res_funcs) != 1:
        raise AnalysisError("placeholders are replaced in several functions: the restore step cannot be located")
    res = res_funcs[0]  # the function that holds the replace loop
    # the call chain splitter -> ... -> res (res may be the splitter itself, a helper, or a helper of a helper)
    chain = _call_chain(ctx, call, res)
    if chain is None:
        raise AnalysisError(f"{res.qual} holds the placeholder replacement but is not called from the word splitter")

    # ---- from E to R inside the splitter
    flow = prog.flow(call)
    for caller, callee in zip(chain, chain[1:]):
        cflow_ = prog.flow(caller)
        for r in cflow_.cfg.returns():
            if r.ast.value is None:
                continue
            ok = deep_origins(prog, caller, r.ast.value, r, stop={callee.qual}) == frozenset({("call", callee.qual)}) or _maps_callee(prog, caller, r.ast.value, callee)
            if caller is not call and not ok:
                # a helper may also hand its input back when nothing was extracted - the path rule below looks at those returns
                continue
            ctx.ob("R-LOSSLESS-L5", f"{caller.qual} :: {norm(r.ast)[:60]}", ok,
                   "every return of the splitter must hand out tokens that went through the restore step (no placeholder may survive)",
                   where(caller, r))
    # the container the replace loop walks is the one the extraction filled
    rflow = prog.flow(res)
    loops = []
    for _f, n, _c, _t in rep_sites:
        hs = [h for h in rflow.cfg.nodes if h.kind == "for" and n in rflow.loop_body_nodes(h)]
        if hs:
            loops.append(min(hs, key=lambda h: len(rflow.loop_body_nodes(h))))
    loops = list(dict.fromkeys(loops))
    for h in loops:
        # follow the container up the call chain into the splitter
        cur_f, cur_e, cur_n = res, _container_root(prog, res, h.ast.iter, h), h
        what, where_c, lost = norm(cur_e), (res, h), False
        for caller, callee in reversed(list(zip(chain, chain[1:]))):
            cfl = prog.flow(callee)
            sites = [(n, c) for n, c in _calls_incl_comprehensions(prog, caller) if prog.resolve_call(caller, c) == [callee]]
            if len(sites) != 1:
                lost = True
                break
            n, c = sites[0]
            if isinstance(cur_e, ast.Attribute) and isinstance(cur_e.value, ast.Name) and callee.cls is not None and callee.params \
                    and cur_e.value.id == callee.params[0] and isinstance(c.func, ast.Attribute):
                # a field of the object the method was called on: self.X  ->  <receiver>.X
                arg = ast.copy_location(ast.Attribute(value=c.func.value, attr=cur_e.attr, ctx=ast.Load()), c)
            elif isinstance(cur_e, ast.Name) and cur_e.id in callee.params and all(d.kind == "param" for d in cfl.reaching(cur_n, cur_e.id)):
                arg = bind_call(callee, c).get(cur_e.id)
            else:
                lost = True
                break
            if arg is None:
                lost = True
                break
            cur_f, cur_e, cur_n = caller, _container_root(prog, caller, arg, n), n
            what, where_c = norm(arg), (caller, c)
        ok = (not lost) and _is_extracted_container(ctx, call, cur_e, cur_n, ext, e_call, container)
        ctx.ob("R-LOSSLESS-L5", f"{call.qual} :: restore uses the map produced by extract", ok,
               f"the placeholder map handed to restore must be the one extract just built (it is `{what}`)", where(where_c[0], where_c[1]))
    # ---- inside R: every token handed out went through the replace loop
    _restore_discipline(ctx, res, rflow, rep_sites, loops, pre, suf)


def _calls_incl_comprehensions(prog, fi: FuncInfo) -> list[tuple[Node, ast.Call]]:
    return list(prog.flow(fi).all_calls())


def _call_chain(ctx: Ctx, top: FuncInfo, target: FuncInfo, depth: int = 3) -> list[FuncInfo] | None:
    """[top, ..., target]: a chain of direct calls (shortest)."""
    if top is target:
        return [top]
    prog = ctx.prog
    frontier = [[top]]
    seen = {top.qual}
    for _ in range(depth):
        nxt = []
        for path in frontier:
            f = path[-1]
            for c in walk_no_nested(f.node):
                if isinstance(c, ast.Call):
                    t = prog.resolve_call(f, c)
                    if isinstance(t, list) and len(t) == 1 and t[0].qual not in seen and not isinstance(t[0].node, ast.Lambda):
                        if t[0] is target:
                            return path + [target]
                        seen.add(t[0].qual)
                        nxt.append(path + [t[0]])
        frontier = nxt
    return None


def _maps_callee(prog, fi: FuncInfo, v: ast.AST, callee: FuncInfo) -> bool:
    """`[callee(t, ...) for t in xs]` / `list(callee(t, ...) for t in xs)`: every element went through callee."""
    if isinstance(v, ast.Call) and isinstance(v.func, ast.Name) and v.func.id in ("list", "tuple") and len(v.args) == 1:
        v = v.args[0]
    if isinstance(v, (ast.ListComp, ast.GeneratorExp)) and len(v.generators) == 1 and not v.generators[0].ifs and isinstance(v.elt, ast.Call):
        return prog.resolve_call(fi, v.elt) == [callee]
    return False


def _is_extracted_container(ctx: Ctx, call: FuncInfo, expr: ast.AST | None, node: Node, ext: FuncInfo, e_call: ast.Call, container: str | None) -> bool:
    """Is `expr` (in the splitter) the container the extraction callback stored the matches in?"""
    prog = ctx.prog
    if expr is None:
        return False
    if ext is call:
        # the callback is a closure of the splitter (or an object it made): same local, bound once
        k = chain_key(expr) if isinstance(expr, (ast.Name, ast.Attribute)) else None
        if container is not None and k == container:
            defs = prog.flow(call).reaching(node, container.split(".")[0])
            return len(defs) == 1 and defs[0].kind == "assign"
        return False
    # the extraction helper returns the container (alone, or in a tuple next to the substituted text): the argument must be
    # exactly that element of its result
    eflow = prog.flow(ext)

    def is_text(e: ast.AST, r: Node) -> bool:
        if e is e_call:
            return True
        if isinstance(e, ast.Name):
            defs = eflow.reaching(r, e.id)
            return len(defs) == 1 and defs[0].value is e_call
        return False

    idx: set = set()
    for r in eflow.cfg.returns():
        v = r.ast.value
        if isinstance(v, ast.Tuple) and container is not None and "." in container and isinstance(expr, ast.Attribute) \
                and any(isinstance(e, ast.Name) and e.id == container.rpartition(".")[0] for e in v.elts):
            # the helper hands out the object whose field the callback filled: (obj, text) with container obj.field
            hit = [i for i, e in enumerate(v.elts) if isinstance(e, ast.Name) and e.id == container.rpartition(".")[0]]
            idx.add(("objfield", hit[0], container.rpartition(".")[2]) if len(hit) == 1 else None)
        elif isinstance(v, ast.Tuple):
            if container is not None:
                hit = [i for i, e in enumerate(v.elts) if isinstance(e, (ast.Name, ast.Attribute)) and chain_key(e) == container]
            else:
                hit = [i for i, e in enumerate(v.elts) if not is_text(e, r)] if len(v.elts) == 2 else []
            idx.add(hit[0] if len(hit) == 1 else None)
        elif container is not None and isinstance(v, (ast.Name, ast.Attribute)) and chain_key(v) == container:
            idx.add("whole")
        elif container is not None and isinstance(v, ast.Call) and isinstance(v.func, (ast.Name, ast.Attribute)) \
                and type(prog.repo.resolve_expr(v.func, ext.module, ext)).__name__ == "ClassInfo":
            # a small record (NamedTuple / dataclass) holding the container in one of its fields
            ci = prog.repo.resolve_expr(v.func, ext.module, ext)
            fields = [st.target.id for st in ci.node.body if isinstance(st, ast.AnnAssign) and isinstance(st.target, ast.Name)]
            fld = next((k.arg for k in v.keywords if k.arg and isinstance(k.value, (ast.Name, ast.Attribute)) and chain_key(k.value) == container), None)
            if fld is None:
                fld = next((fields[i] for i, a in enumerate(v.args) if i < len(fields) and isinstance(a, (ast.Name, ast.Attribute)) and chain_key(a) == container), None)
            idx.add(("field", fld) if fld else None)
        else:
            idx.add(None)
    if len(idx) != 1 or None in idx:
        return False
    k = next(iter(idx))
    if isinstance(k, tuple) and k[0] == "objfield":
        return isinstance(expr, ast.Attribute) and expr.attr == k[2] and origins(prog, call, expr.value, node) == frozenset({("unpack", ("call", ext.qual), k[1])})
    if isinstance(k, tuple) and k[0] == "field":
        return isinstance(expr, ast.Attribute) and expr.attr == k[1] and origins(prog, call, expr.value, node) == frozenset({("call", ext.qual)})
    org = origins(prog, call, expr, node)
    return org == (frozenset({("call", ext.qual)}) if k == "whole" else frozenset({("unpack", ("call", ext.qual), k)}))


def _bound_once(prog, fi: FuncInfo, name: ast.Name, node: Node) -> ast.AST | None:
    """The defining expression of a local bound by exactly one plain assignment that reaches `node` (comprehensions too)."""
    defs = prog.flow(fi).reaching(node, name.id)
    if len(defs) == 1 and defs[0].kind == "assign" and defs[0].value is not None and not defs[0].weak:
        return defs[0].value
    return None


def _container_root(prog, fi: FuncInfo, expr: ast.AST, node: Node, depth: int = 0) -> ast.AST:
    """The container an iterable walks: through .items() / enumerate() / sorted() / list() and through a comprehension
    that only re-packages the entries (`[(placeholder(i), c) for i, c in m.items()]`)."""
    e = expr
    for _ in range(8):
        if isinstance(e, ast.Call) and isinstance(e.func, ast.Attribute) and e.func.attr in ("items", "values", "keys", "copy") and not e.args:
            e = e.func.value
        elif isinstance(e, ast.Call) and isinstance(e.func, ast.Name) and e.func.id in ("enumerate", "sorted", "list", "tuple", "reversed", "iter") and e.args:
            e = e.args[0]
        elif isinstance(e, (ast.ListComp, ast.GeneratorExp, ast.SetComp, ast.DictComp)) and len(e.generators) == 1 and not e.generators[0].ifs:
            e = e.generators[0].iter
        elif isinstance(e, ast.Name):
            v = _bound_once(prog, fi, e, node)
            # a name that merely re-packages another container is looked through; the container itself (born as a literal) is the root
            if isinstance(v, (ast.ListComp, ast.GeneratorExp, ast.SetComp, ast.DictComp)) or (isinstance(v, ast.Call) and (
                    (isinstance(v.func, ast.Attribute) and v.func.attr in ("items", "values", "keys", "copy"))
                    or (isinstance(v.func, ast.Name) and v.func.id in ("enumerate", "sorted", "list", "tuple", "reversed") and v.args))):
                e = v
            else:
                break
        else:
            break
    return e


def _replace_template(prog, fi: FuncInfo, a: ast.AST, node: Node):
    """Template of the string a `.replace(a, b)` searches for - also when the placeholders were built beforehand and `a` is
    the first half of a pair the loop unpacks (`for placeholder, construct in [(f"..{i}..", c) for i, c in m.items()]`)."""
    t = str_template(prog, fi, a, node)
    if t is not None or not isinstance(a, ast.Name):
        return t
    flow = prog.flow(fi)
    defs = flow.reaching(node, a.id)
    if len(defs) == 1 and defs[0].kind == "for" and defs[0].node.kind == "for" and defs[0].index is not None:
        it = defs[0].node.ast.iter
        if isinstance(it, ast.Name):
            it = _bound_once(prog, fi, it, defs[0].node) or it
        if isinstance(it, ast.Call) and isinstance(it.func, ast.Attribute) and it.func.attr == "items" and not it.args:
            inner = it.func.value
            if isinstance(inner, ast.Name):
                inner = _bound_once(prog, fi, inner, defs[0].node) or inner
            if isinstance(inner, ast.DictComp) and defs[0].index < 2:
                return str_template(prog, fi, (inner.key, inner.value)[defs[0].index], defs[0].node)
        if isinstance(it, (ast.ListComp, ast.GeneratorExp)) and isinstance(it.elt, ast.Tuple) and defs[0].index < len(it.elt.elts):
            return str_template(prog, fi, it.elt.elts[defs[0].index], defs[0].node)
    return None


def _restore_discipline(ctx: Ctx, res: FuncInfo, rflow, rep_sites, loops: list[Node], pre, suf) -> None:
    """Inside the function that restores: a token variable is rewritten by `x = x.replace(placeholder, construct)` in a loop
    over the container; every use of x that hands it out (append / yield / return) lies behind that loop on every path from
    where x got its token - except paths on which there is provably nothing to restore (the container is empty, or the
    token does not contain the placeholder prefix)."""
    prog = ctx.prog
    tokvars = set()
    for _f, n, c, _t in rep_sites:
        if n.kind == "stmt" and isinstance(n.ast, ast.Assign) and len(n.ast.targets) == 1 and isinstance(n.ast.targets[0], ast.Name) \
                and isinstance(c.func.value, ast.Name) and c.func.value.id == n.ast.targets[0].id and n.ast.value is c:
            tokvars.add(n.ast.targets[0].id)
    if len(tokvars) != 1 or not loops:
        ctx.note("restore_discipline", "replace is not of the form `x = x.replace(...)` inside a loop: the path rule does not apply")
        return
    x = next(iter(tokvars))
    rep_nodes = {n for _f, n, _c, _t in rep_sites}
    loop_set = set(loops)
    roots = {norm(_container_root(prog, res, h.ast.iter, h)) for h in loops}

    def nothing_to_restore(test: ast.AST, truth: bool) -> bool:
        while isinstance(test, ast.UnaryOp) and isinstance(test.op, ast.Not):
            test, truth = test.operand, not truth
        if isinstance(test, ast.Compare) and len(test.ops) == 1:
            op, l, r = test.ops[0], test.left, test.comparators[0]
            if isinstance(op, (ast.In, ast.NotIn)) and isinstance(r, ast.Name) and r.id == x:
                k = str_template(prog, res, l, rflow.cfg.entry)
                absent = truth if isinstance(op, ast.NotIn) else not truth
                if absent and k is not None and len(k) == 1 and k[0][0] == "c" and k[0][1] and isinstance(pre, str) and isinstance(suf, str) \
                        and (k[0][1] in pre or k[0][1] in suf):
                    return True
            if isinstance(l, ast.Call) and isinstance(l.func, ast.Name) and l.func.id == "len" and l.args and isinstance(r, ast.Constant) and r.value == 0 \
                    and norm(_container_root(prog, res, l.args[0], rflow.cfg.entry)) in roots:
                return truth if isinstance(op, ast.Eq) else (not truth if isinstance(op, (ast.NotEq, ast.Gt)) else False)
            return False
        if isinstance(test, (ast.Name, ast.Attribute)) and norm(_container_root(prog, res, test, rflow.cfg.entry)) in roots:
            return not truth
        return False

    def escapes(src: Node, dst: Node) -> list[Node] | None:
        """a path src -> dst that enters no replace loop and crosses no nothing-to-restore edge"""
        prev: dict[Node, Node | None] = {src: None}
        queue = [src]
        while queue:
            n = queue.pop(0)
            if n is dst and n is not src:
                path, cur = [], n
                while cur is not None:
                    path.append(cur)
                    cur = prev[cur]
                return path[::-1]
            for s_, lab in n.succ:
                if s_ in prev or (s_ in loop_set and s_ is not dst):
                    continue
                if n.kind == "test" and lab in ("T", "F") and isinstance(n.ast, ast.expr) and nothing_to_restore(n.ast, lab == "T"):
                    continue
                prev[s_] = n
                queue.append(s_)
        return None

    n_out = 0
    handled: set[Node] = set()
    accumulators: set[str] = set()
    for n in rflow.cfg.nodes:
        if n in rep_nodes or n in loop_set:
            continue
        outs: list[ast.AST] = []
        for c in rflow.calls_in(n):
            if isinstance(c.func, ast.Attribute) and c.func.attr in ("append", "add", "extend", "insert") and any(
                    isinstance(a, ast.Name) and a.id == x for a in ast.walk(ast.Tuple(elts=list(c.args), ctx=ast.Load()))):
                outs.append(c)
                if isinstance(c.func.value, ast.Name):
                    accumulators.add(c.func.value.id)
        for ex in rflow.node_exprs(n):
            for y in walk_no_nested(ex):
                if isinstance(y, (ast.Yield,)) and y.value is not None and any(isinstance(a, ast.Name) and a.id == x for a in ast.walk(y.value)):
                    outs.append(y)
        if n.kind == "stmt" and isinstance(n.ast, ast.Return) and n.ast.value is not None \
                and any(isinstance(a, ast.Name) and a.id == x for a in ast.walk(n.ast.value)):
            outs.append(n.ast)
            handled.add(n)
        for o in outs:
            n_out += 1
            bad = None
            for d in rflow.reaching(n, x):
                if d.node in rep_nodes:
                    continue
                path = escapes(d.node, n)
                if path is not None:
                    bad = path
            ctx.ob("R-LOSSLESS-L5", f"{res.qual} :: {norm(o)[:50]} hands out a restored token", bad is None,
                   f"`{x}` may reach this point without having been through the placeholder-replacing loop (a placeholder would survive in the output)",
                   where(res, o), [f"{p.lineno}: {p.text()}" for p in (bad or [])])
    # returns that hand the incoming tokens back some other way are legitimate only when there was nothing to restore
    sources = {x} & set(res.params)
    for d in [d for n in rflow.cfg.nodes for d in rflow.reaching(n, x)]:
        if d.kind == "for" and d.node.kind == "for":
            root = _container_root(prog, res, d.node.ast.iter, d.node)
            if isinstance(root, ast.Name):
                sources.add(root.id)

    def unrestored(expr: ast.AST, node: Node, depth: int = 0) -> list[tuple[Node, ast.AST]]:
        """places where a value built from the incoming tokens - not the restored ones - enters what is returned"""
        if isinstance(expr, ast.Name):
            if expr.id in accumulators or expr.id == x:
                return []
            if expr.id in sources:
                return [(node, expr)]
            defs = rflow.reaching(node, expr.id)
            if defs and all(d.kind == "assign" and d.value is not None for d in defs) and depth < 4:
                out: list[tuple[Node, ast.AST]] = []
                for d in defs:
                    out += unrestored(d.value, d.node, depth + 1)
                return out
        sl = prog.slice(res, expr, node)
        if (sl.params() & sources) or any(d.var in sources for d in sl.defs):
            return [(node, expr)]
        return []

    for r in rflow.cfg.returns():
        v = r.ast.value
        if v is None or r in handled:
            continue
        for at, e in unrestored(v, r):
            guarded = any(n.kind == "test" and isinstance(n.ast, ast.expr) and nothing_to_restore(n.ast, lab == "T") for n, lab in rflow.control_deps(at))
            ctx.ob("R-LOSSLESS-L5", f"{res.qual} :: `{norm(e)[:40]}` is handed back only when nothing was extracted", guarded,
                   "tokens that did not go through the placeholder-replacing loop may be returned only under `the container is empty`", where(res, at))
    ctx.require("R-LOSSLESS-L5", f"token hand-out sites in {res.qual}", n_out, 1)


def _map_param(res: FuncInfo) -> str:
    """The parameter of the restore function that holds the placeholder map (by annotation or dict-style use, not position)."""
    a = res.node.args
    for x in a.posonlyargs + a.args + a.kwonlyargs:
        if x.annotation is not None and norm(x.annotation).lower().startswith(("dict", "mapping", "collections.abc.mapping")):
            return x.arg
    for p in res.params:
        for x in ast.walk(res.node):
            if isinstance(x, ast.Attribute) and isinstance(x.value, ast.Name) and x.value.id == p and x.attr in ("items", "get", "keys", "values"):
                return p
    return res.params[1] if len(res.params) > 1 else res.params[0]


def str_template(prog, fi: FuncInfo, expr: ast.AST | None, node: Node, depth: int = 0):
    """The string `expr` builds, as a tuple of ("c", text) constants and ("h",) holes (values converted with str / an
    f-string field); None when it is not such a concatenation. Temporaries, module constants and helpers are read through."""
    from ..decide import expand_expr

    if expr is None or depth > 3:
        return None
    e = expand_expr(prog, fi, expr, node, strict=False)

    def merge(parts):
        out: list = []
        for p in parts:
            if p[0] == "c" and p[1] == "":
                continue
            if out and out[-1][0] == "c" and p[0] == "c":
                out[-1] = ("c", out[-1][1] + p[1])
            else:
                out.append(p)
        return tuple(out)

    def go(x: ast.AST):
        if isinstance(x, ast.Constant) and isinstance(x.value, str):
            return [("c", x.value)]
        if isinstance(x, ast.JoinedStr):
            out: list = []
            for v in x.values:
                if isinstance(v, ast.Constant):
                    out.append(("c", v.value))
                elif isinstance(v, ast.FormattedValue) and v.format_spec is None:
                    sub = go(v.value) if v.conversion == -1 else None
                    out += sub if sub is not None and all(p[0] == "c" for p in sub) else [("h",)]
                else:
                    return None
            return out
        if isinstance(x, ast.BinOp) and isinstance(x.op, ast.Add):
            a, b = go(x.left), go(x.right)
            return None if a is None or b is None else a + b
        if isinstance(x, ast.Call) and isinstance(x.func, ast.Name) and x.func.id in ("str", "repr", "format") and len(x.args) == 1:
            return [("h",)]
        if isinstance(x, ast.Name):
            r = prog.repo.lookup(x.id, fi.module, fi)
            if isinstance(r, ConstInfo):
                try:
                    v = Folder(prog.repo).const(r.qual)
                except Unknown:
                    return None
                return [("c", v)] if isinstance(v, str) else None
            return [("h",)] if False else None
        if isinstance(x, ast.Call):
            t = prog.resolve_call(fi, x)
            if isinstance(t, list) and len(t) == 1 and not isinstance(t[0].node, ast.Lambda):
                rets = [r for r in prog.flow(t[0]).cfg.returns() if r.ast.value is not None]
                if len(rets) == 1:
                    sub = str_template(prog, t[0], rets[0].ast.value, rets[0], depth + 1)
                    return list(sub) if sub is not None else None
        return None

    parts = go(e)
    return merge(parts) if parts is not None else None


def _is_group0(cb: FuncInfo, v: ast.AST) -> bool:
    if isinstance(v, ast.Name):
        for n in ast.walk(cb.node):
            if isinstance(n, ast.Assign) and isinstance(n.targets[0], ast.Name) and n.targets[0].id == v.id and "group(0)" in norm(n.value):
                return True
    return False


def _shape(js: ast.JoinedStr) -> tuple:
    out = []
    for v in js.values:
        if isinstance(v, ast.Constant):
            out.append(("c", v.value))
        else:
            t = norm(v.value)
            out.append(("v", t if "PLACEHOLDER" in t else "<idx>"))
    return tuple(out)


def check_adjacency(ctx: Ctx) -> None:
    repo, prog = ctx.repo, ctx.prog
    den = repo.func(f"{TH}:denormalize_adjacent_tags")
    nor = repo.func(f"{TH}:normalize_adjacent_tags")
    wl = repo.func(f"{TW}:wrap_paragraph_lines")
    # L6: every function that joins wrap_paragraph_lines' lines into text returns through denormalize
    users = [repo.func(f"{TW}:wrap_paragraph"), sentence_wrapper(ctx)]
    for f in users:
        flow = prog.flow(f)
        calls_wl = [n for n, c in flow.all_calls() if prog.resolve_call(f, c) == [wl]]
        if not calls_wl:
            raise AnalysisError(f"{f.qual} no longer calls wrap_paragraph_lines")
        for r in flow.cfg.returns():
            reaches = any(flow.cfg.path_avoiding(c, r, set()) is not None for c in calls_wl)
            if not reaches:
                continue
            org = deep_origins(prog, f, r.ast.value, r, stop={den.qual})
            ctx.ob("R-LOSSLESS-L6", f"{f.qual} :: {norm(r.ast)[:60]}", org == frozenset({("call", den.qual)}),
                   "the word splitter inserts a space between adjacent tags; every text assembled from its tokens must pass through "
                   "denormalize_adjacent_tags before it is returned", where(f, r))
    # L7: the inserted separator must be distinguishable from what the input may contain
    from .callback import callback_of, callback_outcomes

    cb = None
    nflow = prog.flow(nor)
    for n, c in nflow.all_calls():
        if isinstance(c.func, ast.Attribute) and c.func.attr == "sub":
            cb = cb or callback_of(prog, nor, c)
    if cb is None:
        raise AnalysisError("callback of normalize_adjacent_tags not found")
    # what the callback puts between the two delimiters: the literal parts of the strings it can return
    seps = set()
    for parts in callback_outcomes(prog, cb, {}):
        for part in parts:
            if type(part) is str:
                seps.add(part)
    reserved = all(s and all(ord(ch) < 32 and ch not in " \t\n\r\f\v" for ch in s) for s in seps) and bool(seps)
    ctx.ob("R-LOSSLESS-L7", f"{nor.qual} <-> {den.qual} :: inserted separator is reserved", reserved,
           f"normalize inserts {sorted(seps)!r} between adjacent tags and denormalize deletes any single space between a closing and an "
           "opening delimiter: a space the author wrote there (`{% a %} {% b %}`) is deleted too, and adjacent tags can be wrapped apart",
           where(nor, nor.node))
    # both directions use the same delimiter table
    folder = Folder(repo)
    try:
        from .. import anchors

        a = folder.const(anchors.sub_pattern_of(ctx, nor.qual))
        d = folder.const(anchors.sub_pattern_of(ctx, den.qual))
    except Unknown as e:
        raise AnalysisError(str(e)) from e
    ctx.ob("R-LOSSLESS-L7", f"{TH}:_adjacent_tags_re vs _denormalize_tags_re", a.pattern.replace(")(", ") (") == d.pattern,
           "the denormalising pattern must be the normalising one with the single inserted space", "tag_handling.py")


# ------------------------------------------------------------------------------------------- L8
def check_indents(ctx: Ctx) -> None:
    repo, prog = ctx.repo, ctx.prog
    decos = []
    from .. import anchors

    for f in (anchors.hard_break_factory(ctx), repo.func(f"{TH}:add_tag_newline_handling")):
        decos.append((f, factory_closure(prog, f)))
    ctx.require("R-LOSSLESS-L8", "line wrapper decorators", len(decos), 1)
    for fac, w in decos:
        flow = prog.flow(w)
        wp = [p for p in w.params if not (w.cls is not None and p == w.params[0])]
        p_text, p_init, p_sub = wp[0], wp[1], wp[2]
        is_base_call = base_call_predicate(prog, fac, w)
        n_calls = 0
        for n, c in flow.all_calls():
            if is_base_call(c) and len(c.args) == 3:
                n_calls += 1
                in_loop = any(n in flow.loop_body_nodes(h) for h in flow.cfg.nodes if h.kind == "for")
                comp = _enclosing_comprehension(c)
                o2 = origins(prog, w, c.args[2], n)
                ok3 = o2 == frozenset({("param", p_sub)})
                a1 = c.args[1]
                tail_of = None
                if comp is not None and isinstance(getattr(comp, "iter", None), ast.Name):
                    # `first, *rest = segments` ... [base(s, ...) for s in rest]: the loop ranges over everything but the first segment
                    itn = comp.iter.id
                    for st_ in walk_no_nested(w.node):
                        if isinstance(st_, ast.Assign) and len(st_.targets) == 1 and isinstance(st_.targets[0], (ast.Tuple, ast.List)):
                            el_ = st_.targets[0].elts
                            if len(el_) >= 2 and isinstance(el_[-1], ast.Starred) and isinstance(el_[-1].value, ast.Name) and el_[-1].value.id == itn \
                                    and sum(1 for x in walk_no_nested(w.node) if isinstance(x, ast.Name) and x.id == itn and isinstance(x.ctx, ast.Store)) == 1:
                                tail_of = st_
                if tail_of is not None:
                    in_loop = True
                    ok2 = origins(prog, w, a1, n) == frozenset({("param", p_sub)})
                    detail = "the loop ranges over the segments after the first (`first, *rest = ...`): each gets the continuation indent"
                elif comp is not None:
                    in_loop = True
                    ok2, detail = _first_segment_indent_comp(prog, w, a1, comp, p_init, p_sub)
                elif not in_loop:
                    ok2 = origins(prog, w, a1, n) == frozenset({("param", p_init)})
                    detail = "unsegmented call: (text, initial_indent, subsequent_indent)"
                else:
                    ok2, detail = _first_segment_indent(prog, w, a1, n, p_init, p_sub)
                ctx.ob("R-LOSSLESS-L8", f"{w.qual} :: base wrapper call {'in loop' if in_loop else 'direct'}", ok2 and ok3,
                       "the base wrapper must get the first-line indent for the first segment only and the continuation indent otherwise; "
                       + detail, where(w, c))
        ctx.require("R-LOSSLESS-L8", f"base wrapper calls in {w.qual}", n_calls, 1)
    # base wrappers: both indents flow into the text; first line gets the initial indent, later lines the subsequent one
    for f in (repo.func(f"{TW}:wrap_paragraph"), sentence_wrapper(ctx)):
        flow = prog.flow(f)
        pi = "initial_indent"
        ps = "subsequent_indent"
        first = [n for n in flow.cfg.nodes if n.kind == "stmt" and isinstance(n.ast, ast.Assign) and norm(n.ast.targets[0]).endswith("[0]")]
        rest = [n for n in flow.cfg.nodes if n.kind == "stmt" and isinstance(n.ast, ast.Assign) and norm(n.ast.targets[0]).endswith("[1:]")]
        # ... or element by element: for i in range(1, len(lines)): lines[i] = subsequent_indent + lines[i]
        for h in flow.cfg.nodes:
            if h.kind == "for" and isinstance(h.ast.target, ast.Name) and isinstance(h.ast.iter, ast.Call) and isinstance(h.ast.iter.func, ast.Name) \
                    and h.ast.iter.func.id == "range" and len(h.ast.iter.args) == 2 and isinstance(h.ast.iter.args[0], ast.Constant) \
                    and h.ast.iter.args[0].value == 1 and norm(h.ast.iter.args[1]).startswith("len("):
                for n in flow.loop_body_nodes(h):
                    if n.kind == "stmt" and isinstance(n.ast, ast.Assign) and isinstance(n.ast.targets[0], ast.Subscript) \
                            and norm(n.ast.targets[0].slice) == h.ast.target.id:
                        rest.append(n)
        if pi not in f.params or ps not in f.params:
            wp_ = [p_ for p_ in f.params if not (f.cls is not None and p_ == f.params[0])]
            if len(wp_) >= 3:
                pi, ps = wp_[1], wp_[2]  # the LineWrapper protocol: (text, initial_indent, subsequent_indent) by position

        def mentions(n_: Node, param: str) -> bool:
            """the stored value is built from the parameter itself or from a plain copy of it"""
            return any(isinstance(x, ast.Name) and (x.id == param or origins(prog, f, x, n_) == frozenset({("param", param)})) for x in ast.walk(n_.ast.value))

        ok1 = any(mentions(n, pi) for n in first)
        ok2 = any(mentions(n, ps) for n in rest)
        if not (ok1 and ok2):
            # ... or in one pass: "\n".join((first if i == 0 else rest) + line for i, line in enumerate(lines))
            def from_param(e_: ast.AST, at_: Node, param: str) -> bool:
                return any(isinstance(x, ast.Name) and (x.id == param or ("param", param) in origins(prog, f, x, at_)) for x in ast.walk(e_))

            for n in flow.cfg.nodes:
                for ex in flow.node_exprs(n):
                    for g_ in [x for x in ast.walk(ex) if isinstance(x, (ast.GeneratorExp, ast.ListComp)) and len(x.generators) == 1]:
                        gen = g_.generators[0]
                        if not (isinstance(gen.iter, ast.Call) and isinstance(gen.iter.func, ast.Name) and gen.iter.func.id == "enumerate"
                                and isinstance(gen.target, ast.Tuple) and len(gen.target.elts) == 2 and all(isinstance(t_, ast.Name) for t_ in gen.target.elts)):
                            continue
                        i_, line_ = gen.target.elts[0].id, gen.target.elts[1].id
                        e_ = g_.elt
                        if isinstance(e_, ast.BinOp) and isinstance(e_.op, ast.Add) and isinstance(e_.right, ast.Name) and e_.right.id == line_ \
                                and isinstance(e_.left, ast.IfExp):
                            tt = norm(e_.left.test)
                            first_e = rest_e = None
                            if tt in (f"{i_} == 0", f"0 == {i_}", f"not {i_}"):
                                first_e, rest_e = e_.left.body, e_.left.orelse
                            elif tt in (i_, f"{i_} != 0", f"{i_} > 0", f"{i_} >= 1", f"0 != {i_}"):
                                first_e, rest_e = e_.left.orelse, e_.left.body
                            if first_e is not None and from_param(first_e, n, pi) and from_param(rest_e, n, ps):
                                ok1 = ok2 = True
        ctx.ob("R-LOSSLESS-L8", f"{f.qual} :: first line gets initial_indent, later lines subsequent_indent", ok1 and ok2,
               "lines[0] must be prefixed with the initial indent and lines[1:] with the subsequent indent", where(f, f.node))
    wf = width_wrapper(ctx)
    flow = prog.flow(wf)
    for n, c in flow.all_calls():
        t = prog.resolve_call(wf, c)
        if isinstance(t, list) and t[0].name == "wrap_paragraph":
            b = bind_call(t[0], c)
            ok = all(origins(prog, wf, b.get(p), n) == frozenset({("param", p)}) for p in ("initial_indent", "subsequent_indent"))
            ctx.ob("R-LOSSLESS-L8", f"{wf.qual} :: indents passed through", ok, "both indents must reach wrap_paragraph unchanged", where(wf, c))


def _enclosing_comprehension(c: ast.AST) -> ast.comprehension | None:
    """The (single) generator of the list comprehension / generator expression whose element contains `c`."""
    from ..loader import parent

    p = parent(c)
    while p is not None and not isinstance(p, (ast.stmt, ast.Lambda)):
        if isinstance(p, (ast.ListComp, ast.GeneratorExp)) and len(p.generators) == 1 and any(x is c for x in ast.walk(p.elt)):
            return p.generators[0]
        p = parent(p)
    return None


def _first_segment_indent_comp(prog, w: FuncInfo, a1: ast.AST, comp: ast.comprehension, p_init: str, p_sub: str) -> tuple[bool, str]:
    facts = LoopFacts.of_comprehension(comp)

    def value_leaf(cur: FuncInfo, e: ast.AST, aliases: frozenset):
        roles = role_of(e, aliases)
        return "INIT" if "init" in roles else ("SUB" if "sub" in roles else None)

    al = frozenset({f"init={p_init}", f"sub={p_sub}"})
    # positional values delivered by the iteration itself: for x, ind in zip(xs, chain([A], repeat(B)))  ->  ind is A first, B later
    positional: dict[str, tuple[ast.AST, ast.AST]] = {}
    it = comp.iter
    flow = prog.flow(w)
    node = flow.node_of(comp.iter)
    if isinstance(it, ast.Call) and isinstance(it.func, ast.Name) and it.func.id == "zip" and isinstance(comp.target, ast.Tuple) \
            and len(comp.target.elts) == len(it.args):
        for tgt, src in zip(comp.target.elts, it.args):
            src_e = expand_expr(prog, w, src, node, strict=False) if node is not None else src
            if isinstance(tgt, ast.Name) and isinstance(src_e, ast.Call) and isinstance(src_e.func, ast.Name) and src_e.func.id == "chain" \
                    and len(src_e.args) == 2 and isinstance(src_e.args[0], (ast.List, ast.Tuple)) and len(src_e.args[0].elts) == 1 \
                    and isinstance(src_e.args[1], ast.Call) and isinstance(src_e.args[1].func, ast.Name) and src_e.args[1].func.id == "repeat" \
                    and len(src_e.args[1].args) == 1:
                positional[tgt.id] = (src_e.args[0].elts[0], src_e.args[1].args[0])
    got: dict[bool, set] = {}
    for first in (True, False):
        fa = facts.first_atom(first)
        dec = Decider(prog, lambda leaf, _al, fa=fa: fa(leaf), value_leaf=value_leaf)
        env = {name: dec.ev(w, (a if first else b), {}, {}, al, 0) for name, (a, b) in positional.items()}
        got[first] = set(dec.ev(w, a1, env, {}, al, 0))
    ok = got[True] == {"INIT"} and got[False] == {"SUB"} and not comp.ifs
    return ok, f"first segment gets {sorted(map(str, got[True]))}, later segments get {sorted(map(str, got[False]))}"


def _first_segment_indent(prog, w: FuncInfo, a1: ast.AST, node: Node, p_init: str, p_sub: str) -> tuple[bool, str]:
    """The indent handed to the base wrapper inside the segment loop is the initial indent on the first iteration and the
    subsequent indent on every later one - decided by evaluating the loop body under "first iteration" / "later iteration"."""
    flow = prog.flow(w)
    heads = [h for h in flow.cfg.nodes if h.kind == "for" and node in flow.loop_body_nodes(h)]
    if not heads:
        return False, "call is not inside a segment loop"
    head = min(heads, key=lambda h: len(flow.loop_body_nodes(h)))
    facts = LoopFacts(prog, w, head)

    def value_leaf(cur: FuncInfo, e: ast.AST, aliases: frozenset):
        roles = role_of(e, aliases)
        if "init" in roles:
            return "INIT"
        if "sub" in roles:
            return "SUB"
        return None

    al = frozenset({f"init={p_init}", f"sub={p_sub}"})
    got: dict[bool, set] = {}
    for first in (True, False):
        fa = facts.first_atom(first)
        dec = Decider(prog, lambda leaf, _al, fa=fa: fa(leaf), value_leaf=value_leaf)
        vals: set = set()
        for be in [x for x, lab in head.succ if lab == "iter"]:
            if be is node:
                vals |= dec.ev(w, a1, {}, {}, al, 0)
                continue
            for end, env, benv, _outs in dec.walk(w, be, lambda x: x is node or x is head, al):
                if end is node:
                    vals |= dec.ev(w, a1, env, benv, env.get("__aliases__", al), 0)
        got[first] = vals
    ok = got[True] == {"INIT"} and got[False] == {"SUB"}
    return ok, f"first segment gets {sorted(map(str, got[True]))}, later segments get {sorted(map(str, got[False]))}"


# ---------------------------------------------------------------------------------------- R-ACCT
def check_accounting(ctx: Ctx, markdown_only: bool = False) -> None:
    repo, prog = ctx.repo, ctx.prog
    wl = repo.func(f"{TW}:wrap_paragraph_lines")
    wp = repo.func(f"{TW}:wrap_paragraph")
    ft = repo.func("flowmark.linewrapping.text_filling:fill_text")
    chain = [(wp, wl), (width_wrapper(ctx), wp), (sentence_wrapper(ctx), wl)] + ([] if markdown_only else [(ft, wp)])
    for caller, callee in chain:
        flow = prog.flow(caller)
        sites = [(n, c) for n, c in flow.all_calls() if prog.resolve_call(caller, c) == [callee]]
        if not sites:
            raise AnalysisError(f"R-ACCT: {caller.qual} no longer calls {callee.qual}")
        for n, c in sites:
            b = bind_call(callee, c)
            w = b.get("width")
            org = origins(prog, caller, w, n) if w is not None else frozenset()
            ok = org in (frozenset({("param", "width")}), frozenset({("free", "width")}))
            ctx.ob("R-ACCT", f"{caller.qual} -> {callee.qual} :: width", ok,
                   "the width must be handed down unchanged: the indents are accounted for separately (initial_column / subsequent_offset), "
                   "so subtracting them from the width counts them twice; width is " + ", ".join(fmt_origin(o) for o in org), where(caller, c))
    # fill_text -> wrap_paragraph: whichever indent a paragraph gets (first-line or continuation, hanging modes switch between
    # them), it is built on the caller's extra indent - on every alternative, not only on the usual one
    if not markdown_only and "extra_indent" in ft.params:
        fflow = prog.flow(ft)

        def alternatives(e: ast.AST, at: Node, depth: int = 0) -> list[tuple[ast.AST, Node]]:
            if isinstance(e, ast.IfExp):
                return alternatives(e.body, at, depth) + alternatives(e.orelse, at, depth)
            if isinstance(e, ast.Name) and depth < 4:
                defs = fflow.reaching(at, e.id)
                if defs and all(d.kind == "assign" and d.value is not None for d in defs):
                    out_: list[tuple[ast.AST, Node]] = []
                    for d in defs:
                        out_ += alternatives(d.value, d.node, depth + 1)
                    return out_
            return [(e, at)]

        for n, c in fflow.all_calls():
            if prog.resolve_call(ft, c) == [wp]:
                b = bind_call(wp, c)
                for pname in ("initial_indent", "subsequent_indent"):
                    a = b.get(pname)
                    if a is None:
                        continue
                    missing = [norm(e_)[:50] for e_, at_ in alternatives(a, n) if "extra_indent" not in prog.slice(ft, e_, at_).params()]
                    ctx.ob("R-ACCT", f"{ft.qual} -> {wp.qual} :: {pname} carries the extra indent", not missing,
                           f"every line of every paragraph starts with the caller's extra_indent; `{pname}` can be {missing}, which is built without it",
                           where(ft, c))
    # wrap_paragraph -> wrap_paragraph_lines: initial_column = initial_column + len(initial_indent); subsequent_offset = len(subsequent_indent)
    flow = prog.flow(wp)
    for n, c in flow.all_calls():
        if prog.resolve_call(wp, c) == [wl]:
            b = bind_call(wl, c)
            ic = b.get("initial_column")
            so = b.get("subsequent_offset")
            ic = expand_expr(prog, wp, ic, n) if ic is not None else None
            so = expand_expr(prog, wp, so, n) if so is not None else None
            ok_ic = isinstance(ic, ast.BinOp) and isinstance(ic.op, ast.Add) and {norm(ic.left), norm(ic.right)} == {"initial_column", "len_fn(initial_indent)"}
            ok_so = so is not None and norm(so) == "len_fn(subsequent_indent)"
            ctx.ob("R-ACCT", f"{wp.qual} -> {wl.qual} :: initial_column", ok_ic,
                   f"first line starts at initial_column + len(initial_indent); passed `{norm(ic) if ic is not None else None}`", where(wp, c))
            ctx.ob("R-ACCT", f"{wp.qual} -> {wl.qual} :: subsequent_offset", ok_so,
                   f"later lines start at len(subsequent_indent); passed `{norm(so) if so is not None else None}`", where(wp, c))
    # sentence wrapper
    sw = sentence_wrapper(ctx)
    flow = prog.flow(sw)
    for n, c in flow.all_calls():
        if prog.resolve_call(sw, c) == [wl]:
            b = bind_call(wl, c)
            so = b.get("subsequent_offset")
            sl = prog.slice(sw, so, n) if so is not None else None
            ok_so = sl is not None and "subsequent_indent" in sl.params() and "initial_indent" not in sl.params()
            ctx.ob("R-ACCT", f"{sw.qual} -> {wl.qual} :: subsequent_offset", ok_so,
                   "later lines of a sentence start at len(subsequent_indent)", where(sw, c))
            ic = b.get("initial_column")
            ok_ic = False
            detail = ""
            heads = [h for h in flow.cfg.nodes if h.kind == "for" and n in flow.loop_body_nodes(h)]
            if ic is not None and heads:
                head = min(heads, key=lambda h: len(flow.loop_body_nodes(h)))
                facts = LoopFacts(prog, sw, head)

                def value_leaf(cur: FuncInfo, e: ast.AST, aliases: frozenset):
                    if isinstance(e, ast.Call) and len(e.args) == 1 and not e.keywords and \
                            ("lenfn" in role_of(e.func, aliases) or (isinstance(e.func, ast.Name) and e.func.id == "len")):
                        roles = role_of(e.args[0], aliases)
                        if "init" in roles:
                            return "LEN_INIT"
                        if "sub" in roles:
                            return "LEN_SUB"
                    return None

                # roles by what the names denote: the wrapper's 2nd / 3rd parameter, the factory's len_fn - also when the
                # closure reads them through once-bound copies (fields of a settings record, spliced-in helper parameters)
                wp_ = [p_ for p_ in sw.params if not (sw.cls is not None and p_ == sw.params[0])]
                role_names = {"init": {wp_[1] if len(wp_) > 2 else "initial_indent"}, "sub": {wp_[2] if len(wp_) > 2 else "subsequent_indent"}, "lenfn": {"len_fn"}}
                for x in ast.walk(sw.node):
                    if isinstance(x, ast.Name) and isinstance(x.ctx, ast.Load):
                        if origins(prog, sw, x, flow.cfg.entry) == frozenset({("free", "len_fn")}):
                            role_names["lenfn"].add(x.id)
                al = frozenset(f"{r_}={nm_}" for r_, nms_ in role_names.items() for nm_ in nms_)
                got: dict[bool, set] = {}
                augs: set = set()
                for first in (True, False):
                    fa = facts.first_atom(first)
                    dec = Decider(prog, lambda leaf, _al, fa=fa: fa(leaf), value_leaf=value_leaf, track_aug=False)
                    vals: set = set()
                    for end, env, benv, outs in dec.walk(sw, flow.cfg.entry, lambda x, n=n: x is n, al):
                        if end is not n:
                            continue
                        vals |= dec.ev(sw, ic, env, benv, env.get("__aliases__", al), 0)
                        if isinstance(ic, ast.Name):
                            augs |= {o[2] for o in outs if isinstance(o, tuple) and o and o[0] == "aug" and o[1] == ic.id}
                    got[first] = vals
                ok_base = got[True] == {"LEN_INIT"} and got[False] == {"LEN_SUB"}
                # what is added on top: the length of the last line produced so far (X[-1])
                ok_aug = True
                for a in augs:
                    v = a.ast.value
                    sub = v.args[0] if isinstance(v, ast.Call) and len(v.args) == 1 else None
                    ok_aug = ok_aug and isinstance(a.ast.op, ast.Add) and isinstance(sub, ast.Subscript) and isinstance(sub.slice, ast.UnaryOp) \
                        and isinstance(sub.slice.op, ast.USub) and isinstance(sub.slice.operand, ast.Constant) and sub.slice.operand.value == 1
                ok_ic = ok_base and ok_aug
                detail = f"; on the first sentence the column starts from {sorted(map(str, got[True]))}, on later ones from {sorted(map(str, got[False]))}"
            ctx.ob("R-ACCT", f"{sw.qual} -> {wl.qual} :: initial_column", ok_ic,
                   "a sentence starts at the indent of its line (initial indent for the first line, subsequent indent otherwise), plus the "
                   "short previous line it may be merged into" + detail, where(sw, c))
    # inside the fill loop: fit test and reset
    flow = prog.flow(wl)
    # a line is final once it has been measured against the width: nothing rewrites the returned lines afterwards
    returned = {r.ast.value.id for r in flow.cfg.returns() if isinstance(r.ast.value, ast.Name)}
    fill_heads = [h for h in flow.cfg.nodes if h.kind == "for"]
    for n in flow.cfg.nodes:
        if n.kind != "stmt" or not isinstance(n.ast, (ast.Assign, ast.AugAssign)):
            continue
        tgts = n.ast.targets if isinstance(n.ast, ast.Assign) else [n.ast.target]
        for t_ in tgts:
            hit = None
            if isinstance(t_, ast.Subscript) and isinstance(t_.value, ast.Name) and t_.value.id in returned:
                hit = t_.value.id
            elif isinstance(t_, ast.Name) and t_.id in returned and isinstance(n.ast, ast.Assign) and any(
                    isinstance(x, ast.Name) and x.id == t_.id and isinstance(x.ctx, ast.Load) for x in ast.walk(n.ast.value)):
                hit = t_.id
            if hit is not None and fill_heads and not any(n in flow.loop_body_nodes(h) for h in fill_heads):
                ctx.ob("R-ACCT", f"{wl.qual} :: `{norm(n.ast)[:60]}` rewrites measured lines", False,
                       f"the lines in `{hit}` were filled against the width word by word; a pass that rewrites them afterwards (escaping, "
                       "padding, re-joining) changes their length without the fit test seeing it", where(wl, n))
    def is_fit(e: ast.AST) -> bool:
        return isinstance(e, ast.Compare) and len(e.ops) == 1 and isinstance(e.ops[0], (ast.LtE, ast.Lt)) and "width" in norm(e.comparators[0])

    def test_of(n_: Node) -> ast.AST:
        """the condition of a test node, read through a named temporary (`fits = col + w + sp <= width ... if fits:`)"""
        if isinstance(n_.ast, ast.Name):
            try:
                return expand_expr(prog, wl, n_.ast, n_, strict=False, depth=1)
            except Exception:  # noqa: BLE001
                return n_.ast
        return n_.ast

    fit_nodes = [n for n in flow.cfg.nodes if n.kind == "test" and any(is_fit(x) for x in ast.walk(test_of(n)))]
    ctx.require("R-ACCT", "fit test in the fill loop", len(fit_nodes), 1)
    fits = []
    fit_expr: dict[Node, ast.AST] = {}
    for n in fit_nodes:
        fit_expr[n] = test_of(n)
        alone = is_fit(fit_expr[n])
        ctx.ob("R-ACCT", f"{wl.qual} :: the fit test alone decides where a word goes", alone,
               "a word stays on the current line exactly when column + word + space <= width; the condition is "
               f"`{norm(n.ast)[:90]}` - an extra alternative keeps words that do not fit (the line is no longer within the width / maximal), "
               "an extra conjunct breaks lines that are not full", where(wl, n))
        if alone:
            fits.append(n)
    for t in fits:
        # the left side, read through its temporaries, is a sum of exactly: the running column (a name carried around the
        # word loop), the length of the current word (a one-argument call on the loop variable), and the separating space
        # (1, or 1-if-the-line-is-non-empty-else-0)
        ex = expand_expr(prog, wl, fit_expr[t].left, t, strict=False)
        terms_: list[ast.AST] = []

        def flat_(e: ast.AST) -> None:
            if isinstance(e, ast.BinOp) and isinstance(e.op, ast.Add):
                flat_(e.left)
                flat_(e.right)
            else:
                terms_.append(e)
        flat_(ex)
        heads_ = [h for h in flow.cfg.nodes if h.kind == "for" and t in flow.loop_body_nodes(h)]
        head_ = min(heads_, key=lambda h: len(flow.loop_body_nodes(h))) if heads_ else None
        loop_vars = {x.id for x in ast.walk(head_.ast.target) if isinstance(x, ast.Name)} if head_ is not None else set()
        carried_ = flow.loop_carried(head_) if head_ is not None else set()
        kinds_: list[str] = []
        for tm in terms_:
            if isinstance(tm, ast.Name) and tm.id in carried_:
                kinds_.append("column")
            elif isinstance(tm, ast.Call) and len(tm.args) == 1 and isinstance(tm.args[0], ast.Name) and tm.args[0].id in loop_vars:
                kinds_.append("word")
            elif (isinstance(tm, ast.Constant) and tm.value == 1) or (isinstance(tm, ast.IfExp) and isinstance(tm.body, ast.Constant) and isinstance(tm.orelse, ast.Constant)
                                                                        and {tm.body.value, tm.orelse.value} == {0, 1}):
                kinds_.append("space")
            else:
                kinds_.append("?" + norm(tm)[:30])
        ok = sorted(kinds_) == ["column", "space", "word"]
        ctx.ob("R-ACCT", f"{wl.qual} :: fit test", ok and norm(fit_expr[t].comparators[0]) == "width",
               f"a word fits if column + word + separating space <= width; the test adds up {sorted(kinds_)} (`{norm(ex)[:80]}`) against `{norm(fit_expr[t].comparators[0])}`", where(wl, t))
    # the running column: the variable of the fit test that is re-assigned inside the word loop
    wvars: set[str] = set()
    for t in fits:
        for x in ast.walk(fit_expr[t].left):
            if isinstance(x, ast.Name) and any(d.node in flow.loop_body_nodes(h) and d.kind in ("assign", "aug") for h in flow.cfg.nodes if h.kind == "for"
                                               for d in flow.defs if d.var == x.id):
                if any(d.kind == "aug" for d in flow.defs if d.var == x.id):
                    wvars.add(x.id)
    starts = [m for m in flow.cfg.nodes if m.kind == "stmt" and isinstance(m.ast, ast.Assign) and isinstance(m.ast.value, ast.List) and len(m.ast.value.elts) == 1
              and isinstance(m.ast.value.elts[0], ast.Name) and any(m in flow.loop_body_nodes(h) for h in flow.cfg.nodes if h.kind == "for")]
    for m in starts:
        placed = m.ast.value.elts[0].id
        mg = {(b.id, lab) for b, lab in all_guards(prog, wl, m)}
        resets = [n for n in flow.cfg.nodes if n.kind == "stmt" and isinstance(n.ast, ast.Assign) and isinstance(n.ast.targets[0], ast.Name)
                  and n.ast.targets[0].id in wvars and {(b.id, lab) for b, lab in all_guards(prog, wl, n)} == mg]
        ctx.require("R-ACCT", "column reset where a new line is started", len(resets), 1)
        for n in resets:
            ex = expand_expr(prog, wl, n.ast.value, n, strict=False)
            terms: list[ast.AST] = []

            def flat(e: ast.AST) -> None:
                if isinstance(e, ast.BinOp) and isinstance(e.op, ast.Add):
                    flat(e.left)
                    flat(e.right)
                else:
                    terms.append(e)
            flat(ex)
            want = norm(expand_expr(prog, wl, ast.Name(id=placed, ctx=ast.Load()), n, strict=False))
            n_off = sum(1 for t_ in terms if isinstance(t_, ast.Name) and t_.id == "subsequent_offset" and "subsequent_offset" in wl.params)
            n_len = sum(1 for t_ in terms if isinstance(t_, ast.Call) and len(t_.args) == 1 and norm(t_.args[0]) in (want, placed))
            ok = len(terms) == 2 and n_off == 1 and n_len == 1
            ctx.ob("R-ACCT", f"{wl.qual} :: new line column = subsequent_offset + len(placed word)", ok,
                   f"after a break the column must be the continuation offset plus the length of the word actually placed (`{placed}`, "
                   f"which may carry an escaping backslash); it is `{norm(ex)[:90]}`", where(wl, n))
    # width <= 0: single line, before any splitting
    for f, target in ((wl, "splitter"), (sw, "split_sentences")):
        fl = prog.flow(f)
        # (the test may sit behind a temporary: `no_wrapping = width <= 0 ... if no_wrapping:`)
        def is_width(e: ast.AST, at: Node) -> bool:
            return isinstance(e, ast.Name) and (e.id == "width" or origins(prog, f, e, at) <= frozenset({("param", "width"), ("free", "width")}))

        def nonpositive_width(n_: Node) -> bool:
            e = expand_expr(prog, f, n_.ast, n_, strict=False)
            if not (isinstance(e, ast.Compare) and len(e.ops) == 1):
                return False
            l_, op_, r_ = e.left, e.ops[0], e.comparators[0]
            zero = lambda x: isinstance(x, ast.Constant) and x.value == 0  # noqa: E731
            one = lambda x: isinstance(x, ast.Constant) and x.value == 1  # noqa: E731
            return (is_width(l_, n_) and ((isinstance(op_, ast.LtE) and zero(r_)) or (isinstance(op_, ast.Lt) and one(r_)))) or \
                (is_width(r_, n_) and ((isinstance(op_, ast.GtE) and zero(l_)) or (isinstance(op_, ast.Gt) and one(l_))))

        guards = [n for n in fl.cfg.nodes if n.kind == "test" and isinstance(n.ast, (ast.Compare, ast.Name)) and nonpositive_width(n)]
        ok = False
        for g in guards:
            tsucc = [s for s, lab in g.succ if lab == "T"]
            # the T branch returns without reaching the word / sentence splitting
            reach = fl.cfg.reachable_from(tsucc[0]) if tsucc else set()
            splits = [n for n, c in fl.all_calls() if (isinstance(c.func, ast.Name) and c.func.id in (target,)) or
                      (isinstance(c.func, ast.Name) and "split" in c.func.id and (c.args or c.keywords))]  # (a getter of the splitter splits nothing)
            if tsucc and not any(s in reach for s in splits) and all(fl.cfg.path_avoiding(fl.cfg.entry, s, {g}) is None for s in splits):
                ok = True
        ctx.ob("R-ACCT", f"{f.qual} :: width <= 0 short-circuits before splitting", ok,
               "with width <= 0 the text must be returned as one line, decided before any word / sentence splitting", where(f, f.node))


# ------------------------------------------------------------------------------- sentence splitting
def check_sentence_split(ctx: Ctx) -> None:
    """C11: sentence ends are detected per word by an end-anchored pattern; the formatter uses the no-minimum splitter."""
    import re as _re

    from ..regexlang import Regex

    repo, prog = ctx.repo, ctx.prog
    ssr = "flowmark.linewrapping.sentence_split_regex"
    fac = repo.func(f"{LW}:line_wrap_by_sentence")
    # default splitter of the factory -> split_sentences_regex(text, min_length=0)
    from ..dataflow import param_default

    d = param_default(fac, "split_sentences")
    r = repo.resolve_expr(d, fac.module, fac) if d is not None else None
    ok = False
    if isinstance(r, FuncInfo):
        for c in walk_no_nested(r.node):
            if isinstance(c, ast.Call) and call_name(prog, r, c) == f"{ssr}:split_sentences_regex":
                ml = next((k.value for k in c.keywords if k.arg == "min_length"), None)
                ok = isinstance(ml, ast.Constant) and ml.value == 0
    ctx.ob("R-SENT-split", f"{fac.qual} :: default splitter has no minimum sentence length", ok,
           "the formatter breaks after *every* detected sentence end; short lines are handled by the merge rule, not by the splitter "
           "(a minimum here would glue short sentences together before the merge rule sees them)", where(fac, fac.node))
    fm = repo.func("flowmark.linewrapping.markdown_filling:fill_markdown")
    for n, c in prog.flow(fm).all_calls():
        if prog.resolve_call(fm, c) == [fac]:
            passed = next((k.value for k in c.keywords if k.arg in ("split_sentences", "min_line_len")), None)
            ctx.ob("R-SENT-split", f"{fm.qual} :: sentence wrapper built with the default splitter and minimum line length", passed is None and len(c.args) == 0,
                   "fill_markdown must not override the splitter or the minimum line length", where(fm, c))
    # the heuristic is applied to single words, in order, and sentences are the words joined by one space
    sp = repo.func(f"{ssr}:split_sentences_regex")

    def is_ws_split(e: ast.AST) -> bool:
        return isinstance(e, ast.Call) and isinstance(e.func, ast.Attribute) and e.func.attr == "split" and not e.args and not e.keywords

    # the word loop may live in the splitter itself or in a module-local helper / generator it hands the words to: follow the
    # heuristic parameter to the function that calls it
    sites: list[tuple[FuncInfo, Node, ast.Call, dict[str, tuple[FuncInfo, ast.AST, Node]]]] = []
    work: list[tuple[FuncInfo, str, dict[str, tuple[FuncInfo, ast.AST, Node]]]] = [(sp, "heuristic", {})]
    seen_f: set[str] = set()
    while work:
        f, hparam, binding = work.pop()
        if f.qual in seen_f or len(seen_f) > 6:
            continue
        seen_f.add(f.qual)
        fl = prog.flow(f)
        for n, c in fl.all_calls():
            if isinstance(c.func, ast.Name) and c.func.id == hparam and not fl.reaching(n, hparam)[1:]:
                sites.append((f, n, c, binding))
            t = prog.resolve_call(f, c)
            if isinstance(t, list) and len(t) == 1 and t[0].module is sp.module and not isinstance(t[0].node, ast.Lambda):
                b = bind_call(t[0], c)
                for pn, arg in b.items():
                    if isinstance(arg, ast.Name) and arg.id == hparam:
                        work.append((t[0], pn, {p: (f, a, n) for p, a in b.items()}))
    ctx.require("R-SENT-split", "calls of the sentence-end heuristic", len(sites), 1)
    ok_loop = ok_h = bool(sites)
    for f, n, c, binding in sites:
        fl = prog.flow(f)
        aorg = origins(prog, f, c.args[0], n) if c.args else frozenset()
        ok_h = ok_h and bool(aorg) and all(o[0] == "iter" for o in aorg)
        heads = [h for h in fl.cfg.nodes if h.kind == "for" and n in fl.loop_body_nodes(h)]
        this = False
        for h in heads:
            it = expand_expr(prog, f, h.ast.iter, h)
            while isinstance(it, ast.Call) and isinstance(it.func, ast.Name) and it.func.id in ("enumerate", "iter", "list", "tuple") and it.args:
                it = it.args[0]  # for i, w in enumerate(words): the same words, in the same order
            if is_ws_split(it):
                this = True
            elif isinstance(it, ast.Name) and it.id in binding:
                cf, carg, cn = binding[it.id]
                this = this or is_ws_split(expand_expr(prog, cf, carg, cn))
        ok_loop = ok_loop and this
    ctx.ob("R-SENT-split", f"{sp.qual} :: iterates over the whitespace-separated words", ok_loop,
           "sentences are assembled from text.split() words in order", where(sp, sp.node))
    ctx.ob("R-SENT-split", f"{sp.qual} :: heuristic applied to the current word", ok_h,
           "the end-of-sentence test looks at one word at a time (so an edit in one sentence cannot move another sentence's end)", where(sp, sp.node))
    # every string assembled in the module's splitting code is words joined by one space
    joins = []
    for f in repo.functions.values():
        if f.module is sp.module and not isinstance(f.node, ast.Lambda) and f.name not in ("first_sentence", "first_sentences"):
            joins += [c for c in walk_no_nested(f.node) if isinstance(c, ast.Call) and isinstance(c.func, ast.Attribute) and c.func.attr == "join"
                      and isinstance(c.func.value, ast.Constant)]
    ctx.ob("R-SENT-split", f"{sp.qual} :: sentences are words joined by one space", bool(joins) and all(c.func.value.value == " " for c in joins),
           "no word may be dropped or altered when sentences are assembled", where(sp, sp.node))
    try:
        rc = Folder(repo).const(f"{ssr}:SENTENCE_END_RE")
    except Unknown as e:
        raise AnalysisError(str(e)) from e
    rx = Regex(rc.pattern, rc.flags)
    ctx.ob("R-SENT-split", f"{ssr}:SENTENCE_END_RE is anchored at the end of the word", rx.end_anchored,
           f"a sentence end is terminal punctuation at the *end* of a word; pattern {rc.pattern!r}", "sentence_split_regex.py")
    # the shapes the heuristic is documented to recognise ("two letters or more, with the last letter lowercase, followed by a
    # period, exclamation point, question mark; a final or preceding parenthesis or quote is allowed") - constant samples
    auto = rx.glushkov()
    yes = ["ab.", "ab?", "ab!", 'ab."', "ab.'", "ab.)", "ab.\u2019", "ab.\u201d", 'ab".', "ab'.", "ab).", "ab\u2019.", "ab\u201d.", "Word.", "ab. "]
    no = ["a.", "AB.", "ab", "ab,", "ab:", "3."]
    miss = [w for w in yes if not auto.accepts(w)]
    extra = [w for w in no if auto.accepts(w)]
    ctx.ob("R-SENT-split", f"{ssr}:SENTENCE_END_RE recognises the documented sentence ends", not miss and not extra,
           "a word of two or more letters ending in a lowercase letter and . ? or !, with an optional closing quote or parenthesis before or "
           f"after the punctuation, ends a sentence; not recognised: {miss}; wrongly recognised: {extra}", "sentence_split_regex.py")
    h = repo.func(f"{ssr}:heuristic_end_of_sentence")
    uses = any(isinstance(x, ast.Attribute) and x.attr == "search" and norm(x.value) == "SENTENCE_END_RE" for x in ast.walk(h.node))
    ctx.ob("R-SENT-split", f"{h.qual} :: uses SENTENCE_END_RE", uses, "the default heuristic is the regex test", where(h, h.node))
    # minimum line length constant
    try:
        ml = Folder(repo).const(f"{LW}:DEFAULT_MIN_LINE_LEN")
    except Unknown as e:
        raise AnalysisError(str(e)) from e
    dflt = param_default(fac, "min_line_len")
    ctx.ob("R-SENT-split", f"{fac.qual} :: min_line_len defaults to DEFAULT_MIN_LINE_LEN", dflt is not None and norm(dflt) == "DEFAULT_MIN_LINE_LEN" and isinstance(ml, int) and ml > 0,
           f"the merge threshold is the documented minimum line length ({ml})", where(fac, fac.node))


def check_paragraph_independence(ctx: Ctx) -> None:
    """fill_text wraps each paragraph with the same width and indents: nothing accumulates from paragraph to paragraph."""
    repo, prog = ctx.repo, ctx.prog
    ft = repo.func("flowmark.linewrapping.text_filling:fill_text")
    wp = repo.func(f"{TW}:wrap_paragraph")
    flow = prog.flow(ft)
    loops = [h for h in flow.cfg.nodes if h.kind == "for" and any(prog.resolve_call(ft, c) == [wp] for m in flow.loop_body_nodes(h) for c in flow.calls_in(m))]
    # ... or a comprehension over the paragraphs: its element expression has a scope of its own, nothing it assigns survives
    # to the next paragraph (walrus targets and mutated captures excepted)
    comps = []
    for n, c in flow.all_calls():
        if prog.resolve_call(ft, c) == [wp]:
            comp = _enclosing_comprehension(c)
            if comp is not None:
                comps.append((n, c, comp))
    ctx.require("R-LOOPSTATE", "paragraph loop of fill_text", len(loops) + len(comps), 1)
    for n, c, comp in comps:
        from ..loader import parent as _parent

        owner = _parent(comp)
        leaks = [x for x in ast.walk(owner) if isinstance(x, ast.NamedExpr)] if owner is not None else []
        ctx.ob("R-LOOPSTATE", f"{ft.qual} :: paragraphs are wrapped independently", not leaks,
               "each paragraph is wrapped by the element expression of a comprehension: no variable is carried from one paragraph to the next"
               + ("; but an assignment expression leaks a value out of it" if leaks else ""), where(ft, c))
    for h in loops:
        carried = flow.loop_carried(h)
        # the hanging-indent modes switch the first-line indent to the continuation indent after the first paragraph:
        # a one-way assignment from a loop-invariant value, not an accumulation
        allowed = set()
        for v in carried:
            defs_in_body = [d for n in flow.loop_body_nodes(h) for d in flow.defs_at[n] if d.var == v]
            if defs_in_body and all(d.kind == "assign" and d.value is not None and
                                    not (prog.slice(ft, d.value, d.node).defs & set(defs_in_body)) for d in defs_in_body):
                inv = True
                for d in defs_in_body:
                    for dd in prog.slice(ft, d.value, d.node).defs:
                        if dd.node in flow.loop_body_nodes(h):
                            inv = False
                if inv:
                    allowed.add(v)
        # output accumulators: only ever appended to, never read inside the loop
        for v in carried:
            defs_in_body = [d for n in flow.loop_body_nodes(h) for d in flow.defs_at[n] if d.var == v]
            appends_only = defs_in_body and all(d.kind == "mutate" and isinstance(d.value, ast.Call) and isinstance(d.value.func, ast.Attribute)
                                                and d.value.func.attr in ("append", "extend") for d in defs_in_body)
            other_reads = False
            for n in flow.loop_body_nodes(h):
                for ex in flow.node_exprs(n):
                    for sub in walk_no_nested(ex):
                        if isinstance(sub, ast.Name) and sub.id == v and isinstance(sub.ctx, ast.Load):
                            from ..loader import parent as _parent

                            pp = _parent(sub)
                            if not (isinstance(pp, ast.Attribute) and pp.attr in ("append", "extend")):
                                other_reads = True
            if appends_only and not other_reads:
                allowed.add(v)
        bad = sorted(carried - allowed)
        ctx.ob("R-LOOPSTATE", f"{ft.qual} :: paragraphs are wrapped independently", not bad,
               f"values that accumulate from one paragraph to the next: {bad or 'none'} (loop-carried: {sorted(carried)}; "
               f"re-assigned from loop-invariant values only: {sorted(allowed)})", where(ft, h))
