"""R-PURE (C13): no state outlives a formatting call (effects + escape analysis)."""

from __future__ import annotations

import ast

from ..cfg import walk_no_nested
from ..dataflow import chain_key, origins, root_key
from ..loader import AnalysisError, ClassInfo, ConstInfo, FuncInfo, ImportRef, parent, site_packages
from ..report import Ctx
from .common import norm, reachable_functions, where

ROOTS = [
    "flowmark.reformat_api:reformat_text",
    "flowmark.linewrapping.markdown_filling:fill_markdown",
    "flowmark.linewrapping.text_filling:fill_text",
    "flowmark.linewrapping.text_wrapping:wrap_paragraph",
    "flowmark.linewrapping.text_wrapping:wrap_paragraph_lines",
    "flowmark.linewrapping.line_wrappers:line_wrap_to_width",
    "flowmark.linewrapping.line_wrappers:line_wrap_by_sentence",
    "flowmark.formats.flowmark_markdown:flowmark_markdown",
]

CONTAINER_MUTATORS = {
    "append", "extend", "insert", "pop", "remove", "clear", "sort", "reverse", "add", "discard", "update",
    "setdefault", "popitem", "appendleft", "extendleft", "popleft", "__setitem__", "__delitem__",
}
CACHE_DECORATORS = ("cache", "lru_cache", "functools.cache", "functools.lru_cache", "cached_property")

# external classes whose instances carry per-parse / per-render mutable state (confirmed by reading marko 2.2.4)
EXTERNAL_STATEFUL = {
    "marko.Markdown", "marko.Renderer", "marko.renderer.Renderer", "marko.parser.Parser", "marko.source.Source",
    "marko.md_renderer.MarkdownRenderer", "marko.html_renderer.HTMLRenderer", "marko.HTMLRenderer", "marko.Parser",
}


def pure_scope(ctx: Ctx) -> dict[str, FuncInfo]:
    from .common import framework_hook_functions

    roots = [ctx.repo.func(q) for q in ROOTS]
    # (plus what marko calls on the package's element / parser / renderer classes while it parses and renders)
    return reachable_functions(ctx.prog, roots + list(framework_hook_functions(ctx.repo).values()))


def _name_scope(ctx: Ctx, fi: FuncInfo, name: str) -> str:
    """'local' | 'free' | 'global' | 'builtin' for a bare name used inside fi."""
    flow = ctx.prog.flow(fi)
    if name in flow.defs_of_var:
        # `global x` / `nonlocal x` declarations make the name non-local
        for n in walk_no_nested(fi.node):
            if isinstance(n, ast.Global) and name in n.names:
                return "global"
            if isinstance(n, ast.Nonlocal) and name in n.names:
                return "free"
        return "local"
    f = fi.parent
    while f is not None:
        if name in ctx.prog.flow(f).defs_of_var:
            return "free"
        f = f.parent
    if ctx.repo.lookup(name, fi.module, fi) is not None:
        return "global"
    return "builtin"


def _is_cached(fi: FuncInfo) -> bool:
    return any(d.split("(")[0] in CACHE_DECORATORS or d.split("(")[0].endswith(".cache") or d.split("(")[0].endswith(".lru_cache")
               for d in fi.decorators)


def _closure_escapes(ctx: Ctx, fi: FuncInfo) -> bool:
    """A nested function escapes its defining invocation if it is returned, yielded, stored in an
    attribute / subscript / non-local name, or handed to a repo function that wraps it in another closure.
    Being passed as a plain call argument does not count (Pattern.sub(f, ...), transform_tree(doc, f))."""
    outer = fi.parent
    if outer is None or isinstance(fi.node, ast.Lambda):
        return False
    return _name_escapes(ctx, outer, fi.name, 0)


def _name_escapes(ctx: Ctx, outer: FuncInfo, name: str, depth: int) -> bool:
    if depth > 4:
        return True
    for n in walk_no_nested(outer.node):
        if isinstance(n, (ast.Return, ast.Yield, ast.YieldFrom)) and n.value is not None:
            for sub in ast.walk(n.value):
                if isinstance(sub, ast.Name) and sub.id == name:
                    return True
        if isinstance(n, ast.Assign):
            uses = any(isinstance(s, ast.Name) and s.id == name for s in ast.walk(n.value))
            if not uses:
                continue
            for t in n.targets:
                if isinstance(t, (ast.Attribute, ast.Subscript)):
                    return True
                if isinstance(t, ast.Name) and _name_scope(ctx, outer, t.id) != "local":
                    return True
                if isinstance(t, ast.Name) and isinstance(n.value, ast.Name) and t.id != name:
                    if _name_escapes(ctx, outer, t.id, depth + 1):
                        return True
        if isinstance(n, ast.Call):
            for a in list(n.args) + [k.value for k in n.keywords]:
                if isinstance(a, ast.Name) and a.id == name:
                    t = ctx.prog.resolve_call(outer, n)
                    if isinstance(t, list) and any(isinstance(d, FuncInfo) for d in t[0].local_defs.values()):
                        return True  # wrapped by a closure-returning function: lives as long as the wrapper
    return False


def _mutations(ctx: Ctx, fi: FuncInfo):
    """Yield (kind, root name, node, text) for every store / mutator call / del through a non-local root."""
    for n in walk_no_nested(fi.node):
        targets: list[ast.AST] = []
        if isinstance(n, ast.Assign):
            targets = list(n.targets)
        elif isinstance(n, (ast.AugAssign, ast.AnnAssign)):
            if not (isinstance(n, ast.AnnAssign) and n.value is None):
                targets = [n.target]
        elif isinstance(n, ast.Delete):
            targets = list(n.targets)
        for t in targets:
            for el in ([t] if not isinstance(t, (ast.Tuple, ast.List)) else list(t.elts)):
                if isinstance(el, ast.Starred):
                    el = el.value
                if isinstance(el, (ast.Attribute, ast.Subscript)):
                    yield ("store", el, n)
                elif isinstance(el, ast.Name) and isinstance(n, ast.AugAssign):
                    yield ("augname", el, n)
                elif isinstance(el, ast.Name):
                    yield ("name", el, n)
        if isinstance(n, ast.Call) and isinstance(n.func, ast.Attribute) and n.func.attr in CONTAINER_MUTATORS:
            yield ("mutcall", n.func.value, n)
        if isinstance(n, ast.Call) and isinstance(n.func, ast.Name) and n.func.id in ("setattr", "delattr") and n.args:
            yield ("setattr", n.args[0], n)


def _base_name(expr: ast.AST) -> ast.Name | None:
    cur = expr
    while isinstance(cur, (ast.Attribute, ast.Subscript)):
        cur = cur.value
    return cur if isinstance(cur, ast.Name) else None


def _origin_globals(ctx: Ctx, fi: FuncInfo, name_node: ast.Name, stmt: ast.AST) -> list[str]:
    """Module-level objects a local name may alias (identity origins)."""
    flow = ctx.prog.flow(fi)
    node = flow.node_of(stmt)
    if node is None:
        return []
    out = []
    for o in origins(ctx.prog, fi, name_node, node):
        cur = o
        while isinstance(cur, tuple) and cur[0] in ("attr", "index", "iter", "unpack"):
            cur = cur[1]
        if isinstance(cur, tuple) and cur[0] == "global":
            out.append(cur[1])
    return out


def _free_var_globals(ctx: Ctx, fi: FuncInfo, name: str) -> list[str]:
    """Module-level mutable objects a captured variable may alias (via its definitions in the enclosing function)."""
    f = fi.parent
    while f is not None:
        flow = ctx.prog.flow(f)
        if name in flow.defs_of_var:
            out: list[str] = []
            for i in flow.defs_of_var[name]:
                d = flow.defs[i]
                if d.kind in ("assign", "walrus") and d.value is not None:
                    for o in origins(ctx.prog, f, d.value, d.node):
                        cur = o
                        while isinstance(cur, tuple) and cur[0] in ("attr", "index", "iter", "unpack"):
                            cur = cur[1]
                        if isinstance(cur, tuple) and cur[0] == "global" and _is_mutable_global(ctx, cur[1]):
                            out.append(cur[1])
            return out
        f = f.parent
    return []


def stateful_classes(ctx: Ctx) -> dict[str, str]:
    """Repo classes whose instances are mutated after construction (qual -> reason)."""
    repo = ctx.repo
    out: dict[str, str] = {}
    for ci in repo.classes.values():
        for mname, m in ci.methods.items():
            if mname in ("__init__", "__post_init__"):
                continue
            selfname = m.params[0] if m.params else None
            if selfname is None or any(d.endswith("staticmethod") or d.endswith("classmethod") for d in m.decorators):
                continue
            for kind, target, stmt in _mutations(ctx, m):
                if kind in ("store", "mutcall", "setattr"):
                    b = _base_name(target)
                    if b is not None and b.id == selfname:
                        out.setdefault(ci.qual, f"{mname} mutates {norm(target)}")
    changed = True
    while changed:
        changed = False
        for ci in repo.classes.values():
            if ci.qual in out:
                continue
            for b in repo.class_bases(ci):
                if isinstance(b, ClassInfo) and b.qual in out:
                    out[ci.qual] = f"inherits from stateful {b.qual}"
                    changed = True
                elif isinstance(b, str) and b in EXTERNAL_STATEFUL:
                    out[ci.qual] = f"inherits from stateful {b}"
                    changed = True
    return out


def _stateful_factories(ctx: Ctx, stateful: dict[str, str]) -> dict[str, str]:
    """Functions that return a fresh instance of a stateful class (transitively)."""
    repo, prog = ctx.repo, ctx.prog
    out: dict[str, str] = {}
    changed = True
    while changed:
        changed = False
        for fi in repo.functions.values():
            if fi.qual in out or isinstance(fi.node, ast.Lambda) or fi.cls is not None:
                continue
            for n in walk_no_nested(fi.node):
                if isinstance(n, ast.Return) and isinstance(n.value, ast.Call):
                    what = _instantiates(ctx, fi, n.value, stateful, out)
                    if what:
                        out[fi.qual] = what
                        changed = True
                        break
    return out


def _instantiates(ctx: Ctx, fi: FuncInfo | None, call: ast.Call, stateful: dict[str, str], factories: dict[str, str], mod=None) -> str | None:
    repo = ctx.repo
    module = fi.module if fi is not None else mod
    r = repo.resolve_expr(call.func, module, fi) if isinstance(call.func, (ast.Name, ast.Attribute)) else None
    if isinstance(r, ClassInfo) and r.qual in stateful:
        return r.qual
    if isinstance(r, str) and r in EXTERNAL_STATEFUL:
        return r
    if isinstance(r, FuncInfo) and r.qual in factories:
        return f"{r.qual} -> {factories[r.qual]}"
    return None


def check_pure(ctx: Ctx) -> None:
    repo, prog = ctx.repo, ctx.prog
    scope = pure_scope(ctx)
    ctx.note("functions_reachable_from_formatting_entry_points", len(scope))
    ctx.require("R-PURE", "functions reachable from the formatting entry points", len(scope), 30)
    stateful = stateful_classes(ctx)
    factories = _stateful_factories(ctx, stateful)
    ctx.note("stateful_classes", stateful)
    ctx.note("stateful_factories", factories)
    n_mut = 0
    for fi in scope.values():
        if isinstance(fi.node, ast.Lambda):
            continue
        key = fi.qual
        # S1 global / nonlocal
        for n in walk_no_nested(fi.node):
            if isinstance(n, ast.Global):
                ctx.ob("R-PURE-S1", f"{key} :: global {', '.join(n.names)}", False,
                       "a function on the formatting path declares module-level names writable", where(fi, n))
        escapes = _closure_escapes(ctx, fi)
        has_nonlocal = [n for n in walk_no_nested(fi.node) if isinstance(n, ast.Nonlocal)]
        if fi.parent is not None:
            ctx.ob("R-PURE-S1", f"{key} :: closure state", not (escapes and has_nonlocal),
                   ("escaping closure with nonlocal writes: state would persist across calls" if escapes and has_nonlocal
                    else f"closure {'escapes, no nonlocal writes' if escapes else 'does not escape its defining call'}"),
                   where(fi, fi.node))
        # S2 / S3 mutations through non-local roots
        for kind, target, stmt in _mutations(ctx, fi):
            b = _base_name(target)
            if kind == "name":
                continue
            if b is None:
                # type(self).x = ..., self.__class__.x = ...
                txt = norm(target)
                if "type(" in txt or "__class__" in txt:
                    ctx.ob("R-PURE-S3", f"{key} :: {norm(stmt)}", False, "store to a class attribute through the type", where(fi, stmt))
                continue
            scope_kind = _name_scope(ctx, fi, b.id)
            n_mut += 1
            if kind == "augname":
                if scope_kind in ("global",):
                    ctx.ob("R-PURE-S2", f"{key} :: {norm(stmt)}", False, "augmented assignment to a module-level name", where(fi, stmt))
                continue
            txt = norm(target)
            if "__class__" in txt:
                ctx.ob("R-PURE-S3", f"{key} :: {norm(stmt)}", False, "store to a class attribute through __class__", where(fi, stmt))
                continue
            if scope_kind == "global":
                r = repo.lookup(b.id, fi.module, fi)
                if kind == "mutcall" and isinstance(r, ImportRef) and r.kind == "mod":
                    continue  # re.sub / sys.stdout.write style: module function named like a mutator is not a container method
                if kind == "mutcall" and isinstance(r, (FuncInfo, ClassInfo)):
                    continue
                what = r.qual if isinstance(r, (ConstInfo, FuncInfo, ClassInfo)) else (r.dotted() if isinstance(r, ImportRef) else b.id)
                rule = "R-PURE-S3" if isinstance(r, ClassInfo) else "R-PURE-S2"
                ctx.ob(rule, f"{key} :: {norm(stmt)}", False,
                       f"mutation of the module-level object `{what}` on the formatting path", where(fi, stmt))
            elif scope_kind == "free":
                shared = _free_var_globals(ctx, fi, b.id)
                if shared:
                    ctx.ob("R-PURE-S2", f"{key} :: {norm(stmt)}", False,
                           f"captured variable `{b.id}` aliases module-level {shared}: mutation outlives the call", where(fi, stmt))
                elif escapes:
                    ctx.ob("R-PURE-S1", f"{key} :: {norm(stmt)}", False,
                           f"escaping closure mutates its captured variable `{b.id}`: state shared by all later calls", where(fi, stmt))
                else:
                    ctx.ob("R-PURE-S1", f"{key} :: {norm(stmt)}", True,
                           f"mutation of captured `{b.id}` in a closure confined to its defining call", where(fi, stmt))
            elif scope_kind == "local":
                # cls.x = ... in a classmethod, or an alias of a module-level object
                if fi.cls is not None and fi.params and b.id == fi.params[0] and any(d.endswith("classmethod") for d in fi.decorators):
                    ctx.ob("R-PURE-S3", f"{key} :: {norm(stmt)}", False, "store to a class attribute in a classmethod", where(fi, stmt))
                    continue
                aliases = _origin_globals(ctx, fi, b, stmt)
                aliases = [a for a in aliases if _is_mutable_global(ctx, a)]
                ctx.ob("R-PURE-S2", f"{key} :: {norm(stmt)}", not aliases,
                       (f"mutation through a local alias of module-level {aliases}" if aliases else
                        f"mutation of `{b.id}`, an object local to this call (parameter / fresh allocation)"), where(fi, stmt))
        # S6 mutable default arguments
        a = fi.node.args
        for d in list(a.defaults) + [x for x in a.kw_defaults if x is not None]:
            bad = isinstance(d, (ast.List, ast.Dict, ast.Set, ast.ListComp, ast.DictComp, ast.SetComp)) or (
                isinstance(d, ast.Call) and (
                    (isinstance(d.func, ast.Name) and d.func.id in ("list", "dict", "set", "defaultdict", "deque"))
                    or _instantiates(ctx, fi.parent, d, stateful, factories, fi.module) is not None
                )
            )
            if bad or isinstance(d, ast.Call):
                ctx.ob("R-PURE-S6", f"{key} :: default {norm(d)}", not bad,
                       "default argument evaluated once at definition time must not be a mutable / stateful object", where(fi, d))
    ctx.note("mutation_sites_examined", n_mut)

    # S4 cached functions return stateless instances
    cached = [f for f in repo.functions.values() if not isinstance(f.node, ast.Lambda) and _is_cached(f)]
    ctx.note("cached_functions", [f.qual for f in cached])
    ctx.require("R-PURE", "cached functions (get_html_md_word_splitter)", len(cached), 1)
    for f in cached:
        for n in walk_no_nested(f.node):
            if isinstance(n, ast.Return) and n.value is not None:
                ok = False
                detail = f"cached function returns `{norm(n.value)}`"
                ann = norm(f.node.returns) if getattr(f.node, "returns", None) is not None else ""
                ann_head = ann.split("[")[0].split(".")[-1]
                imm_elems = all(t.strip().split("[")[0].split(".")[-1] in ("str", "int", "bool", "float", "bytes", "None", "Pattern", "...", "")
                                for t in ann[ann.index("[") + 1:-1].split(",")) if "[" in ann else True
                if isinstance(n.value, ast.Call) and ctx.prog.resolve_call(f, n.value) in ("re.compile", "regex.compile"):
                    ok = True
                    detail += ": a compiled pattern is immutable"
                elif isinstance(n.value, (ast.JoinedStr, ast.Compare)) or (isinstance(n.value, ast.Tuple) and all(isinstance(e, ast.Constant) for e in n.value.elts)):
                    ok = True
                    detail += ": an immutable value"
                elif ann_head in ("str", "int", "bool", "float", "bytes", "Pattern") or (ann_head in ("tuple", "Tuple", "frozenset") and imm_elems):
                    ok = True
                    detail += f": declared to return the immutable type `{ann}`"
                elif isinstance(n.value, ast.Call):
                    r = repo.resolve_expr(n.value.func, f.module, f)
                    if isinstance(r, ClassInfo):
                        ok = r.qual not in stateful and not _has_instance_state(ctx, r)
                        detail += f": class {r.qual} is {'stateless' if ok else 'stateful (' + stateful.get(r.qual, 'has attributes') + ')'}"
                    elif isinstance(r, FuncInfo) and r.qual in factories:
                        detail += f": a stateful object ({factories[r.qual]}) would be shared by all calls"
                    else:
                        detail += ": result of an unanalysed call shared by all calls"
                elif isinstance(n.value, ast.Constant):
                    ok = True
                ctx.ob("R-PURE-S4", f"{f.qual} :: cached result", ok, detail, where(f, n))

    # S5 per-call allocation of stateful objects: never at import time, never in a cached function
    n_sites = 0
    for mod in repo.modules.values():
        for n in ast.walk(mod.tree):
            if not isinstance(n, ast.Call):
                continue
            fi = repo.enclosing_func(n)
            what = _instantiates(ctx, fi, n, stateful, factories, mod)
            if what is None:
                continue
            n_sites += 1
            where_kind = _eval_context(n, fi)
            ok = where_kind == "call-time" and not (fi is not None and _any_cached(fi))
            key = f"{fi.qual if fi else mod.name} :: {norm(n.func)}(...) [{what.split(' -> ')[0].split(':')[-1]}]"
            ctx.ob("R-PURE-S5", key, ok,
                   f"stateful object ({what}) allocated at {where_kind}" + (" inside a cached function" if fi is not None and _any_cached(fi) else ""),
                   where(mod, n))
            # the fresh instance must not be parked in a module / class level location
            st = _enclosing_stmt(n)
            if isinstance(st, ast.Assign) and fi is not None:
                for t in st.targets:
                    if isinstance(t, ast.Name) and _name_scope(ctx, fi, t.id) == "global":
                        ctx.ob("R-PURE-S5", key + " stored globally", False, "stateful instance stored in a module-level name", where(mod, st))
                    if isinstance(t, (ast.Attribute, ast.Subscript)):
                        b = _base_name(t)
                        if b is not None and _name_scope(ctx, fi, b.id) == "global":
                            ctx.ob("R-PURE-S5", key + " stored globally", False,
                                   f"stateful instance stored in module-level object `{b.id}`", where(mod, st))
    ctx.require("R-PURE", "allocation sites of stateful objects", n_sites, 2)
    ctx.note("stateful_allocation_sites", n_sites)

    # S5b: FlowmarkMarkdown builds a fresh parser and renderer on *every* parse() and render():
    # its _setup_extensions must not return early on a setup-done flag and must assign both
    fm = repo.func("flowmark.formats.flowmark_markdown:flowmark_markdown")
    for sub in fm.local_defs.values():
        if isinstance(sub, ClassInfo) and any(isinstance(b, str) and b == "marko.Markdown" for b in repo.class_bases(sub)):
            se = sub.methods.get("_setup_extensions")
            if se is None:
                ctx.ob("R-PURE-S5", f"{sub.qual} :: _setup_extensions", False,
                       "without the override marko builds parser/renderer once and reuses them across parse()/render() calls",
                       where(sub, sub.node))
                continue
            flow = prog.flow(se)
            assigned: dict[str, ast.AST] = {}
            for n in flow.cfg.nodes:
                if n.kind == "stmt" and isinstance(n.ast, (ast.Assign, ast.AnnAssign)):
                    tg = n.ast.targets[0] if isinstance(n.ast, ast.Assign) else n.ast.target
                    k = chain_key(tg)
                    if k in ("self.parser", "self.renderer") and n.ast.value is not None:
                        # must be assigned on every path entry -> exit
                        p = flow.cfg.path_avoiding(flow.cfg.entry, flow.cfg.exit, {n})
                        org = origins(prog, se, n.ast.value, n)
                        fresh = all(o[0] == "call" for o in org) and bool(org)
                        ctx.ob("R-PURE-S5", f"{se.qual} :: {k} fresh per call", p is None and fresh,
                               f"{k} must be rebuilt on every path of every parse()/render() "
                               f"(value: {', '.join(str(o[1]) for o in org)}; path skipping it: {'yes' if p else 'no'})",
                               where(se, n))
                        assigned[k] = n.ast
            for k in ("self.parser", "self.renderer"):
                if k not in assigned:
                    ctx.ob("R-PURE-S5", f"{se.qual} :: {k} fresh per call", False, f"{k} is not rebuilt in _setup_extensions", where(se, se.node))

    # S7 every own attribute of the renderer is initialised in __init__
    mn = repo.cls("flowmark.formats.flowmark_markdown:MarkdownNormalizer")
    init = mn.methods.get("__init__")
    init_attrs = set()
    if init is not None:
        for kind, target, stmt in _mutations(ctx, init):
            k = chain_key(target)
            if k and k.startswith("self."):
                init_attrs.add(k.split(".")[1])
    used = set()
    for mname, m in mn.methods.items():
        for n in walk_no_nested(m.node):
            if isinstance(n, ast.Attribute) and isinstance(n.value, ast.Name) and n.value.id == "self" and n.attr.startswith("_") \
                    and not n.attr.startswith("__"):
                if n.attr not in mn.methods:
                    used.add(n.attr)
    for a in sorted(used):
        ctx.ob("R-PURE-S7", f"{mn.qual} :: self.{a}", a in init_attrs,
               "every renderer field read or written by a render method is (re)initialised per instance in __init__", where(mn, mn.node))
    ctx.require("R-PURE", "renderer state fields", len(used), 4)

    # S3b class-level mutable defaults on classes of the formatting path
    # (every class of the package: element / parser / renderer subclasses are instantiated and called by marko, so they do
    # not show up as callees of the formatting entry points)
    for ci in repo.classes.values():
        for name, val in ci.class_attrs.items():
            if isinstance(val, (ast.List, ast.Dict, ast.Set)) or (
                isinstance(val, ast.Call) and isinstance(val.func, ast.Name) and val.func.id in ("list", "dict", "set")
            ):
                ctx.ob("R-PURE-S3", f"{ci.qual} :: class attribute {name}", False,
                       "mutable class-level default is shared by all instances / calls", where(ci, val))


def _is_mutable_global(ctx: Ctx, qual: str) -> bool:
    """A module-level object that can be mutated in place (list/dict/set literal or unknown call result)."""
    mod, _, name = qual.partition(":")
    m = ctx.repo.modules.get(mod)
    if m is None:
        return True  # external object: assume mutable
    d = m.defs.get(name)
    if isinstance(d, ConstInfo):
        v = d.value
        if isinstance(v, (ast.Constant, ast.Tuple, ast.JoinedStr)):
            return False
        if isinstance(v, ast.Call) and isinstance(v.func, ast.Name) and v.func.id in ("frozenset", "tuple", "str", "int"):
            return False
        return True
    return False


def _has_instance_state(ctx: Ctx, ci: ClassInfo) -> bool:
    for m in ci.methods.values():
        selfname = m.params[0] if m.params else None
        for kind, target, stmt in _mutations(ctx, m):
            b = _base_name(target)
            if b is not None and b.id == selfname and kind in ("store", "mutcall", "setattr"):
                if m.name == "__init__":
                    # attributes set once in __init__ are fine only if immutable; be strict: any attribute counts as state
                    return True
                return True
    return False


def _any_cached(fi: FuncInfo) -> bool:
    f: FuncInfo | None = fi
    while f is not None:
        if not isinstance(f.node, ast.Lambda) and _is_cached(f):
            return True
        f = f.parent
    return False


def _enclosing_stmt(node: ast.AST) -> ast.AST | None:
    p: ast.AST | None = node
    while p is not None and not isinstance(p, ast.stmt):
        p = parent(p)
    return p


def _eval_context(node: ast.AST, fi: FuncInfo | None) -> str:
    """'call-time' if evaluated when the enclosing function body runs; otherwise import-time variants."""
    p = parent(node)
    prev = node
    while p is not None:
        if isinstance(p, (ast.FunctionDef, ast.AsyncFunctionDef)):
            if prev in p.body:
                # nested def inside a function: fine, keep climbing only to detect class/module level of the outermost
                return "call-time"
            if prev is p.args or prev in p.decorator_list or prev is p.returns:
                # default argument / decorator: evaluated when the def statement runs
                outer = parent(p)
                while outer is not None and not isinstance(outer, (ast.FunctionDef, ast.AsyncFunctionDef, ast.Module)):
                    outer = parent(outer)
                return "definition time (default argument / decorator)" if isinstance(outer, ast.Module) or outer is None \
                    else "definition time of a nested function (once per enclosing call)"
        if isinstance(p, ast.Lambda):
            return "call-time"
        if isinstance(p, ast.ClassDef) and prev in p.body:
            outer = parent(p)
            while outer is not None and not isinstance(outer, (ast.FunctionDef, ast.AsyncFunctionDef, ast.Module)):
                outer = parent(outer)
            if isinstance(outer, ast.Module) or outer is None:
                return "class-definition time (import)"
        if isinstance(p, ast.Module):
            return "import time (module level)"
        prev = p
        p = parent(p)
    return "import time (module level)"


# ------------------------------------------------------------------ S8 (thorough): dependency scan
MARKO_MODULES = [
    "__init__.py", "block.py", "inline.py", "inline_parser.py", "parser.py", "source.py", "renderer.py", "helpers.py",
    "element.py", "patterns.py", "ext/gfm/__init__.py", "ext/gfm/elements.py", "ext/footnote.py", "ext/pangu.py",
]
# frozen exemptions, one reason each (confirmed by reading marko 2.2.4)
MARKO_EXEMPT = {
    ("renderer.py", "html._charref"): "patched in Renderer.__enter__ and restored in __exit__; only html.unescape reads it, "
                                      "which the flowmark renderer never calls (checked below)",
    ("inline.py", "cls.pattern"): "lazy re.compile of the class pattern in InlineElement.find: idempotent, both racers store an equal compiled pattern",
    ("renderer.py", "func._force_delegate"): "decorator marking a function object at definition time, not on the parse/render path",
}


def check_marko_contract(ctx: Ctx) -> None:
    sp = site_packages() / "marko"
    found: list[tuple[str, str, int]] = []
    n_funcs = 0
    for rel in MARKO_MODULES:
        p = sp / rel
        if not p.exists():
            continue
        try:
            tree = ast.parse(p.read_text())
        except SyntaxError as e:
            raise AnalysisError(f"cannot parse marko/{rel}: {e}") from e
        module_names = {t.id for st in tree.body if isinstance(st, ast.Assign) for t in st.targets if isinstance(t, ast.Name)}
        imported = set()
        for st in tree.body:
            if isinstance(st, ast.Import):
                imported |= {(a.asname or a.name).split(".")[0] for a in st.names}
        for fn in ast.walk(tree):
            if not isinstance(fn, (ast.FunctionDef, ast.AsyncFunctionDef)):
                continue
            n_funcs += 1
            local = {a.arg for a in fn.args.args + fn.args.kwonlyargs + fn.args.posonlyargs}
            if fn.args.vararg:
                local.add(fn.args.vararg.arg)
            if fn.args.kwarg:
                local.add(fn.args.kwarg.arg)
            for n in ast.walk(fn):
                if isinstance(n, ast.Name) and isinstance(n.ctx, ast.Store):
                    local.add(n.id)
            is_clsmethod = any("classmethod" in ast.unparse(d) for d in fn.decorator_list)
            for n in ast.walk(fn):
                if isinstance(n, ast.Global):
                    found.append((rel, "global " + ",".join(n.names), n.lineno))
                targets: list[ast.AST] = []
                if isinstance(n, ast.Assign):
                    targets = list(n.targets)
                elif isinstance(n, ast.AugAssign):
                    targets = [n.target]
                for t in targets:
                    if isinstance(t, (ast.Attribute, ast.Subscript)):
                        b = _base_name(t)
                        if b is None:
                            continue
                        if (b.id in module_names or b.id in imported) and b.id not in local:
                            found.append((rel, norm(t), n.lineno))
                        elif b.id == "cls" and is_clsmethod:
                            found.append((rel, norm(t), n.lineno))
                        elif b.id in ("func",) and fn.name == "force_delegate":
                            found.append((rel, norm(t), n.lineno))
                if isinstance(n, ast.Call) and isinstance(n.func, ast.Attribute) and n.func.attr in CONTAINER_MUTATORS:
                    b = _base_name(n.func.value)
                    if b is not None and b.id in module_names and b.id not in local:
                        found.append((rel, norm(n.func), n.lineno))
    ctx.note("marko_functions_scanned", n_funcs)
    ctx.require("R-PURE-S8", "marko functions scanned", n_funcs, 50)
    for rel, what, line in found:
        reason = MARKO_EXEMPT.get((rel, what))
        ctx.ob("R-PURE-S8", f"marko/{rel} :: {what}", reason is not None,
               reason or "process-wide state in the dependency that the confirmed contract does not list "
                         "(the dependency no longer matches what the isolation argument was checked against)",
               f"marko/{rel}:{line}")
    # the html._charref exemption is only harmless if nothing on the formatting path calls html.unescape
    scope = pure_scope(ctx)
    for fi in scope.values():
        if isinstance(fi.node, ast.Lambda):
            continue
        for n in walk_no_nested(fi.node):
            if isinstance(n, ast.Call):
                nm = ctx.repo.dotted_name(n.func, fi.module, fi) if isinstance(n.func, (ast.Name, ast.Attribute)) else None
                if nm in ("html.unescape", "html.parser.unescape"):
                    ctx.ob("R-PURE-S8", f"{fi.qual} :: html.unescape", False,
                           "html.unescape reads html._charref, which marko patches process-wide during a render", where(fi, n))
    ctx.assume("functools.cache, the re module's pattern cache and marko's lru_cache on the pure Source.match_prefix are semantically transparent")
