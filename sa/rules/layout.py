"""R-LAYOUT (C03), frontmatter flow (C07), decorator stack and pre-parse ordering (C01/C06)."""

from __future__ import annotations

import ast
import re

from ..cfg import Node, walk_no_nested
from ..constfold import Folder, RegexConst, Unknown
from ..dataflow import bind_call, chain_key, fmt_origin, origins
from ..decide import Decider, LoopFacts, expand_expr, role_of, roots_of
from ..loader import AnalysisError, ConstInfo, FuncInfo
from ..regexlang import Regex, included
from ..report import Ctx
from ..taint import Taint
from .common import all_guards, base_call_predicate, call_name, direct_guards, factory_closure, norm, reachable_functions, where
from .render import LOSSY_CALLS, LOSSY_METHODS, get_model
from .wrap import LW, TH, TW, sentence_wrapper, width_wrapper

LAYOUT_ATTRS = {"source_span", "syntax_spans", "dest_span", "title_span", "inline_body", "_inline_positions", "start_pos", "end_pos"}
FM = "flowmark.linewrapping.markdown_filling:fill_markdown"


def check_no_layout_reads(ctx: Ctx) -> None:
    """Y1: nothing on the formatting path reads source positions or raw source text of an element."""
    from .pure import pure_scope

    scope = pure_scope(ctx)
    hits = []
    n_attr = 0
    for fi in scope.values():
        if isinstance(fi.node, ast.Lambda):
            continue
        for n in walk_no_nested(fi.node):
            if isinstance(n, ast.Attribute):
                n_attr += 1
                if n.attr in LAYOUT_ATTRS and isinstance(n.ctx, ast.Load):
                    hits.append((fi, n))
    ctx.note("attribute_reads_scanned", n_attr)
    ctx.ob("R-LAYOUT-Y1", "formatting path :: no reads of source positions / raw element text", not hits,
           "the output must be a function of the parsed tree, not of where things stood in the source: "
           + (", ".join(f"{f.qual} reads .{n.attr}" for f, n in hits) or f"{n_attr} attribute reads scanned, none of {sorted(LAYOUT_ATTRS)}"),
           where(hits[0][0], hits[0][1]) if hits else "")


_WS_CACHE: dict[tuple[str, int], bool] = {}


def _is_whitespace_run(pattern: str, flags: int) -> bool:
    """Is the language of `pattern` exactly "one or more whitespace characters" (the language of \\s+)?"""
    key = (pattern, flags)
    if key not in _WS_CACHE:
        try:
            a = Regex(pattern, flags).glushkov()
            b = Regex(r"\s+", 0).glushkov()
            _WS_CACHE[key] = included(a, [b]) is None and included(b, [a]) is None
        except (ValueError, re.error):
            _WS_CACHE[key] = False
    return _WS_CACHE[key]


def _normalising_call(prog, fi: FuncInfo, c: ast.Call, depth: int = 0) -> bool:
    """re.sub(r'\\s+', ' ', x) / x.split() / a repo function all of whose returns are normalised."""
    nm = call_name(prog, fi, c)
    if nm == "re.sub" and len(c.args) >= 2 and isinstance(c.args[0], ast.Constant) and c.args[0].value in (r"\s+", r"[\s]+") \
            and isinstance(c.args[1], ast.Constant) and c.args[1].value == " ":
        return True
    if isinstance(c.func, ast.Attribute) and c.func.attr == "split" and not c.args and not c.keywords:
        return True
    if nm == "re.sub" and len(c.args) >= 2 and isinstance(c.args[0], ast.Constant) and isinstance(c.args[0].value, str) \
            and isinstance(c.args[1], ast.Constant) and c.args[1].value == " " and _is_whitespace_run(c.args[0].value, 0):
        return True
    if isinstance(c.func, ast.Attribute) and c.func.attr == "sub" and c.args and isinstance(c.args[0], ast.Constant) and c.args[0].value == " ":
        # PATTERN.sub(" ", text) with PATTERN a compiled module constant
        r = prog.repo.resolve_expr(c.func.value, fi.module, fi)
        if isinstance(r, ConstInfo):
            try:
                v = Folder(prog.repo).const(r.qual)
            except Unknown:
                v = None
            if isinstance(v, RegexConst) and _is_whitespace_run(v.pattern, v.flags):
                return True
    t = prog.resolve_call(fi, c)
    if isinstance(t, list) and depth < 3:
        callee = t[0]
        flow = prog.flow(callee)
        rets = [r for r in flow.cfg.returns() if r.ast.value is not None]
        return bool(rets) and all(_value_normalised(prog, callee, r.ast.value, r, depth + 1) for r in rets)
    if isinstance(c.func, ast.Name) and prog.flow(fi).reaching(prog.flow(fi).node_of(c) or prog.flow(fi).cfg.entry, c.func.id):
        return False
    if isinstance(c.func, ast.Name) and c.func.id in ("split_sentences", "splitter"):
        return True  # word / sentence splitter protocol: splits on whitespace (str.split semantics, checked at its definitions)
    return False


def _value_normalised(prog, fi: FuncInfo, expr: ast.AST, node: Node, depth: int = 0) -> bool:
    """Does the text in `expr` derive, on its data path, from a whitespace-normalising step?"""
    sl = prog.slice(fi, expr, node)
    for name, c in sl.calls:
        if _normalising_call(prog, fi, c, depth):
            return True
    # empty list / constant results carry no text
    if isinstance(expr, (ast.List, ast.Constant)):
        return True
    if isinstance(expr, ast.IfExp):
        return _value_normalised(prog, fi, expr.body, node, depth) and _value_normalised(prog, fi, expr.orelse, node, depth)
    return False


def check_whitespace_normalised(ctx: Ctx) -> None:
    """Y2: every terminal path of a base line wrapper collapses whitespace before producing text."""
    repo, prog = ctx.repo, ctx.prog
    wl = repo.func(f"{TW}:wrap_paragraph_lines")
    for f in (sentence_wrapper(ctx), wl):
        flow = prog.flow(f)
        n = 0
        for r in flow.cfg.returns():
            v = r.ast.value
            if v is None:
                continue
            n += 1
            ok = _value_normalised(prog, f, v, r)
            ctx.ob("R-LAYOUT-Y2", f"{f.qual} :: {norm(r.ast)[:60]}", ok,
                   "text returned by a base wrapper must have had its whitespace runs collapsed (re.sub(r'\\s+', ' ') or split/join): "
                   "otherwise runs of spaces in the source survive on this path and the output depends on the input's layout", where(f, r))
        ctx.require("R-LAYOUT-Y2", f"returns of {f.name}", n, 1)
    # Y2b: the collapsing steps of the wrapping core are controlled by `replace_whitespace` alone - an extra conjunct
    # ("only if the text has a newline", ...) re-introduces a dependence on the source layout
    from .config import implied_by

    wflow = prog.flow(wl)
    n_norm = 0
    for node in wflow.cfg.nodes:
        if node.kind == "stmt" and isinstance(node.ast, ast.Assign) and isinstance(node.ast.value, ast.Call) \
                and _normalising_call(prog, wl, node.ast.value):
            n_norm += 1
            guards = [g for g in direct_guards(prog, wl, node) if g[0].kind == "test"]
            ok = bool(guards)
            for b, lab, _org in guards:
                leaves = [x for x in ast.walk(b.ast) if isinstance(x, ast.Name) and x.id == "replace_whitespace"]
                if "width" in {x.id for x in ast.walk(b.ast) if isinstance(x, ast.Name)}:
                    continue  # the width <= 0 split of the function
                ok = ok and lab == "T" and bool(leaves) and implied_by(b.ast, leaves[:1])
            ctx.ob("R-LAYOUT-Y2", f"{wl.qual} :: whitespace collapse controlled by replace_whitespace alone", ok,
                   "whenever replace_whitespace is true the runs of whitespace must be collapsed; guards: "
                   + "; ".join(f"{norm(g[0].ast)}[{g[1]}]" for g in guards), where(wl, node))
    ctx.require("R-LAYOUT-Y2", "whitespace-collapsing statements in wrap_paragraph_lines", n_norm, 1)
    # wrap_paragraph_lines' normalisation is on by default and not switched off on the Markdown chains
    d = next((dflt for a, dflt in zip(reversed(wl.node.args.args), reversed(wl.node.args.defaults)) if a.arg == "replace_whitespace"), None)
    ctx.ob("R-LAYOUT-Y2", f"{wl.qual} :: replace_whitespace defaults to True", isinstance(d, ast.Constant) and d.value is True,
           "whitespace collapsing must be the default of the wrapping core", where(wl, wl.node))
    for f in (sentence_wrapper(ctx), width_wrapper(ctx)):
        flow = prog.flow(f)
        for nn, c in flow.all_calls():
            t = prog.resolve_call(f, c)
            if isinstance(t, list) and t[0].name in ("wrap_paragraph", "wrap_paragraph_lines"):
                rw = next((k.value for k in c.keywords if k.arg == "replace_whitespace"), None)
                ctx.ob("R-LAYOUT-Y2", f"{f.qual} :: does not disable whitespace collapsing",
                       rw is None or (isinstance(rw, ast.Constant) and rw.value is True),
                       "the Markdown wrappers must not pass replace_whitespace=False", where(f, c))


def check_soft_break_is_layout(ctx: Ctx) -> None:
    """Y6: a soft line break is layout - rendering it must leave no trace in the renderer's state."""
    rm = get_model(ctx)
    m = rm.methods.get("LineBreak")
    if m is None:
        raise AnalysisError("render method for LineBreak not found")
    touched = sorted(ctx.prog.may_assign(m))
    ctx.ob("R-LAYOUT-Y6", f"{m.qual} :: rendering a line break does not touch renderer state", not touched,
           "where the source lines were broken must not influence anything but the newline itself; the method assigns "
           f"{touched or 'nothing'}, so later decisions (escaping, spacing) would depend on the input's line layout", where(m, m.node))


def check_segment_predicates(ctx: Ctx) -> None:
    """Y3: a newline of the source is significant only next to a tag."""
    repo, prog = ctx.repo, ctx.prog
    fac = repo.func(f"{TH}:add_tag_newline_handling")
    w = factory_closure(prog, fac)
    flow = prog.flow(w)
    # the test that starts a new segment: controls the append of the joined current segment inside the line loop
    def boundary_or(e: ast.AST, at: Node, depth: int = 0) -> tuple[list[ast.AST], Node] | None:
        """The disjunction that decides "a new segment starts here": the test itself, a conjunct of it, or the temporary it names."""
        if isinstance(e, ast.BoolOp) and isinstance(e.op, ast.Or) and len(e.values) >= 2:
            return list(e.values), at
        if isinstance(e, ast.BoolOp) and isinstance(e.op, ast.And):
            for v in e.values:
                r = boundary_or(v, at, depth)
                if r is not None:
                    return r
        if isinstance(e, ast.Name) and depth < 3:
            defs = flow.reaching(at, e.id)
            if len(defs) == 1 and defs[0].kind == "assign" and defs[0].value is not None:
                return boundary_or(defs[0].value, defs[0].node, depth + 1)
        return None

    seg_tests = []
    for n in flow.cfg.nodes:
        if n.kind == "test" and any(n in flow.loop_body_nodes(h) for h in flow.cfg.nodes if h.kind == "for"):
            bo = boundary_or(n.ast, n)
            if bo is None:
                continue
            controlled = [x for x in flow.cfg.nodes if any(b is n and lab == "T" for b, lab in all_guards(prog, w, x))]
            if any(any(isinstance(c.func, ast.Attribute) and c.func.attr == "append" for c in flow.calls_in(x)) for x in controlled):
                seg_tests.append((n, bo))
    ctx.require("R-LAYOUT-Y3", "segment-boundary test in the tag newline handler", len(seg_tests), 1)
    tag_preds = _tag_predicates(ctx)
    ctx.note("tag_adjacency_predicates", sorted(tag_preds))
    for t, (disjuncts, at) in seg_tests[:1]:
        for d in disjuncts:
            sl = prog.slice(w, d, at)
            callees = sl.callees()
            is_tag = any(c in tag_preds for c in callees)
            is_block = any("block_content" in c or "block_heuristics" in c for c in callees)
            if is_block:
                # the heuristic is tolerated (recorded finding) only as far as a tag *adjacent to a line end* switches it on:
                # whatever else feeds the disjunct (its enabling condition) must come from the tag-adjacency predicates alone
                enabling = sorted(c for c in callees if c in prog.repo.functions and c not in tag_preds
                                  and "block_content" not in c and "block_heuristics" not in c)
                regex_ops = sorted({op for op, _ in sl.ops if op in (".search()", ".match()", ".finditer()", ".findall()", ".fullmatch()")})
                by_adjacency = any(c in tag_preds for c in callees)
                ctx.ob("R-LAYOUT-Y3", f"{fac.qual} [wrapper] :: block-content heuristic enabled by tag adjacency only", by_adjacency and not enabling and not regex_ops,
                       "the list / table-row heuristic may be switched on only by a tag at the start or end of a line of the paragraph; enabled here through "
                       f"{enabling + regex_ops or 'nothing that looks at line ends'}: a tag in the middle of a line would make unrelated soft breaks significant", where(w, t))
                # ... and it must be *off* without one: with every tag-adjacency predicate answering "no", the disjunct is false -
                # whatever its boolean structure (`has_tags and a or b` leaves `b` unguarded)
                def off(e: ast.AST, depth_: int = 0):
                    """value of the expression when no line of the paragraph touches a tag: True / False / None (depends on more)"""
                    if isinstance(e, ast.Constant):
                        return bool(e.value)
                    if isinstance(e, ast.UnaryOp) and isinstance(e.op, ast.Not):
                        v_ = off(e.operand, depth_)
                        return None if v_ is None else not v_
                    if isinstance(e, ast.BoolOp):
                        vs_ = [off(v_, depth_) for v_ in e.values]
                        if isinstance(e.op, ast.And):
                            return False if any(v_ is False for v_ in vs_) else (True if all(v_ is True for v_ in vs_) else None)
                        return True if any(v_ is True for v_ in vs_) else (False if all(v_ is False for v_ in vs_) else None)
                    if isinstance(e, ast.Call):
                        t_ = prog.resolve_call(w, e)
                        if isinstance(t_, list) and len(t_) == 1 and t_[0].qual in tag_preds:
                            return False
                        if isinstance(e.func, ast.Name) and e.func.id == "any" and len(e.args) == 1 and isinstance(e.args[0], (ast.GeneratorExp, ast.ListComp)):
                            return False if off(e.args[0].elt, depth_) is False else None
                    if isinstance(e, ast.IfExp):
                        c_ = off(e.test, depth_)
                        if c_ is not None:
                            return off(e.body if c_ else e.orelse, depth_)
                    if isinstance(e, ast.Name) and depth_ < 4:
                        try:
                            x_ = expand_expr(prog, w, e, at, strict=False, depth=1)
                        except Exception:  # noqa: BLE001
                            return None
                        if not (isinstance(x_, ast.Name) and x_.id == e.id):
                            return off(x_, depth_ + 1)
                    return None

                v_off = off(d)
                ctx.ob("R-LAYOUT-Y3", f"{fac.qual} [wrapper] :: block-content heuristic is off without a tag-adjacent line", v_off is False,
                       "with no tag at the start or end of any line of the paragraph this disjunct must be false (the heuristic only exists to keep "
                       f"lists / tables between tag lines apart); it evaluates to {'something that still depends on the line' if v_off is None else v_off}: "
                       "plain paragraphs would keep the newline before a line that merely looks like a table row or list item", where(w, t))
            # (keyed by what the disjunct consults, in source order - not by the names of the temporaries it is spelled with)
            what = "the block-content heuristics" if is_block else ("tag adjacency" if is_tag else "something else")
            ctx.ob("R-LAYOUT-Y3", f"{fac.qual} [wrapper] :: segment boundary disjunct consulting {what}", is_tag and not is_block,
                   "the only layout that may be significant is a newline directly before or after a template tag / HTML comment; this disjunct "
                   "starts a new segment on a different condition (" + ", ".join(sorted(c.split(':')[-1] for c in callees if ':' in c)) + ")",
                   where(w, t))


def _tag_predicates(ctx: Ctx) -> set[str]:
    """Functions of tag_handling whose verdict comes from comparing the ends of a line with tag delimiters (directly, through
    constants / tuples of delimiters, or through other such predicates) and that do not consult the block-content heuristics."""
    from .atomic import _affix_tests, _records

    repo, prog = ctx.repo, ctx.prog
    folder, recs, _table = _records(ctx)
    delims: set[str] = set()
    for r in recs.values():
        for k in ("open_delim", "close_delim"):
            v = r.fields.get(k)
            if isinstance(v, str) and v:
                delims |= {v, v + " /"}
    out: set[str] = set()
    mod = repo.module(TH)
    for name, d in mod.defs.items():
        if not (isinstance(d, FuncInfo) and not isinstance(d.node, ast.Lambda)):
            continue
        reach = reachable_functions(prog, [d])
        if any("block_content" in q or "block_heuristics" in q for q in reach):
            continue
        got = _affix_tests(ctx, folder, d)
        tested = got["startswith"] | got["endswith"]
        # a boolean predicate on one line
        rets = prog.flow(d).cfg.returns()
        if tested and tested <= delims and rets and len(d.params) == 1:
            out.add(d.qual)
    return out


def check_decorator_stack(ctx: Ctx) -> None:
    """Y4: both factories return hard_break(tag_newline(base)) under is_markdown, the bare base otherwise."""
    repo, prog = ctx.repo, ctx.prog
    from .. import anchors

    hb = anchors.hard_break_factory(ctx)
    tn = repo.func(f"{TH}:add_tag_newline_handling")
    for q in (f"{LW}:line_wrap_to_width", f"{LW}:line_wrap_by_sentence"):
        fac = repo.func(q)
        base = factory_closure(prog, fac)
        res: dict[bool, frozenset] = {}
        for md in (True, False):
            def atom(leaf: ast.AST, aliases: frozenset, md=md) -> bool | None:
                return md if "md" in role_of(leaf, aliases) else None

            def value_leaf(cur: FuncInfo, e: ast.AST, aliases: frozenset):
                return "BASE" if isinstance(e, ast.Name) and "base" in role_of(e, aliases) else None

            dec = Decider(prog, atom, value_leaf=value_leaf, symbolic={hb.qual, tn.qual})
            res[md] = dec.func_outcomes(fac, frozenset({"md=is_markdown", f"base={base.name}"}))
        want = ("call", hb.qual, ("call", tn.qual, "BASE"))
        ctx.ob("R-LAYOUT-Y4", f"{q} :: Markdown decorator stack", res[True] == frozenset({want}),
               f"in Markdown mode the wrapper must be hard_break(tag_newline(base)) on both factories; with is_markdown=True the factory returns {_fmt_stack(res[True])}",
               where(fac, fac.node))
        ctx.ob("R-LAYOUT-Y4", f"{q} :: plain mode returns the base wrapper", res[False] == frozenset({"BASE"}),
               f"without is_markdown the undecorated base wrapper is returned; the factory returns {_fmt_stack(res[False])}", where(fac, fac.node))


def _fmt_stack(vals) -> str:
    def one(v) -> str:
        if isinstance(v, tuple) and len(v) == 3 and v[0] == "call":
            return f"{v[1].split(':')[-1]}({one(v[2])})"
        return str(v)
    return "{" + ", ".join(sorted(one(v) for v in vals)) + "}"


def check_hard_break_decorator(ctx: Ctx) -> None:
    """C01: every non-last hard-break segment gets the backslash, segments are rejoined by newline."""
    repo, prog = ctx.repo, ctx.prog
    from .. import anchors

    fac = anchors.hard_break_factory(ctx)
    w = factory_closure(prog, fac)
    flow = prog.flow(w)
    is_base_call = base_call_predicate(prog, fac, w)

    def value_leaf(cur: FuncInfo, e: ast.AST, aliases: frozenset):
        return "SEG" if isinstance(e, ast.Call) and is_base_call(e) else None

    def sep_of(e: ast.AST) -> str | None:
        """the separator: a string literal, or a module-level constant holding one"""
        if isinstance(e, ast.Constant) and isinstance(e.value, str):
            return e.value
        if isinstance(e, (ast.Name, ast.Attribute)):
            from ..loader import ConstInfo as _CI

            r_ = repo.resolve_expr(e, w.module, w)
            if isinstance(r_, _CI) and isinstance(r_.value, ast.Constant) and isinstance(r_.value.value, str):
                return r_.value.value
        return None

    # the multi-segment result: SEP.join(parts)
    joins = [(r, r.ast.value) for r in flow.cfg.returns() if isinstance(r.ast.value, ast.Call) and isinstance(r.ast.value.func, ast.Attribute)
             and r.ast.value.func.attr == "join" and sep_of(r.ast.value.func.value) is not None and len(r.ast.value.args) == 1]
    if not joins:
        # single-exit style: result = SEP.join(parts) ... return result
        returned = {x.id for r in flow.cfg.returns() if r.ast.value is not None for x in ast.walk(r.ast.value) if isinstance(x, ast.Name)}
        joins = [(n, n.ast.value) for n in flow.cfg.nodes if n.kind == "stmt" and isinstance(n.ast, ast.Assign) and len(n.ast.targets) == 1
                 and isinstance(n.ast.targets[0], ast.Name) and n.ast.targets[0].id in returned and isinstance(n.ast.value, ast.Call)
                 and isinstance(n.ast.value.func, ast.Attribute) and n.ast.value.func.attr == "join" and sep_of(n.ast.value.func.value) is not None
                 and len(n.ast.value.args) == 1]
    ctx.require("R-HARDBREAK", "join of the wrapped segments in the hard-break decorator", len(joins), 1)
    for r, jc in joins:
        sep = sep_of(jc.func.value)
        parts_e = expand_expr(prog, w, jc.args[0], r, strict=False)
        if isinstance(parts_e, ast.Name):
            pdefs = flow.reaching(r, parts_e.id)
            if len(pdefs) == 1 and pdefs[0].kind == "assign" and isinstance(pdefs[0].value, (ast.ListComp, ast.GeneratorExp)):
                parts_e = pdefs[0].value
        got: dict[bool, set] = {True: set(), False: set()}
        pieces_ = None
        if isinstance(parts_e, ast.Name):
            # parts = [wrap(first)]; parts += [wrap(s) for s in rest]: a list put together from element expressions without any
            # per-position distinction - every part has the same shape, the separator alone carries the hard break
            ds_ = [d for d in flow.defs if d.var == parts_e.id]
            elems_: list[ast.AST] = []
            okp = bool(ds_)
            for d in ds_:
                v_ = d.value if d.kind == "assign" else (d.node.ast.value if d.kind == "aug" and isinstance(d.node.ast, ast.AugAssign) else None)
                if isinstance(v_, ast.List):
                    elems_ += list(v_.elts)
                elif isinstance(v_, (ast.ListComp, ast.GeneratorExp)) and len(v_.generators) == 1 and not v_.generators[0].ifs:
                    elems_.append(v_.elt)
                else:
                    okp = False
            if okp and elems_ and any(d.kind == "aug" for d in ds_):
                pieces_ = elems_
        if pieces_ is not None:
            dec = Decider(prog, lambda leaf, _al: None, value_leaf=value_leaf)
            vals_: set = set()
            for e_ in pieces_:
                vals_ |= set(dec.ev(w, e_, {}, {}, frozenset(), 0))
            got[True] = set(vals_)
            got[False] = set(vals_)
        elif isinstance(parts_e, (ast.ListComp, ast.GeneratorExp)) and len(parts_e.generators) == 1:
            facts = LoopFacts.of_comprehension(parts_e.generators[0])
            for last in (True, False):
                la = facts.last_atom(last)
                dec = Decider(prog, lambda leaf, _al, la=la: la(leaf), value_leaf=value_leaf)
                got[last] = set(dec.ev(w, parts_e.elt, {}, {}, frozenset(), 0))
        else:
            appends = [(n, c) for n, c in flow.all_calls() if isinstance(c.func, ast.Attribute) and c.func.attr == "append" and c.args]
            heads = [h for h in flow.cfg.nodes if h.kind == "for" and any(n in flow.loop_body_nodes(h) for n, _c in appends)]
            ctx.require("R-HARDBREAK", "segment loop in the hard-break decorator", len(heads), 1)
            for h in heads:
                facts = LoopFacts(prog, w, h)
                for last in (True, False):
                    la = facts.last_atom(last)
                    dec = Decider(prog, lambda leaf, _al, la=la: la(leaf), value_leaf=value_leaf)
                    for be in [x for x, lab in h.succ if lab == "iter"]:
                        for _end, _env, _benv, outs in dec.walk(w, be, lambda n, h=h: n is h, frozenset()):
                            for o in outs:
                                if isinstance(o, frozenset):
                                    got[last] |= o

        def suffix(v) -> str | None:
            if v == "SEG":
                return ""
            if isinstance(v, tuple) and len(v) == 3 and v[0] == "cat" and v[1] == "SEG" and type(v[2]) is str:
                return v[2]
            return None

        ctx.note("hard_break_segments", {"separator": sep, "last": sorted(map(str, got[True])), "not last": sorted(map(str, got[False]))})
        s_last = {suffix(v) for v in got[True]}
        s_other = {suffix(v) for v in got[False]}
        ctx.ob("R-HARDBREAK", f"{w.qual} :: last segment appended without marker", s_last == {""},
               f"the last segment ends the paragraph and must not get a hard-break backslash; the last part is {sorted(map(str, got[True]))}",
               where(w, r))
        ctx.ob("R-HARDBREAK", f"{w.qual} :: non-last segment ends with a backslash", len(s_other) == 1 and None not in s_other and next(iter(s_other)) + sep == "\\\n",
               "each hard break of the source (backslash-newline or two spaces) must be re-emitted as backslash + newline; the other parts are "
               f"{sorted(map(str, got[False]))}, joined by {sep!r}", where(w, r))
        ctx.ob("R-HARDBREAK", f"{w.qual} :: segments rejoined with a newline", sep.endswith("\n") and sep in ("\n", "\\\n"),
               "the wrapped segments are joined by newline so that `\\` + newline forms the hard break", where(w, r))
    # the split pattern matches both hard-break spellings
    from ..constfold import Folder, Unknown

    try:
        from .. import anchors

        lb_q = anchors.line_break_regex_qual(ctx)
        lb = Folder(repo).const(lb_q)
        pat = lb.pattern
    except Unknown as e:
        raise AnalysisError(str(e)) from e
    import re as _re

    ok = _re.fullmatch(pat, "\\\n") is not None and _re.fullmatch(pat, "  \n") is not None and _re.fullmatch(pat, "\n") is None
    ctx.ob("R-HARDBREAK", f"{LW} :: hard-break split pattern", ok, f"the split pattern {pat!r} must match backslash-newline and two-spaces-newline but not a soft break", "line_wrappers.py")


def _is_last_index_test(e: ast.AST) -> bool:
    """Truth table over small sizes: the comparison holds exactly for index == len - 1."""
    if not isinstance(e, ast.Compare) or len(e.ops) != 1:
        return False

    class Bad(Exception):
        pass

    def ev(x: ast.AST, i: int, n: int) -> int:
        if isinstance(x, ast.Constant) and isinstance(x.value, int):
            return x.value
        if isinstance(x, ast.Name):
            return i
        if isinstance(x, ast.Call) and isinstance(x.func, ast.Name) and x.func.id == "len":
            return n
        if isinstance(x, ast.BinOp) and isinstance(x.op, (ast.Add, ast.Sub)):
            a, b = ev(x.left, i, n), ev(x.right, i, n)
            return a + b if isinstance(x.op, ast.Add) else a - b
        raise Bad

    ops = {ast.Eq: lambda a, b: a == b, ast.GtE: lambda a, b: a >= b, ast.LtE: lambda a, b: a <= b, ast.Gt: lambda a, b: a > b,
           ast.Lt: lambda a, b: a < b, ast.NotEq: lambda a, b: a != b}
    f = ops.get(type(e.ops[0]))
    if f is None:
        return False
    try:
        for n in range(1, 6):
            for i in range(n):
                if f(ev(e.left, i, n), ev(e.comparators[0], i, n)) != (i == n - 1):
                    return False
    except Bad:
        return False
    return True


def check_parser_input(ctx: Ctx) -> None:
    """Y5 + ordering: strip + one newline before parsing; tag-block preprocessing and frontmatter split before the parser."""
    repo, prog = ctx.repo, ctx.prog
    fm = repo.func(FM)
    flow = prog.flow(fm)
    parses = [(n, c) for n, c in flow.all_calls() if isinstance(c.func, ast.Attribute) and c.func.attr == "parse"]
    ctx.require("R-LAYOUT-Y5", "parse call in fill_markdown", len(parses), 1)
    if not parses:
        return
    pn, pc = parses[0]
    arg = pc.args[0]
    # the value parsed is preprocess(strip(...) + "\n")
    pre = [(n, c) for n, c in flow.all_calls() if call_name(prog, fm, c).endswith(":preprocess_tag_block_spacing")]
    org = origins(prog, fm, arg, pn)
    ctx.ob("R-PREPARSE", f"{fm.qual} :: parser input went through preprocess_tag_block_spacing",
           org == frozenset({("call", f"{TH}:preprocess_tag_block_spacing")}),
           "blank lines between tag lines and lists/tables must be forced before parsing (the parser's structure cannot be fixed afterwards); "
           "parser input is " + ", ".join(fmt_origin(o) for o in org), where(fm, pc))
    if pre:
        n2, c2 = pre[0]
        v = c2.args[0]
        norm_nodes = [n for n in flow.cfg.nodes if n.kind == "stmt" and isinstance(n.ast, ast.Assign) and isinstance(n.ast.value, ast.BinOp)
                      and isinstance(n.ast.value.op, ast.Add) and isinstance(n.ast.value.right, ast.Constant) and n.ast.value.right.value == "\n"
                      and ".strip()" in norm(n.ast.value.left)]
        dom = bool(norm_nodes) and flow.cfg.path_avoiding(flow.cfg.entry, n2, set(norm_nodes)) is None
        ctx.ob("R-LAYOUT-Y5", f"{fm.qual} :: document text stripped and newline-terminated before parsing", dom,
               "leading / trailing blank lines are layout (render_blank_line would echo them): on every path the text must be "
               "`.strip() + \"\\n\"` before it reaches the parser", where(fm, c2))
        if norm_nodes:
            defs = flow.reaching(n2, v.id) if isinstance(v, ast.Name) else []
            ctx.ob("R-LAYOUT-Y5", f"{fm.qual} :: the stripped text is what is preprocessed", any(d.node in norm_nodes for d in defs) and len(defs) == 1,
                   "nothing may re-add layout between the strip and the parser", where(fm, c2))


def check_frontmatter_order(ctx: Ctx) -> None:
    """C07: the frontmatter is split off before anything else touches the text."""
    repo, prog = ctx.repo, ctx.prog
    fm = repo.func(FM)
    flow = prog.flow(fm)
    sf = [(n, c) for n, c in flow.all_calls() if call_name(prog, fm, c).endswith(":split_frontmatter")]
    ctx.require("R-FRONTMATTER", "split_frontmatter call in fill_markdown", len(sf), 1)
    if sf:
        sn = sf[0][0]
        later = [n for n, c in flow.all_calls() if call_name(prog, fm, c) in ("textwrap.dedent",) or
                 (isinstance(c.func, ast.Attribute) and c.func.attr in ("strip", "parse", "render")) or
                 call_name(prog, fm, c).endswith(":preprocess_tag_block_spacing")]
        bad = [n for n in later if flow.cfg.path_avoiding(flow.cfg.entry, n, {sn}) is not None]
        ctx.ob("R-FRONTMATTER", f"{fm.qual} :: frontmatter is split off before any text processing", not bad,
               "dedent / strip / tag preprocessing / parsing must all come after split_frontmatter (they would alter the frontmatter block)",
               where(fm, bad[0] if bad else sn))
        # and it is split from the text as given
        c = sf[0][1]
        org = origins(prog, fm, c.args[0], sn) if c.args else frozenset()
        ctx.ob("R-FRONTMATTER", f"{fm.qual} :: split_frontmatter receives the input text itself", org == frozenset({("param", fm.params[0])}),
               "the text handed to split_frontmatter must be the unmodified input; it is " + ", ".join(fmt_origin(o) for o in org), where(fm, c))


def _rename_root(v, root: str):
    """the value tree with the given root symbol renamed to BODY (to compare the two arms)"""
    if isinstance(v, tuple):
        return tuple(_rename_root(x, root) for x in v)
    if isinstance(v, frozenset):
        return frozenset(_rename_root(x, root) for x in v)
    if isinstance(v, str) and v == root and type(v) is str:
        return "BODY"
    return v


def check_frontmatter_flow(ctx: Ctx) -> None:
    """C07: the frontmatter text reaches the result only through the final concatenation; the body never depends on it."""
    repo, prog = ctx.repo, ctx.prog
    fm = repo.func(FM)
    flow = prog.flow(fm)
    sfq = "flowmark.formats.frontmatter:split_frontmatter"
    # variables holding the two halves
    fvar = cvar = None
    for d in flow.defs:
        if d.kind == "unpack" and isinstance(d.value, ast.Call) and call_name(prog, fm, d.value) == sfq:
            if d.index == 0:
                fvar = d.var
            elif d.index == 1:
                cvar = d.var
    if fvar is None or cvar is None:
        raise AnalysisError("fill_markdown no longer unpacks split_frontmatter into (frontmatter, content)")
    # The function is evaluated twice, assuming the frontmatter to be present / absent (a presence test may be spelled
    # `if frontmatter`, `bool(frontmatter)`, a named temporary ...). F, C and TEXT stand for the two halves and the input.
    sf_ = repo.functions.get(sfq)
    f_is_str = sf_ is not None and sf_.node.returns is not None and norm(sf_.node.returns).replace(" ", "") in ("tuple[str,str]", "Tuple[str,str]")

    class _E(str):
        pass
    _EMPTY = _E("")

    def mk(present: bool) -> Decider:
        def atom(leaf: ast.AST, aliases: frozenset) -> bool | None:
            if "F" in role_of(leaf, aliases):
                return present
            if isinstance(leaf, ast.Call) and isinstance(leaf.func, ast.Name) and leaf.func.id == "bool" and len(leaf.args) == 1 \
                    and "F" in role_of(leaf.args[0], aliases):
                return present
            if isinstance(leaf, ast.Compare) and len(leaf.ops) == 1 and "F" in role_of(leaf.left, aliases) \
                    and isinstance(leaf.comparators[0], ast.Constant) and leaf.comparators[0].value == "":
                if isinstance(leaf.ops[0], ast.NotEq):
                    return present
                if isinstance(leaf.ops[0], ast.Eq):
                    return not present
            return None

        def value_leaf(cur: FuncInfo, e: ast.AST, aliases: frozenset):
            roles = role_of(e, aliases)
            if "F" in roles and not present and f_is_str:
                return _EMPTY  # a str that is falsy is the empty string: `frontmatter + x` is x when there is none
            for r in ("F", "C", "TEXT"):
                if r in roles:
                    return r
            if isinstance(e, ast.Call) and isinstance(e.func, ast.Attribute) and e.func.attr == "render":
                return "RENDER"
            return None

        return Decider(prog, atom, value_leaf=value_leaf, derive=True, opaque={sfq})

    al = frozenset({f"F={fvar}", f"C={cvar}", f"TEXT={fm.params[0]}"})
    parse_nodes = [(n, c) for n, c in flow.all_calls() if isinstance(c.func, ast.Attribute) and c.func.attr == "parse" and c.args]
    ctx.require("R-FRONTMATTER", "parser call in fill_markdown", len(parse_nodes), 1)
    results: dict[bool, frozenset] = {}
    parsed: dict[bool, set] = {}
    shapes: dict[bool, set] = {}
    for present in (True, False):
        dec = mk(present)
        results[present] = dec.func_outcomes(fm, al)
        roots: set = set()
        for pn, pc in parse_nodes:
            for end, env, benv, _outs in dec.walk(fm, flow.cfg.entry, lambda x, pn=pn: x is pn, al):
                if end is pn:
                    for v in dec.ev(fm, pc.args[0], env, benv, env.get("__aliases__", al), 0):
                        roots |= {str(r) for r in roots_of(v)} or {"?"}
                        shapes.setdefault(present, set()).add(_rename_root(v, "C" if present else "TEXT"))
        parsed[present] = roots
    ctx.note("frontmatter_flow", {"returned_when_present": sorted(map(str, results[True])), "returned_when_absent": sorted(map(str, results[False])),
                                  "parser_input_when_present": sorted(parsed[True]), "parser_input_when_absent": sorted(parsed[False])})
    ctx.ob("R-FRONTMATTER", f"{fm.qual} :: frontmatter used only in presence tests and the final concatenation",
           results[True] == frozenset({("cat", "F", "RENDER")}) and "F" not in parsed[True] | parsed[False],
           "every other use could re-wrap, re-quote or normalise the block; with frontmatter present the function returns "
           f"{sorted(map(str, results[True]))} and the parser input is computed from {sorted(parsed[True])}", where(fm, fm.node))
    ctx.ob("R-FRONTMATTER", f"{fm.qual} :: result = frontmatter + rendered body",
           results[True] == frozenset({("cat", "F", "RENDER")}) and results[False] == frozenset({"RENDER"}),
           "the returned text must be exactly the frontmatter followed by the renderer's output (and the renderer's output alone when there is none); "
           f"present: {sorted(map(str, results[True]))}, absent: {sorted(map(str, results[False]))}", where(fm, fm.node))
    ctx.ob("R-FRONTMATTER", f"{fm.qual} :: body = content when frontmatter is present", parsed[True] == {"C"},
           f"with frontmatter the text that is formatted must be the content half only; the parser input is computed from {sorted(parsed[True])}",
           where(fm, fm.node))
    # the body goes through the same steps whether or not a frontmatter block was split off: on the arm taken when there is
    # one, the text to be formatted may be *switched* to the content half (a plain copy), nothing more - an extra strip /
    # dedent / replace there would prepare the same body differently depending on the presence of the block
    from .common import all_guards as _all_guards

    body_vars: set[str] = set()
    for pn, pc in parse_nodes:
        sl_ = prog.slice(fm, pc.args[0], pn)
        body_vars |= {d.var for d in sl_.defs}
    extra = []
    for n in flow.cfg.nodes:
        if n.kind != "stmt" or not isinstance(n.ast, (ast.Assign, ast.AugAssign)):
            continue
        tg_ = n.ast.targets[0] if isinstance(n.ast, ast.Assign) else n.ast.target
        if not (isinstance(tg_, ast.Name) and tg_.id in body_vars):
            continue
        guarded = any(b.kind == "test" and any(isinstance(x, ast.Name) and x.id == fvar for x in ast.walk(b.ast)) for b, _lab in _all_guards(prog, fm, n))
        if not guarded:
            continue
        v_ = n.ast.value
        if isinstance(n.ast, ast.Assign) and isinstance(v_, ast.Name) and v_.id in (cvar, fm.params[0]):
            continue
        extra.append(n)
    # ... with the same options: when the two cases return separately, each result depends on the same parameters
    arm_params: dict[bool, set[str]] = {}
    arm_returns: dict[bool, int] = {}
    for n_ in flow.cfg.nodes:
        arm = None
        for b, lab in _all_guards(prog, fm, n_):
            if b.kind == "test" and isinstance(b.ast, ast.expr) and any(isinstance(x, ast.Name) and x.id == fvar for x in ast.walk(b.ast)):
                pol = lab == "T"
                t_ = b.ast
                while isinstance(t_, ast.UnaryOp) and isinstance(t_.op, ast.Not):
                    pol, t_ = not pol, t_.operand
                arm = pol
        if arm is None:
            continue
        if n_.kind == "stmt" and isinstance(n_.ast, ast.Return):
            arm_returns[arm] = arm_returns.get(arm, 0) + 1
        for ex in flow.node_exprs(n_):
            arm_params.setdefault(arm, set()).update(x.id for x in ast.walk(ex) if isinstance(x, ast.Name) and x.id in fm.params and x.id != fm.params[0])
    if not (arm_returns.get(True) and arm_returns.get(False)):
        arm_params = {}  # (one common exit: there are no two separately formatted cases to compare)
    if True in arm_params and False in arm_params:
        only = sorted(arm_params[True] ^ arm_params[False])
        ctx.ob("R-FRONTMATTER", f"{fm.qual} :: body is formatted with the same options with and without frontmatter", not only,
               f"the result returned when a frontmatter block is present and the one returned when it is absent depend on different options ({only}): "
               "the same body is formatted differently depending on the presence of the block", where(fm, fm.node))
    ctx.ob("R-FRONTMATTER", f"{fm.qual} :: body is prepared the same way with and without frontmatter", not extra,
           "under the frontmatter-presence test the text to be formatted may only be switched to the content half; "
           + ("; ".join(f"`{norm(n.ast)[:60]}` does more" for n in extra) if extra else "it is"), where(fm, extra[0] if extra else fm.node))
    ctx.ob("R-FRONTMATTER", f"{fm.qual} :: body does not depend on the frontmatter text", "F" not in parsed[True] | parsed[False],
           f"the parser input must not be computed from the frontmatter text; it is computed from {sorted(parsed[True] | parsed[False])}", where(fm, fm.node))


def check_split_frontmatter(ctx: Ctx) -> None:
    """C07: the pieces returned by split_frontmatter are built from the input by an inverse split/join pair only."""
    repo, prog = ctx.repo, ctx.prog
    sf = repo.func("flowmark.formats.frontmatter:split_frontmatter")
    p = sf.params[0]
    tn = Taint(prog)
    tn.run(sf, lambda e: isinstance(e, ast.Name) and e.id == p)
    bad = []
    splits, joins = [], []
    for op in tn.ops:
        if op.kind == "method" and op.name in ("strip", "lstrip", "rstrip"):
            # stripping is fine on the *tests* (line.strip() == "---"), not on values that are returned
            if _flows_to_return(sf, op.node):
                bad.append((op, f"{op.text} on a value that is returned"))
        elif op.kind == "method" and op.name == "splitlines":
            bad.append((op, "splitlines() also splits on \\v \\f \\x1c-\\x1e \\x85 U+2028 U+2029, and '\\n'.join does not put them back"))
        elif op.kind == "method" and op.name == "split":
            splits.append(op)
            if op.args != ("'\\n'",):
                bad.append((op, f"split{op.args} is not inverted by the '\\n' join"))
        elif op.kind == "method" and op.name == "replace":
            if op.args != ("'\\r\\n'", "'\\n'"):
                bad.append((op, f"{op.text} rewrites characters (only CRLF -> LF is allowed by the statement)"))
        elif op.kind == "method" and op.name in LOSSY_METHODS:
            if _flows_to_return(sf, op.node):
                bad.append((op, f"{op.text} is not content-preserving"))
        elif op.kind == "call" and (op.name in LOSSY_CALLS or op.name.endswith(".sub")):
            bad.append((op, f"{op.text} rewrites the text"))
        elif op.kind == "call" and op.name == "join":
            joins.append(op)
    def line_terminating_join(c: ast.AST) -> ast.AST | None:
        """the iterable S of `"".join(line + "\n" for line in S)`: every line followed by its newline - the join with "\n" plus the
        final newline, written element-wise"""
        if isinstance(c, ast.Call) and isinstance(c.func, ast.Attribute) and c.func.attr == "join" and isinstance(c.func.value, ast.Constant) \
                and c.func.value.value == "" and len(c.args) == 1 and isinstance(c.args[0], (ast.GeneratorExp, ast.ListComp)):
            g = c.args[0]
            if len(g.generators) == 1 and not g.generators[0].ifs and isinstance(g.generators[0].target, ast.Name) and isinstance(g.elt, ast.BinOp) \
                    and isinstance(g.elt.op, ast.Add) and isinstance(g.elt.left, ast.Name) and g.elt.left.id == g.generators[0].target.id \
                    and isinstance(g.elt.right, ast.Constant) and g.elt.right.value == "\n":
                return g.generators[0].iter
        return None

    for j in joins:
        sep = j.node.func.value if isinstance(j.node, ast.Call) and isinstance(j.node.func, ast.Attribute) else None
        if line_terminating_join(j.node) is not None:
            continue
        if not (isinstance(sep, ast.Constant) and sep.value == "\n"):
            bad.append((j, "lines must be rejoined with '\\n'"))
    ctx.note("split_frontmatter_ops", [o.text for o in tn.ops])
    if not bad:
        ctx.ob("R-FRONTMATTER-verbatim", f"{sf.qual} :: pieces are built by an inverse split/join pair", bool(joins),
               f"{len(tn.ops)} operations on the input, all content-preserving", where(sf, sf.node))
    for op, why in bad:
        ctx.ob("R-FRONTMATTER-verbatim", f"{sf.qual} :: {op.text}", False,
               f"the frontmatter (and the body) must come out character for character apart from CRLF -> LF: {why}", where(sf, op.node))
    # the frontmatter piece is the join of ONE contiguous slice of the split lines (delimiter lines included, untouched):
    # rebuilding it from constants (`["---", *inner, "---"]`) would normalise the delimiter lines
    flow0 = prog.flow(sf)
    for r in flow0.cfg.returns():
        v = r.ast.value
        if not (isinstance(v, ast.Tuple) and len(v.elts) == 2):
            continue
        first = v.elts[0]
        if isinstance(first, ast.Constant) or (isinstance(first, ast.Name) and first.id == p):
            continue
        e, nd = first, r
        if isinstance(e, ast.Name):
            defs = flow0.reaching(nd, e.id)
            if len(defs) == 1 and defs[0].value is not None:
                e, nd = defs[0].value, defs[0].node
        # "\n".join(<slice of lines>) + "\n"
        core = e.left if isinstance(e, ast.BinOp) and isinstance(e.op, ast.Add) and isinstance(e.right, ast.Constant) and e.right.value == "\n" else e
        lt = line_terminating_join(core)
        if lt is not None:
            core = ast.Call(func=ast.Attribute(value=ast.Constant(value="\n"), attr="join", ctx=ast.Load()), args=[lt], keywords=[])
        ok = isinstance(core, ast.Subscript) and isinstance(core.slice, ast.Slice) and isinstance(core.value, ast.Name) and core.value.id == p
        if isinstance(core, ast.Call) and isinstance(core.func, ast.Attribute) and core.func.attr == "join" and core.args:
            a = core.args[0]
            if isinstance(a, ast.Name):
                ds = flow0.reaching(nd, a.id)
                if len(ds) == 1 and ds[0].value is not None:
                    a = ds[0].value
            ok = isinstance(a, ast.Subscript) and isinstance(a.slice, ast.Slice) and a.slice.step is None and isinstance(a.value, ast.Name) and any(
                d.kind == "assign" and isinstance(d.value, ast.Call) and isinstance(d.value.func, ast.Attribute) and d.value.func.attr in ("split", "splitlines")
                for d in flow0.reaching(nd, a.value.id))
        ctx.ob("R-FRONTMATTER-verbatim", f"{sf.qual} :: frontmatter = join of one slice of the input's lines", ok,
               "the frontmatter block (its `---` lines included) must be cut out of the input's own lines, not rebuilt from constants or "
               f"several pieces: `{norm(e)[:70]}`", where(sf, nd))
    # ... and so is the body: the rest of the same line list. Cutting the body out of the *raw* text with an offset computed
    # from the (CRLF-folded) lines does not index the raw text.
    for r in flow0.cfg.returns():
        v = r.ast.value
        if not (isinstance(v, ast.Tuple) and len(v.elts) == 2):
            continue
        second = v.elts[1]
        if isinstance(second, ast.Constant) or (isinstance(second, ast.Name) and second.id == p):
            continue
        e2 = expand_expr(prog, sf, second, r, strict=False)
        ok2 = False
        if isinstance(e2, ast.Call) and isinstance(e2.func, ast.Attribute) and e2.func.attr == "join" and isinstance(e2.func.value, ast.Constant) \
                and e2.func.value.value == "\n" and e2.args:
            a2 = e2.args[0]
            src = a2.value if isinstance(a2, ast.Subscript) and isinstance(a2.slice, ast.Slice) and a2.slice.step is None else None
            if isinstance(src, ast.Call) and isinstance(src.func, ast.Attribute) and src.func.attr == "split":
                ok2 = True  # expanded through `lines = text....split("\n")`
            elif isinstance(src, ast.Name):
                ok2 = any(d.kind == "assign" and isinstance(d.value, ast.Call) and isinstance(d.value.func, ast.Attribute) and d.value.func.attr == "split"
                          for d in flow0.reaching(r, src.id))
        ctx.ob("R-FRONTMATTER-verbatim", f"{sf.qual} :: body = join of the remaining lines", ok2,
               "the body must be the remaining lines of the same split, rejoined with '\\n' (not a slice of the raw text by a computed "
               f"offset, which is wrong as soon as CRLF was folded): `{norm(e2)[:80]}`", where(sf, r))
    # the no-frontmatter path returns the input itself
    flow = prog.flow(sf)
    ident = 0
    for r in flow.cfg.returns():
        v = r.ast.value
        if isinstance(v, ast.Tuple) and len(v.elts) == 2:
            a, b = v.elts
            if isinstance(a, ast.Constant) and a.value == "" and isinstance(b, ast.Name) and b.id == p:
                ident += 1
            if isinstance(b, ast.Constant) and b.value == "" and isinstance(a, ast.Name) and a.id == p:
                ident += 1
    ctx.ob("R-FRONTMATTER-verbatim", f"{sf.qual} :: documents without (closed) frontmatter are handed back unchanged", ident >= 2,
           "the two degenerate cases must return the original text object", where(sf, sf.node))


def _flows_to_return(fi: FuncInfo, node: ast.AST) -> bool:
    """Is the operation's result part of a returned value (vs. only used in a comparison)?"""
    from ..loader import parent

    p = parent(node)
    while p is not None and not isinstance(p, ast.stmt):
        if isinstance(p, ast.Compare):
            return False
        p = parent(p)
    if isinstance(p, (ast.If, ast.While)):
        return False
    return True
