"""R-OPTFLOW / R-SINK: identity threading of every option from every entry point to its consumer."""

from __future__ import annotations

import ast

from ..argmodel import parsers_in
from ..cfg import walk_no_nested
from ..dataflow import bind_call, fmt_origin, origins, param_default
from ..loader import AnalysisError, ClassInfo, FuncInfo
from ..report import Ctx
from .common import all_guards, call_name, direct_guards, norm, where

OPTIONS = (
    "width", "plaintext", "semantic", "cleanups", "smartquotes", "ellipses", "list_spacing",
    "inplace", "nobackup", "make_parents",
)
# from the statement of C15: "--auto is exactly --inplace --nobackup --semantic --cleanups --smartquotes --ellipses"
AUTO_SET = frozenset({"inplace", "nobackup", "semantic", "cleanups", "smartquotes", "ellipses"})

CHAIN_MODULES = ("flowmark.cli", "flowmark.reformat_api", "flowmark.linewrapping.markdown_filling")


def find_parse_args(ctx: Ctx) -> FuncInfo:
    """The function of flowmark.cli that builds the main ArgumentParser (found by shape, not by name)."""
    repo = ctx.repo
    def builds_options(f: FuncInfo) -> bool:
        for c in walk_no_nested(f.node):
            if isinstance(c, ast.Call):
                r = repo.resolve_expr(c.func, f.module, f)
                if isinstance(r, ClassInfo) and r.name == "Options":
                    return True
        return False

    cands = []
    for f in repo.functions.values():
        if f.module.name != "flowmark.cli" or isinstance(f.node, ast.Lambda):
            continue
        if f.name == "_parse_args" or (builds_options(f) and "flowmark.cli:_parse_args" not in repo.functions):
            # anchor: the inlined view keeps it a function of its own (its helpers are spliced into it, it is not spliced into main)
            repo.func(f.qual)
        if parsers_in(repo, f):
            cands.append(f)
    if not cands:
        raise AnalysisError("anchor vanished: no function of flowmark.cli builds an argparse.ArgumentParser")
    if len(cands) > 1:
        # the one that also turns the parsed namespace into the Options record
        with_opts = [f for f in cands if builds_options(f)]
        if len(with_opts) > 1:
            # a parser function that nobody calls any more (its body was written out in main) does not count
            from .common import callers_index

            live = [f for f in with_opts if f.name == "main" or callers_index(ctx.prog).get(f.qual)]
            with_opts = live or with_opts
        if len(with_opts) != 1:
            raise AnalysisError("the argument parsers of flowmark.cli are built in functions other than the one that fills Options; "
                                "cannot model the CLI from the source as written")
        return with_opts[0]
    return cands[0]


def split_parsers(pms: dict):
    """(main parser, sentinel parser | None): the main parser is the one declaring the positional inputs."""
    mains = [pm for pm in pms.values() if any(a.positional for a in pm.args)]
    if len(mains) != 1:
        raise AnalysisError(f"cannot identify the main ArgumentParser ({len(mains)} parsers declare positional arguments)")
    others = [pm for pm in pms.values() if pm is not mains[0]]
    return mains[0], (others[0] if others else None)


def options_class(ctx: Ctx) -> ClassInfo:
    return ctx.repo.cls("flowmark.cli:Options")


def _through_enum(ctx: Ctx, fi: FuncInfo, expr: ast.AST) -> ast.AST:
    """ListSpacing(x) is a value-preserving conversion str -> Enum member: look through it."""
    if isinstance(expr, ast.Call) and len(expr.args) == 1 and not expr.keywords:
        r = ctx.repo.resolve_expr(expr.func, fi.module, fi)
        if isinstance(r, ClassInfo) and any("Enum" in ast.unparse(b) for b in r.base_exprs):
            return expr.args[0]
    return expr


def scope_origin(ctx: Ctx, fi: FuncInfo, opt: str, options_objs: set) -> frozenset | None:
    """How option `opt` is available in function fi: as parameter, free variable, or field of the Options object."""
    if opt in fi.params:
        return frozenset({("param", opt)})
    if options_objs:
        return frozenset({("attr", o, opt) for o in options_objs})
    f = fi.parent
    while f is not None:
        if opt in f.params:
            return frozenset({("free", opt)})
        f = f.parent
    return None


def check_parse_args(ctx: Ctx) -> None:
    """argparse namespace -> Options record; --auto expansion."""
    repo, prog = ctx.repo, ctx.prog
    fi = find_parse_args(ctx)
    flow = prog.flow(fi)
    pms = parsers_in(repo, fi)
    # the main parser is the one whose parse_args() result feeds the Options(...) construction
    opt_calls = [
        (n, c) for n, c in flow.all_calls() if isinstance(repo.resolve_expr(c.func, fi.module, fi), ClassInfo)
        and repo.resolve_expr(c.func, fi.module, fi).name == "Options"  # type: ignore[union-attr]
    ]
    ctx.require("R-OPTFLOW", "Options(...) construction in the argument parser function", len(opt_calls), 1)
    node, call = opt_calls[0]
    ocls = options_class(ctx)
    fields = [st.target.id for st in ocls.node.body if isinstance(st, ast.AnnAssign) and isinstance(st.target, ast.Name)]
    main_pm, _sentinel = split_parsers(pms)
    dests = main_pm.by_dest()
    ctx.note("argparse_main_arguments", len(main_pm.args))
    binding = _bind_dataclass(fields, call)
    ns_origin = None
    auto_true: set[str] = set()
    n_ob = 0
    for f in fields:
        if f not in dests or f == "files" and False:
            continue
        if f not in OPTIONS and f not in ("output", "files"):
            continue
        expr = binding.get(f)
        key = f"{fi.qual} :: Options.{f}"
        if expr is None:
            ctx.ob("R-OPTFLOW", key, False, f"Options field `{f}` is not bound from the parsed arguments", where(fi, call))
            continue
        expr = _through_enum(ctx, fi, expr)
        org = origins(prog, fi, expr, node)
        attr_orgs = {o for o in org if o[0] == "attr"}
        const_orgs = {o for o in org if o[0] == "const"}
        other = org - attr_orgs - const_orgs
        ok = (
            len(attr_orgs) == 1
            and next(iter(attr_orgs))[2] == f
            and not other
            and const_orgs <= {("const", "True")}
        )
        n_ob += 1
        ctx.ob(
            "R-OPTFLOW", key, ok,
            f"Options.{f} must be the parsed value of dest `{f}` (plus the --auto preset); it comes from "
            + ", ".join(sorted(fmt_origin(o) for o in org)),
            where(fi, expr),
        )
        if attr_orgs:
            ns_origin = next(iter(attr_orgs))[1]
        if ("const", "True") in const_orgs:
            auto_true.add(f)
    ctx.require("R-OPTFLOW", "Options fields bound from argparse dests", n_ob, 6)
    # --auto: the set of fields forced to True, and the guard of those stores
    key = f"{fi.qual} :: auto preset"
    ctx.ob(
        "R-AUTO", key, auto_true == set(AUTO_SET),
        f"fields forced to True by the preset are {sorted(auto_true)}, the statement requires {sorted(AUTO_SET)}",
        where(fi, call),
    )
    for n in flow.cfg.nodes:
        if n.kind == "stmt" and isinstance(n.ast, ast.Assign) and len(n.ast.targets) == 1:
            t = n.ast.targets[0]
            if isinstance(t, ast.Attribute) and isinstance(n.ast.value, ast.Constant) and t.attr in AUTO_SET | set(OPTIONS):
                guards = direct_guards(prog, fi, n)
                g_ok = len(guards) == 1 and guards[0][1] == "T" and any(
                    o[0] == "attr" and o[2] == "auto" for o in guards[0][2]
                ) and all(o[0] == "attr" and o[2] == "auto" for o in guards[0][2])
                ctx.ob(
                    "R-AUTO", f"{fi.qual} :: {norm(n.ast)}", g_ok and n.ast.value.value is True,
                    "a preset store must assign True and be guarded by exactly the parsed --auto flag; guards: "
                    + "; ".join(f"{norm(g[0].ast)}[{g[1]}]" for g in guards),
                    where(fi, n),
                )
    # argparse side: the --auto flag exists, boolean options are store_true with a False default
    for o in ("plaintext", "semantic", "cleanups", "smartquotes", "ellipses", "inplace", "nobackup", "auto"):
        spec = dests.get(o)
        ok = spec is not None and spec.action == "store_true" and spec.default in (None, "False")
        ctx.ob("R-OPTFLOW", f"{fi.qual} :: add_argument dest={o}", ok,
               f"switch `{o}` must be a store_true flag defaulting to False (found: "
               f"{'missing' if spec is None else (spec.action, spec.default)})",
               where(fi, spec.node if spec else fi.node))
    spec = dests.get("width")
    ctx.ob("R-OPTFLOW", f"{fi.qual} :: add_argument dest=width", spec is not None and spec.type == "int" and spec.takes_value,
           "width must be parsed as an int-valued option", where(fi, spec.node if spec else fi.node))
    spec = dests.get("list_spacing")
    members = _enum_values(ctx, "flowmark.formats.flowmark_markdown:ListSpacing")
    ctx.ob("R-OPTFLOW", f"{fi.qual} :: add_argument dest=list_spacing",
           spec is not None and spec.choices is not None and sorted(spec.choices) == sorted(members),
           f"--list-spacing choices {spec.choices if spec else None} must equal the ListSpacing members {members}",
           where(fi, spec.node if spec else fi.node))


def _enum_values(ctx: Ctx, qual: str) -> list[str]:
    ci = ctx.repo.cls(qual)
    vals = []
    for st in ci.node.body:
        if isinstance(st, ast.Assign) and isinstance(st.value, ast.Constant) and isinstance(st.value.value, str):
            vals.append(st.value.value)
    return vals


def _bind_dataclass(fields: list[str], call: ast.Call) -> dict[str, ast.AST]:
    out: dict[str, ast.AST] = {}
    for i, a in enumerate(call.args):
        if i < len(fields):
            out[fields[i]] = a
    for kw in call.keywords:
        if kw.arg:
            out[kw.arg] = kw.value
    return out


def check_call_edges(ctx: Ctx) -> None:
    """Every call edge inside the option chain binds option o of the callee to option o of the caller."""
    repo, prog = ctx.repo, ctx.prog
    n_edges = 0
    n_bind = 0
    per_callee_sites: dict[tuple[str, str], list[tuple[frozenset, ast.Call]]] = {}
    for fi in list(repo.functions.values()):
        if fi.module.name not in CHAIN_MODULES or isinstance(fi.node, ast.Lambda):
            continue
        flow = prog.flow(fi)
        # Options objects visible in this function: locals whose origin is the parser function's result,
        # or parameters annotated with the Options class
        if fi.qual == "flowmark.cli:main":
            continue  # handled field by field in check_main_call
        for n, c in flow.all_calls():
            t = prog.resolve_call(fi, c)
            if not isinstance(t, list):
                continue
            callee = t[0]
            if callee.name == "__init__" and callee.cls is not None:
                continue
            shared = [o for o in OPTIONS if o in callee.params]
            if not shared:
                continue
            binding = bind_call(callee, c)
            # find Options objects by origin, lazily, from the arguments themselves
            n_edges += 1
            for o in shared:
                expr = binding.get(o)
                key = f"{fi.qual} -> {callee.qual} :: {o}"
                if expr is None:
                    if "**" in binding:
                        raise AnalysisError(f"R-OPTFLOW: {key}: **kwargs call, binding cannot be resolved")
                    avail = scope_origin(ctx, fi, o, set()) is not None or _has_options_attr(ctx, fi, flow, n, o)
                    if avail:
                        d = param_default(callee, o)
                        n_bind += 1
                        ctx.ob("R-OPTFLOW", key, False,
                               f"option `{o}` is in scope at the call site but not passed: the callee falls back to its "
                               f"default {norm(d) if d is not None else '(none)'}", where(fi, c))
                    continue
                expr2 = _through_enum(ctx, fi, expr)
                org = origins(prog, fi, expr2, n)
                want_param = ("param", o) in org or ("free", o) in org
                attr_ok = all(x[0] == "attr" and x[2] == o and _is_options_origin(ctx, x[1]) for x in org) and bool(org)
                in_scope = scope_origin(ctx, fi, o, set())
                if in_scope is not None:
                    ok = org == in_scope
                elif any(x[0] == "attr" and _is_options_origin(ctx, x[1]) for x in org):
                    ok = attr_ok
                else:
                    # the caller has no value of that option: constants are legitimate (e.g. is_markdown, make_parents=True)
                    continue
                n_bind += 1
                per_callee_sites.setdefault((fi.qual, callee.qual), []).append((frozenset(binding) & frozenset(OPTIONS), c))
                ctx.ob("R-OPTFLOW", key, ok,
                       f"callee parameter `{o}` must receive the caller's `{o}` unchanged; it receives "
                       + ", ".join(sorted(fmt_origin(x) for x in org)) + f" (want_param={want_param})",
                       where(fi, expr))
    ctx.note("option_call_edges", n_edges)
    ctx.require("R-OPTFLOW", "option bindings on call edges", n_bind, 20)


def _is_options_origin(ctx: Ctx, o) -> bool:
    """origin of the Options record: element 0 of the parser function's result, or a param annotated Options."""
    if not isinstance(o, tuple):
        return False
    if o[0] == "unpack" and o[2] == 0 and o[1][0] == "call" and o[1][1] == find_parse_args(ctx).qual:
        return True
    if o[0] == "param" and o[1] in ("options", "opts"):
        return True
    # the record built in place (the parser function spliced into its caller): Options(...) itself
    if o[0] == "call" and isinstance(o[1], str) and o[1].endswith(":Options") and o[1].startswith("class:"):
        return True
    return False


def _has_options_attr(ctx: Ctx, fi: FuncInfo, flow, node, opt: str) -> bool:
    for v in list(flow.defs_of_var):
        if "." in v:
            continue
        for d in flow.defs_of_var[v]:
            dd = flow.defs[d]
            if dd.kind == "unpack" and dd.index == 0 and isinstance(dd.value, ast.Call):
                if call_name(ctx.prog, fi, dd.value) == find_parse_args(ctx).qual:
                    return True
    for a in fi.node.args.args:
        if a.annotation is not None:
            r = ctx.repo.resolve_expr(a.annotation, fi.module, fi)
            if isinstance(r, ClassInfo) and r.name == "Options":
                return True
    return False


def check_sibling_sites(ctx: Ctx) -> None:
    """All call sites of reformat_file inside reformat_files pass the same option keywords."""
    repo, prog = ctx.repo, ctx.prog
    fi = repo.func("flowmark.reformat_api:reformat_files")
    callee = repo.func("flowmark.reformat_api:reformat_file")
    flow = prog.flow(fi)
    sites = [(n, c) for n, c in flow.all_calls() if prog.resolve_call(fi, c) == [callee]]
    ctx.require("R-OPTFLOW", "call sites of reformat_file in reformat_files", len(sites), 1)
    sets = []
    for n, c in sites:
        b = bind_call(callee, c)
        sets.append((frozenset(k for k in b if k in OPTIONS), c))
    union = frozenset().union(*[s for s, _ in sets])
    for s, c in sets:
        ctx.ob("R-OPTFLOW", f"{fi.qual} -> {callee.qual} :: sibling site {'stdin' if _is_stdin_site(c) else 'loop'}",
               s == union, f"this call site passes {sorted(s)}, the sibling sites pass {sorted(union)}", where(fi, c))
    ctx.note("reformat_file_call_sites", len(sites))


def _is_stdin_site(c: ast.Call) -> bool:
    for kw in c.keywords:
        if kw.arg == "path" and isinstance(kw.value, ast.Subscript):
            return True
    return False


class _Selected:
    """A call whose callee is picked by `A if test else B`: the test plays the part of the guard."""

    def __init__(self, call: ast.Call, test: ast.AST, tnode, label: str) -> None:
        self.call, self.test, self.tnode, self.label = call, test, tnode, label
        self.args, self.keywords, self.func = call.args, call.keywords, call.func
        for a in ("lineno", "col_offset", "end_lineno", "end_col_offset"):
            setattr(self, a, getattr(call, a, None))


def _selected_callee(prog, fi: FuncInfo, c: ast.Call, n):
    e = c.func
    at = n
    if isinstance(e, ast.Name):
        defs = prog.flow(fi).reaching(n, e.id)
        if len(defs) == 1 and defs[0].kind == "assign" and isinstance(defs[0].value, ast.IfExp):
            e, at = defs[0].value, defs[0].node
    if not isinstance(e, ast.IfExp):
        return None
    out = []
    for br in (e.body, e.orelse):
        r = prog.repo.resolve_expr(br, fi.module, fi) if isinstance(br, (ast.Name, ast.Attribute)) else None
        out.append(r.qual if isinstance(r, FuncInfo) else None)
    if out[0] is None or out[1] is None:
        return None
    return e.test, at, out[0], out[1]


def _consumer_sites(ctx: Ctx, fi: FuncInfo, opt: str, callee_q: str, depth: int = 0):
    """Call sites of the consumer in fi, or in a helper that receives fi's `opt` unchanged under the same name."""
    prog = ctx.prog
    flow = prog.flow(fi)
    sites = [(fi, n, c, opt) for n, c in flow.all_calls() if call_name(prog, fi, c) == callee_q]
    # the consumer chosen by a conditional expression: f = A if opt else B; f(...)   /   (A if opt else B)(...)
    for n, c in flow.all_calls():
        sel = _selected_callee(prog, fi, c, n)
        if sel is not None:
            test, tnode, body_q, else_q = sel
            if callee_q in (body_q, else_q):
                sites.append((fi, n, _Selected(c, test, tnode, "T" if callee_q == body_q else "F"), opt))
    if sites or depth >= 2:
        return sites
    for n, c in flow.all_calls():
        t = prog.resolve_call(fi, c)
        if isinstance(t, list) and not isinstance(t[0].node, ast.Lambda) and t[0].cls is None:
            # the helper may call the parameter something else (by_sentence for semantic): what counts is that it
            # receives the option itself
            for p_, e in bind_call(t[0], c).items():
                if p_ in t[0].params and origins(prog, fi, e, n) == frozenset({("param", opt)}):
                    sites += _consumer_sites(ctx, t[0], p_, callee_q, depth + 1)
    return sites


def check_consumers(ctx: Ctx, options: tuple[str, ...] | None = None) -> None:
    """Each switch guards exactly its consumer (in the entry function or in a helper the option is handed to)."""
    repo, prog = ctx.repo, ctx.prog
    table = [
        # (function, option, label, consumer, rewriter that must be passed)
        ("flowmark.reformat_api:reformat_text", "plaintext", "T", "flowmark.linewrapping.text_filling:fill_text", None),
        ("flowmark.reformat_api:reformat_text", "plaintext", "F", "flowmark.linewrapping.markdown_filling:fill_markdown", None),
        ("flowmark.linewrapping.markdown_filling:fill_markdown", "semantic", "T", "flowmark.linewrapping.line_wrappers:line_wrap_by_sentence", None),
        ("flowmark.linewrapping.markdown_filling:fill_markdown", "semantic", "F", "flowmark.linewrapping.line_wrappers:line_wrap_to_width", None),
        ("flowmark.linewrapping.markdown_filling:fill_markdown", "cleanups", "T", "flowmark.transforms.doc_cleanups:doc_cleanups", None),
        ("flowmark.linewrapping.markdown_filling:fill_markdown", "smartquotes", "T", "flowmark.transforms.doc_transforms:rewrite_text_across_inlines",
         "flowmark.typography.smartquotes:smart_quotes"),
        ("flowmark.linewrapping.markdown_filling:fill_markdown", "ellipses", "T", "flowmark.transforms.doc_transforms:rewrite_text_content",
         "flowmark.typography.ellipses:ellipses"),
    ]
    for fq, opt, label, callee_q, fn_arg in table:
        if options is not None and opt not in options:
            continue
        entry = repo.func(fq)
        sites = _consumer_sites(ctx, entry, opt, callee_q)
        key = f"{fq} :: {opt}[{label}] guards {callee_q.split(':')[1]}"
        if not sites:
            ctx.ob("R-CONSUMER", key, False, f"no call to {callee_q} reachable from {fq} with `{opt}` in scope: the option has lost its consumer",
                   where(entry, entry.node))
            continue
        opt0 = opt
        for fi, n, c, opt in sites:  # (opt: the option under the name it has in the function that holds the site)
            guards = direct_guards(prog, fi, n)
            if isinstance(c, _Selected):
                torg = origins(prog, fi, c.test, c.tnode)
                ok = (torg == frozenset({("param", opt)}) and c.label == label) or (torg == frozenset({("not", ("param", opt))}) and c.label != label)
                ctx.ob("R-CONSUMER", key, ok,
                       f"the consumer is selected by `{norm(c.test)}`, which must be `{opt}` itself with this consumer on its {label}-arm", where(fi, c.call))
                if fn_arg is None:
                    continue
                c = c.call
            mine = [g for g in guards if g[2] == frozenset({("param", opt)}) or g[2] == frozenset({("not", ("param", opt))})]
            ok = False
            if isinstance(c, _Selected):
                pass
            elif len(mine) == 1:
                g = mine[0]
                flipped = g[2] == frozenset({("not", ("param", opt))})
                eff = {"T": "F", "F": "T"}[g[1]] if flipped else g[1]
                ok = eff == label
            ctx.ob("R-CONSUMER", key, ok,
                   f"the call must be directly controlled by `{opt}` on its {label}-branch; direct guards: "
                   + ("; ".join(f"{norm(g[0].ast)}[{g[1]}]" for g in guards) or "none"),
                   where(fi, c))
            if fn_arg is not None:
                vals = [a for a in c.args] + [k.value for k in c.keywords]
                resolved = {ctx.repo.dotted_name(a, fi.module, fi) for a in vals if isinstance(a, (ast.Name, ast.Attribute))}
                ctx.ob("R-CONSUMER", key + " (rewriter)", fn_arg in resolved,
                       f"the rewrite function passed must be {fn_arg}; passed: {sorted(x for x in resolved if x)}", where(fi, c))
    if options is not None and "semantic" not in options:
        return
    # is_markdown=True at both wrapper factory calls of the Markdown path
    fm_entry = repo.func("flowmark.linewrapping.markdown_filling:fill_markdown")
    for name in ("flowmark.linewrapping.line_wrappers:line_wrap_by_sentence", "flowmark.linewrapping.line_wrappers:line_wrap_to_width"):
        callee = repo.func(name)
        for fi, n, c, _o in _consumer_sites(ctx, fm_entry, "semantic", name):
            b = bind_call(callee, c.call if isinstance(c, _Selected) else c)
            im = b.get("is_markdown")
            ctx.ob("R-CONSUMER", f"{fi.qual} -> {name} :: is_markdown", isinstance(im, ast.Constant) and im.value is True,
                   "Markdown formatting must build its line wrapper with is_markdown=True (line-start escaping, hard breaks, tag newlines)",
                   where(fi, c.call if isinstance(c, _Selected) else c))
    # list_spacing reaches the renderer constructor
    fm = repo.func("flowmark.formats.flowmark_markdown:flowmark_markdown")
    found = False
    for sub in fm.local_defs.values():
        if isinstance(sub, ClassInfo):
            init = sub.methods.get("__init__")
            if init is None:
                continue
            iflow = prog.flow(init)
            for n, c in iflow.all_calls():
                if isinstance(c.func, ast.Attribute) and c.func.attr == "__init__":
                    t = prog.resolve_call(init, c)
                    if isinstance(t, list) and t[0].qual.endswith("MarkdownNormalizer.__init__"):
                        b = bind_call(t[0], c)
                        for o in ("line_wrapper", "list_spacing"):
                            org = origins(prog, init, b.get(o), n) if b.get(o) is not None else frozenset()
                            found = True
                            ctx.ob("R-OPTFLOW", f"{init.qual} -> {t[0].qual} :: {o}", org == frozenset({("free", o)}),
                                   f"renderer parameter `{o}` must be the factory's `{o}`; it is "
                                   + (", ".join(fmt_origin(x) for x in org) or "not passed"), where(init, c))
    ctx.require("R-OPTFLOW", "renderer construction binding list_spacing/line_wrapper", 1 if found else 0, 1)
    # MarkdownNormalizer.__init__ stores both
    init = repo.func("flowmark.formats.flowmark_markdown:MarkdownNormalizer.__init__")
    iflow = prog.flow(init)
    stored = {}
    for n in iflow.cfg.nodes:
        if n.kind == "stmt" and isinstance(n.ast, (ast.Assign, ast.AnnAssign)):
            tg = n.ast.targets[0] if isinstance(n.ast, ast.Assign) else n.ast.target
            if isinstance(tg, ast.Attribute) and n.ast.value is not None:
                org = origins(prog, init, n.ast.value, n)
                for o in ("line_wrapper", "list_spacing"):
                    if org == frozenset({("param", o)}):
                        stored[o] = tg.attr
    for o in ("line_wrapper", "list_spacing"):
        ctx.ob("R-OPTFLOW", f"{init.qual} :: stores {o}", o in stored,
               f"the renderer must keep `{o}` in an instance attribute (found: {stored.get(o)})", where(init, init.node))
    ctx.note("renderer_option_attrs", stored)


def check_sinks(ctx: Ctx) -> None:
    """R-SINK: what is written is exactly what reformat_text returned; what it got is exactly what was read."""
    repo, prog = ctx.repo, ctx.prog
    fi = repo.func("flowmark.reformat_api:reformat_file")
    flow = prog.flow(fi)
    rt = "flowmark.reformat_api:reformat_text"
    sinks = []
    for n, c in flow.all_calls():
        if isinstance(c.func, ast.Attribute) and c.func.attr in ("write", "write_text", "write_bytes", "writelines") and c.args:
            sinks.append((n, c))
    ctx.require("R-SINK", "write sinks in reformat_file", len(sinks), 1)
    for n, c in sinks:
        org = origins(prog, fi, c.args[0], n)
        ctx.ob("R-SINK", f"{fi.qual} :: {norm(c.func)}", org == frozenset({("call", rt)}),
               "the written value must be exactly the value returned by reformat_text; it is "
               + ", ".join(sorted(fmt_origin(o) for o in org)), where(fi, c))
    rcalls = [(n, c) for n, c in flow.all_calls() if call_name(prog, fi, c) == rt]
    ctx.require("R-SINK", "call to reformat_text in reformat_file", len(rcalls), 1)
    for n, c in rcalls:
        b = bind_call(repo.func(rt), c)
        org = origins(prog, fi, b.get("text"), n)
        ok = bool(org) and all(o[0] == "call" and (o[1].endswith(".read") or o[1].endswith("read_text")) for o in org)
        ctx.ob("R-SINK", f"{fi.qual} :: text argument of reformat_text", ok,
               "the text handed to the formatter must be exactly what was read from the file / stdin; it is "
               + ", ".join(sorted(fmt_origin(o) for o in org)), where(fi, c))
    ctx.note("sinks", [norm(c) for _, c in sinks])


def check_main_call(ctx: Ctx) -> None:
    """cli.main hands the Options fields to reformat_files by identity (files via the resolver, make_parents constant)."""
    repo, prog = ctx.repo, ctx.prog
    fi = repo.func("flowmark.cli:main")
    flow = prog.flow(fi)
    callee = repo.func("flowmark.reformat_api:reformat_files")
    sites = [(n, c) for n, c in flow.all_calls() if prog.resolve_call(fi, c) == [callee]]
    ctx.require("R-OPTFLOW", "call to reformat_files in main", len(sites), 1)
    for n, c in sites:
        b = bind_call(callee, c)
        for p in callee.params:
            if p in ("files", "make_parents"):
                continue
            expr = b.get(p)
            key = f"{fi.qual} -> {callee.qual} :: {p}"
            if expr is None:
                ctx.ob("R-OPTFLOW", key, False, f"`{p}` is not passed from the CLI options: callee default "
                       f"{norm(param_default(callee, p)) if param_default(callee, p) is not None else ''} is used", where(fi, c))
                continue
            org = origins(prog, fi, expr, n)
            ok = bool(org) and all(o[0] == "attr" and o[2] == p and _is_options_origin(ctx, o[1]) for o in org)
            ctx.ob("R-OPTFLOW", key, ok, f"`{p}` must be options.{p}; it is " + ", ".join(sorted(fmt_origin(o) for o in org)),
                   where(fi, expr))
        # files: derived from the options' files through the resolver, nothing else
        fexpr = b.get("files")
        if fexpr is not None:
            sl = prog.slice(fi, fexpr, n)
            ok = any(a.endswith(".files") for a in sl.attrs() | {s[1] for s in sl.sources if s[0] == "attr-of"})
            ctx.ob("R-OPTFLOW", f"{fi.qual} -> {callee.qual} :: files", ok,
                   "the file list must derive from the parsed `files` arguments", where(fi, fexpr))


def check_loop_state(ctx: Ctx) -> None:
    """The per-file loop of reformat_files carries no value from one iteration to the next."""
    repo, prog = ctx.repo, ctx.prog
    fi = repo.func("flowmark.reformat_api:reformat_files")
    flow = prog.flow(fi)
    callee = repo.func("flowmark.reformat_api:reformat_file")
    heads = [n for n in flow.cfg.nodes if n.kind in ("for",) or (n.kind == "test" and isinstance(n.owner, ast.While))]
    loops = []
    for h in heads:
        body = flow.loop_body_nodes(h)
        if any(prog.resolve_call(fi, c) == [callee] for m in body for c in flow.calls_in(m)):
            loops.append(h)
    ctx.require("R-LOOPSTATE", "per-file loop calling reformat_file", len(loops), 1)
    for h in loops:
        carried = flow.loop_carried(h)
        ctx.ob("R-LOOPSTATE", f"{fi.qual} :: per-file loop", not carried,
               f"variables carried from one file's iteration into the next: {sorted(carried) or 'none'}", where(fi, h))
        # the loop iterates over the `files` parameter itself, in order
        org = origins(prog, fi, h.ast.iter, h) if h.kind == "for" else frozenset()
        ctx.ob("R-LOOPSTATE", f"{fi.qual} :: per-file loop iterable", org == frozenset({("param", "files")}),
               "the loop must iterate over the `files` parameter as given; it iterates over "
               + ", ".join(fmt_origin(o) for o in org), where(fi, h))
