"""Reaching definitions and a backward slicer (data + optional control dependence).

Variables are local names and *attribute keys* rooted at a name ("self._prefix",
"opts.width"). A binding of the root acts as an implicit definition of every key
below it; a store to a key is a strong definition of that key (and of longer keys).
Container mutations (x.append(v), x[i] = v, x[i] += v) are weak definitions of x.

The slicer answers: on which *sources* (parameters, attributes of parameters,
globals, constants, external calls) does the value of an expression at a CFG node
depend.  Calls to repository functions are followed through return-value summaries.
"""

from __future__ import annotations

import ast
from dataclasses import dataclass, field

from .cfg import CFG, Node, walk_no_nested
from .loader import AnalysisError, ClassInfo, ConstInfo, FuncInfo, Repo

MUTATORS = {
    "append", "extend", "insert", "pop", "remove", "clear", "sort", "reverse", "add", "discard",
    "update", "setdefault", "popitem", "appendleft", "extendleft", "popleft", "write",
}

PURE_BUILTINS = {
    "len", "str", "int", "bool", "float", "max", "min", "sum", "any", "all", "sorted", "reversed", "list", "tuple",
    "set", "frozenset", "dict", "enumerate", "zip", "range", "isinstance", "hasattr", "getattr", "repr", "abs",
    "next", "iter", "map", "filter", "cast", "type", "ord", "chr", "id", "callable", "issubclass", "print",
}


def chain_key(expr: ast.AST) -> str | None:
    """'a.b.c' for a pure Name/Attribute chain, else None."""
    parts: list[str] = []
    cur = expr
    while isinstance(cur, ast.Attribute):
        parts.append(cur.attr)
        cur = cur.value
    if isinstance(cur, ast.Name):
        parts.append(cur.id)
        return ".".join(reversed(parts))
    return None


def chain_root(expr: ast.AST) -> ast.AST:
    cur = expr
    while isinstance(cur, (ast.Attribute, ast.Subscript)):
        cur = cur.value
    if isinstance(cur, ast.Call):
        return chain_root(cur.func) if isinstance(cur.func, (ast.Attribute, ast.Subscript)) else cur
    return cur


def root_key(expr: ast.AST) -> str | None:
    """Key of the longest pure chain at the base of expr (through subscripts / calls-on-attributes)."""
    cur = expr
    while True:
        k = chain_key(cur)
        if k is not None:
            return k
        if isinstance(cur, ast.Subscript):
            cur = cur.value
        elif isinstance(cur, ast.Attribute):
            cur = cur.value
        elif isinstance(cur, ast.Call) and isinstance(cur.func, ast.Attribute):
            cur = cur.func.value
        else:
            return None


@dataclass(eq=False)
class Def:
    id: int
    node: Node
    var: str
    kind: str  # param | assign | unpack | aug | for | with | except | import | def | mutate | walrus | effect
    value: ast.AST | None = None
    weak: bool = False
    index: int | None = None  # position for tuple unpacking
    extra: object = None

    def __repr__(self) -> str:
        return f"<def {self.var} {self.kind}@{self.node.id}>"


def _target_defs(target: ast.AST, value: ast.AST | None, kind: str) -> list[tuple[str, str, ast.AST | None, bool, int | None]]:
    """(var, kind, value, weak, index) for an assignment target."""
    out: list[tuple[str, str, ast.AST | None, bool, int | None]] = []
    if isinstance(target, ast.Name):
        out.append((target.id, kind, value, False, None))
    elif isinstance(target, (ast.Tuple, ast.List)):
        for i, el in enumerate(target.elts):
            if isinstance(el, ast.Starred):
                el = el.value
            for v, _k, val, weak, _ in _target_defs(el, value, "unpack" if kind in ("assign", "unpack") else kind):
                out.append((v, _k, val, weak, i))
    elif isinstance(target, ast.Starred):
        out += _target_defs(target.value, value, kind)
    elif isinstance(target, ast.Attribute):
        k = chain_key(target)
        if k is not None:
            out.append((k, kind, value, False, None))
        else:
            rk = root_key(target)
            if rk is not None:
                out.append((rk, "mutate", value, True, None))
    elif isinstance(target, ast.Subscript):
        rk = root_key(target.value)
        if rk is not None:
            out.append((rk, "mutate", value, True, None))
    return out


class FuncFlow:
    """CFG + reaching definitions of one function."""

    def __init__(self, repo: Repo, fi: FuncInfo, effects: "EffectOracle | None" = None) -> None:
        self.repo = repo
        self.fi = fi
        self.cfg = CFG(fi.node)
        self.defs: list[Def] = []
        self.defs_at: dict[Node, list[Def]] = {n: [] for n in self.cfg.nodes}
        self.keys: set[str] = set()
        self.effects = effects
        self._collect_keys()
        self._collect_defs()
        self._solve()
        self._cdeps: dict[Node, set[tuple[Node, str]]] | None = None

    # ----------------------------------------------------------- construction
    def node_exprs(self, n: Node) -> list[ast.AST]:
        """The expressions evaluated when control is at node n."""
        a = n.ast
        if a is None:
            return []
        if n.kind == "test":
            return [a]
        if n.kind == "for":
            return [a.iter]  # type: ignore[attr-defined]
        if n.kind == "with":
            return [i.context_expr for i in a.items]  # type: ignore[attr-defined]
        if n.kind == "withexit":
            return []
        if n.kind == "except":
            return [a.type] if getattr(a, "type", None) is not None else []
        if isinstance(a, (ast.FunctionDef, ast.AsyncFunctionDef, ast.ClassDef)):
            return []
        return [a]

    def _collect_keys(self) -> None:
        for n in walk_no_nested(self.fi.node):
            if isinstance(n, ast.Attribute):
                k = chain_key(n)
                if k is not None:
                    self.keys.add(k)

    def _new_def(self, node: Node, var: str, kind: str, value=None, weak=False, index=None, extra=None) -> Def:
        d = Def(len(self.defs), node, var, kind, value, weak, index, extra)
        self.defs.append(d)
        self.defs_at[node].append(d)
        return d

    def _collect_defs(self) -> None:
        for p in self.fi.params:
            self._new_def(self.cfg.entry, p, "param")
        for n in self.cfg.nodes:
            a = n.ast
            if a is None:
                continue
            if n.kind == "for":
                for v, k, val, weak, idx in _target_defs(a.target, a.iter, "for"):  # type: ignore[attr-defined]
                    self._new_def(n, v, "for" if k in ("for", "unpack") else k, val, weak, idx)
            elif n.kind == "with":
                for item in a.items:  # type: ignore[attr-defined]
                    if item.optional_vars is not None:
                        for v, k, val, weak, idx in _target_defs(item.optional_vars, item.context_expr, "with"):
                            self._new_def(n, v, "with" if k in ("with", "unpack") else k, val, weak, idx)
            elif n.kind == "except":
                if getattr(a, "name", None):
                    self._new_def(n, a.name, "except", getattr(a, "type", None))  # type: ignore[attr-defined]
            elif n.kind == "stmt":
                if isinstance(a, ast.Assign):
                    for t in a.targets:
                        for v, k, val, weak, idx in _target_defs(t, a.value, "assign"):
                            self._new_def(n, v, k, val, weak, idx)
                elif isinstance(a, ast.AnnAssign) and a.value is not None:
                    for v, k, val, weak, idx in _target_defs(a.target, a.value, "assign"):
                        self._new_def(n, v, k, val, weak, idx)
                elif isinstance(a, ast.AugAssign):
                    for v, k, val, weak, idx in _target_defs(a.target, a.value, "aug"):
                        self._new_def(n, v, "aug" if k == "aug" else k, val, weak, idx, extra=a.target)
                elif isinstance(a, (ast.Import, ast.ImportFrom)):
                    for al in a.names:
                        self._new_def(n, (al.asname or al.name).split(".")[0], "import")
                elif isinstance(a, (ast.FunctionDef, ast.AsyncFunctionDef, ast.ClassDef)):
                    self._new_def(n, a.name, "def", a)
                elif isinstance(a, ast.Delete):
                    pass
            # expression-level definitions: walrus, mutator calls, call effects
            for ex in self.node_exprs(n):
                for sub in walk_no_nested(ex):
                    if isinstance(sub, ast.NamedExpr) and isinstance(sub.target, ast.Name):
                        self._new_def(n, sub.target.id, "walrus", sub.value)
                    elif isinstance(sub, ast.Call):
                        f = sub.func
                        if isinstance(f, ast.Attribute) and f.attr in MUTATORS:
                            rk = root_key(f.value)
                            if rk is not None:
                                self._new_def(n, rk, "mutate", sub, weak=True)
                        if self.effects is not None:
                            for key in self.effects.call_may_assign(self, n, sub):
                                self.keys.add(key)
                                self._new_def(n, key, "effect", sub, weak=True)

    def _implied_keys(self, var: str) -> list[str]:
        """Keys whose current value is (re)defined by a definition of var."""
        pre = var + "."
        return [k for k in self.keys if k.startswith(pre)]

    def _solve(self) -> None:
        # gen / kill
        all_vars: dict[str, set[int]] = {}
        for d in self.defs:
            all_vars.setdefault(d.var, set()).add(d.id)
        self.defs_of_var = all_vars
        gen: dict[Node, dict[str, set[int]]] = {}
        kill: dict[Node, set[str]] = {}
        for n in self.cfg.nodes:
            g: dict[str, set[int]] = {}
            k: set[str] = set()
            for d in self.defs_at[n]:
                if not d.weak:
                    k.add(d.var)
                    for ik in self._implied_keys(d.var):
                        k.add(ik)
                g.setdefault(d.var, set()).add(d.id)
                if not d.weak or d.kind == "effect":
                    pass
                # a definition of a root/prefix is an implicit definition of longer keys
                if not d.weak:
                    for ik in self._implied_keys(d.var):
                        g.setdefault(ik, set()).add(d.id)
                else:
                    for ik in self._implied_keys(d.var):
                        g.setdefault(ik, set()).add(d.id)
            gen[n] = g
            kill[n] = k
        IN: dict[Node, dict[str, frozenset[int]]] = {n: {} for n in self.cfg.nodes}
        OUT: dict[Node, dict[str, frozenset[int]]] = {n: {} for n in self.cfg.nodes}
        work = list(self.cfg.nodes)
        while work:
            n = work.pop(0)
            newin: dict[str, set[int]] = {}
            for p, _ in n.pred:
                for v, s in OUT[p].items():
                    newin.setdefault(v, set()).update(s)
            fin = {v: frozenset(s) for v, s in newin.items()}
            IN[n] = fin
            out: dict[str, set[int]] = {}
            for v, s in fin.items():
                if v not in kill[n]:
                    out[v] = set(s)
            for v, s in gen[n].items():
                if v in kill[n]:
                    # strong defs at this node replace; weak ones at the same node add
                    strong = {i for i in s if not self.defs[i].weak}
                    weak = {i for i in s if self.defs[i].weak}
                    out[v] = set(strong) | weak if strong else out.get(v, set()) | weak
                else:
                    out.setdefault(v, set()).update(s)
            fout = {v: frozenset(s) for v, s in out.items()}
            if fout != OUT[n]:
                OUT[n] = fout
                for s, _ in n.succ:
                    if s not in work:
                        work.append(s)
        self.IN = IN
        self.OUT = OUT

    # ----------------------------------------------------------------- queries
    def reaching(self, node: Node, var: str, after: bool = False) -> list[Def]:
        table = self.OUT if after else self.IN
        return [self.defs[i] for i in sorted(table[node].get(var, ()))]

    def control_deps(self, node: Node) -> set[tuple[Node, str]]:
        if self._cdeps is None:
            self._cdeps = self.cfg.control_deps()
        return self._cdeps[node]

    def node_of(self, sub: ast.AST) -> Node | None:
        """CFG node whose evaluated expressions contain the AST node `sub`."""
        from .loader import parent

        cur: ast.AST | None = sub
        while cur is not None:
            if cur in self.cfg.node_of_stmt:
                n = self.cfg.node_of_stmt[cur]
                # for If/While/For/With the mapped node is the header
                return n
            cur = parent(cur)
        return None

    def find_nodes(self, pred) -> list[Node]:
        return [n for n in self.cfg.nodes if n.ast is not None and pred(n)]

    def calls_in(self, node: Node) -> list[ast.Call]:
        out: list[ast.Call] = []
        for ex in self.node_exprs(node):
            for sub in walk_no_nested(ex):
                if isinstance(sub, ast.Call):
                    out.append(sub)
        return out

    def all_calls(self) -> list[tuple[Node, ast.Call]]:
        return [(n, c) for n in self.cfg.nodes for c in self.calls_in(n)]


    # ---------------------------------------------------------------- liveness
    def _uses_defs(self, n: Node) -> tuple[set[str], set[str]]:
        uses: set[str] = set()
        for ex in self.node_exprs(n):
            for sub in walk_no_nested(ex):
                if isinstance(sub, ast.Name) and isinstance(sub.ctx, ast.Load):
                    uses.add(sub.id)
                elif isinstance(sub, ast.Attribute) and isinstance(sub.ctx, ast.Load):
                    k = chain_key(sub)
                    if k is not None:
                        uses.add(k)
        if n.kind == "stmt" and isinstance(n.ast, ast.AugAssign):
            k = chain_key(n.ast.target)
            if k is not None:
                uses.add(k)
        strong = {d.var for d in self.defs_at[n] if not d.weak and d.kind != "aug"}
        return uses, strong

    def live_in(self) -> dict[Node, set[str]]:
        """Classic backward liveness over names and attribute keys (strong definitions kill)."""
        if getattr(self, "_live", None) is not None:
            return self._live  # type: ignore[return-value]
        ud = {n: self._uses_defs(n) for n in self.cfg.nodes}
        live: dict[Node, set[str]] = {n: set() for n in self.cfg.nodes}
        changed = True
        while changed:
            changed = False
            for n in reversed(self.cfg.nodes):
                out: set[str] = set()
                for s, _ in n.succ:
                    out |= live[s]
                uses, strong = ud[n]
                new = uses | {v for v in out if v not in strong and not any(v.startswith(k + ".") for k in strong)}
                if new != live[n]:
                    live[n] = new
                    changed = True
        self._live = live
        return live

    def loop_body_nodes(self, head: Node) -> set[Node]:
        """Nodes of the loop of a for / while header: reachable from the body entry without
        passing the head, and able to reach the head again."""
        cache = self.__dict__.setdefault("_loop_bodies", {})
        if head in cache:
            return cache[head]
        # natural loop of the header: the nodes from which a back edge (an edge into the head from a node the head
        # dominates) can be reached without passing the head. A `while True:` whose every path breaks has no back edge and
        # therefore no loop body - the nodes of an *enclosing* loop are not mistaken for it.
        dom = self.__dict__.get("_dom_cache")
        if dom is None:
            dom = self.cfg.dominators()
            self.__dict__["_dom_cache"] = dom
        body: set[Node] = set()
        work = [p for p, _lab in head.pred if head in dom.get(p, set()) and p is not head]
        if any(p is head for p, _lab in head.pred):
            body.add(head)
        while work:
            n = work.pop()
            if n in body or n is head:
                continue
            body.add(n)
            work.extend(p for p, _lab in n.pred)
        cache[head] = body
        return body

    def loop_carried(self, head: Node) -> set[str]:
        """Variables whose value can flow from one iteration into the next."""
        body = self.loop_body_nodes(head)
        live = self.live_in()
        entry_live: set[str] = set()
        for s, lab in head.succ:
            if lab in ("iter", "T"):
                entry_live |= live[s]
        if head.kind == "test":
            entry_live |= self._uses_defs(head)[0]
        defined_in_body: set[str] = set()
        for n in body:
            for d in self.defs_at[n]:
                defined_in_body.add(d.var)
        header_defs = {d.var for d in self.defs_at[head]}
        return {v for v in entry_live if v in defined_in_body and v not in header_defs}


class EffectOracle:
    """Which `self.*` keys may a call assign (filled in by the program layer)."""

    def call_may_assign(self, flow: FuncFlow, node: Node, call: ast.Call) -> list[str]:  # pragma: no cover
        return []


# --------------------------------------------------------------------- slicing
Source = tuple


@dataclass
class Slice:
    sources: set[Source] = field(default_factory=set)
    defs: set[Def] = field(default_factory=set)
    nodes: set[Node] = field(default_factory=set)
    calls: list[tuple[str, ast.Call]] = field(default_factory=list)  # (resolved callee or text, call)
    ops: list[tuple[str, ast.AST]] = field(default_factory=list)  # (operation text, node) on the value path

    def params(self) -> set[str]:
        return {s[1] for s in self.sources if s[0] == "param"}

    def attrs(self) -> set[str]:
        return {s[1] for s in self.sources if s[0] == "attr"}

    def callees(self) -> set[str]:
        return {c for c, _ in self.calls}

    def depends_on_attr(self, key: str) -> bool:
        pre = key + "."
        return any(a == key or a.startswith(pre) for a in self.attrs())

    def merge(self, other: "Slice") -> None:
        self.sources |= other.sources
        self.defs |= other.defs
        self.nodes |= other.nodes
        self.calls += other.calls
        self.ops += other.ops


class Program:
    """Whole-program layer: flows per function, call resolution, summaries, slicing."""

    MAX_DEPTH = 4

    def __init__(self, repo: Repo) -> None:
        self.repo = repo
        self._flows: dict[str, FuncFlow] = {}
        self._summaries: dict[tuple[str, bool], Slice | None] = {}
        self._may_assign: dict[str, set[str]] = {}
        self._direct: dict[str, tuple[set[str], list[FuncInfo]]] = {}
        self._in_progress: set[str] = set()
        self.effects = _SelfEffects(self)

    def flow(self, fi: FuncInfo) -> FuncFlow:
        if fi.qual not in self._flows:
            self._flows[fi.qual] = FuncFlow(self.repo, fi, self.effects)
        return self._flows[fi.qual]

    # ------------------------------------------------------ callee resolution
    def receiver_class(self, fi: FuncInfo, expr: ast.AST) -> ClassInfo | None:
        """Static class of `expr` when it is `self` / `cls` or a parameter annotated with a repo class."""
        if isinstance(expr, ast.Name):
            if expr.id in ("self", "cls") and fi.cls is not None and fi.params and fi.params[0] == expr.id:
                return fi.cls
            if isinstance(fi.node, ast.Lambda):
                return None
            for a in fi.node.args.posonlyargs + fi.node.args.args + fi.node.args.kwonlyargs:
                if a.arg == expr.id and a.annotation is not None:
                    r = self.repo.resolve_expr(_strip_optional(a.annotation), fi.module, fi)
                    if isinstance(r, ClassInfo):
                        return r
            # a local that is only ever bound to instances of one class of the package: x = C(...)
            classes: set = set()
            other = False
            for n in walk_no_nested(fi.node):
                tgts: list[ast.AST] = []
                val = None
                if isinstance(n, ast.Assign):
                    tgts, val = list(n.targets), n.value
                elif isinstance(n, ast.AnnAssign) and n.value is not None:
                    tgts, val = [n.target], n.value
                elif isinstance(n, (ast.For, ast.AugAssign, ast.With, ast.NamedExpr)):
                    if any(isinstance(x, ast.Name) and x.id == expr.id and isinstance(x.ctx, ast.Store) for x in ast.walk(n.target if hasattr(n, "target") else n)):
                        other = True
                for t in tgts:
                    if isinstance(t, ast.Name) and t.id == expr.id:
                        r = self.repo.resolve_expr(val.func, fi.module, fi) if isinstance(val, ast.Call) and isinstance(val.func, (ast.Name, ast.Attribute)) else None
                        if r is None and isinstance(val, ast.Call) and isinstance(val.func, ast.Name) and fi.cls is not None and fi.params \
                                and val.func.id == fi.params[0] and any(d.endswith("classmethod") for d in fi.decorators):
                            r = fi.cls  # obj = cls(...) inside a classmethod
                        if isinstance(r, ClassInfo):
                            classes.add(r.qual)
                        else:
                            other = True
                    elif isinstance(t, (ast.Tuple, ast.List)) and any(isinstance(x, ast.Name) and x.id == expr.id for x in t.elts) and isinstance(val, ast.Call):
                        # a, b = f(...) where f is annotated `-> tuple[A, B]`
                        i_ = next(i for i, x in enumerate(t.elts) if isinstance(x, ast.Name) and x.id == expr.id)
                        tgt_f = self.resolve_call(fi, val)
                        ann = tgt_f[0].node.returns if isinstance(tgt_f, list) and len(tgt_f) == 1 and not isinstance(tgt_f[0].node, ast.Lambda) else None
                        r = None
                        if isinstance(ann, ast.Subscript) and isinstance(ann.value, ast.Name) and ann.value.id in ("tuple", "Tuple") and isinstance(ann.slice, ast.Tuple) \
                                and i_ < len(ann.slice.elts):
                            el = ann.slice.elts[i_]
                            if isinstance(el, ast.Constant) and isinstance(el.value, str):
                                try:
                                    el = ast.parse(el.value, mode="eval").body
                                except SyntaxError:
                                    el = None
                            if isinstance(el, (ast.Name, ast.Attribute)):
                                r = self.repo.resolve_expr(el, tgt_f[0].module, tgt_f[0])
                        if isinstance(r, ClassInfo):
                            classes.add(r.qual)
                        else:
                            other = True
                    elif any(isinstance(x, ast.Name) and x.id == expr.id for x in ast.walk(t)):
                        other = True
            if len(classes) == 1 and not other and expr.id not in fi.params:
                return self.repo.classes[next(iter(classes))]
        if isinstance(expr, ast.Attribute) and isinstance(expr.value, ast.Name) and fi.cls is not None and fi.params and expr.value.id == fi.params[0]:
            # self.<attr> that every method of the class only ever binds to instances of one class of the package
            # (self._cache = IgnoreFileCache()), or that is annotated with such a class where it is bound
            key = (fi.cls.qual, expr.attr)
            memo = self.__dict__.setdefault("_attr_class", {})
            if key not in memo:
                classes = set()
                other = False
                for m in fi.cls.methods.values():
                    if isinstance(m.node, ast.Lambda) or not m.params:
                        continue
                    sn = m.params[0]
                    for n in ast.walk(m.node):
                        tgts, val, ann = [], None, None
                        if isinstance(n, ast.Assign):
                            tgts, val = list(n.targets), n.value
                        elif isinstance(n, ast.AnnAssign):
                            tgts, val, ann = [n.target], n.value, n.annotation
                        elif isinstance(n, ast.AugAssign):
                            tgts, val = [n.target], None
                        for t in tgts:
                            if isinstance(t, ast.Attribute) and isinstance(t.value, ast.Name) and t.value.id == sn and t.attr == expr.attr:
                                r = self.repo.resolve_expr(val.func, m.module, m) if isinstance(val, ast.Call) and isinstance(val.func, (ast.Name, ast.Attribute)) else None
                                if isinstance(r, ClassInfo):
                                    classes.add(r.qual)
                                else:
                                    other = True
                memo[key] = self.repo.classes[next(iter(classes))] if len(classes) == 1 and not other else None
            return memo[key]
        return None

    def resolve_call(self, fi: FuncInfo, call: ast.Call) -> list[FuncInfo] | str | None:
        """Repo callees (list), or an external dotted name / text (str), or None."""
        f = call.func
        if isinstance(f, ast.Name):
            r = self.repo.lookup(f.id, fi.module, fi)
            if isinstance(r, FuncInfo):
                return [r]
            if isinstance(r, ClassInfo):
                init = self.repo.find_method(r, "__init__")
                return [init] if init is not None else f"class:{r.qual}"
            if isinstance(r, ConstInfo):
                return f"const:{r.qual}"
            if r is not None:
                return r.dotted()
            return f.id
        if isinstance(f, ast.Attribute):
            if isinstance(f.value, ast.Call) and isinstance(f.value.func, ast.Name) and f.value.func.id == "super":
                cls = fi.cls
                if cls is not None:
                    for b in self.repo.class_bases(cls):
                        if isinstance(b, ClassInfo):
                            m = self.repo.find_method(b, f.attr)
                            if m is not None:
                                return [m]
                    return f"super.{f.attr}"
            rc = self.receiver_class(fi, f.value)
            if rc is not None:
                m = self.repo.find_method(rc, f.attr)
                if m is not None:
                    return [m]
                # an instance attribute that holds a memoised function of the package, bound once in __init__:
                #   self._get = lru_cache(maxsize=None)(_load)   /   self._get = cache(_load)   ->   a call of _load
                init_ = self.repo.find_method(rc, "__init__")
                if init_ is not None and not isinstance(init_.node, ast.Lambda) and init_.params:
                    binds = [st for st in walk_no_nested(init_.node) if isinstance(st, (ast.Assign, ast.AnnAssign)) and st.value is not None
                             for t in (st.targets if isinstance(st, ast.Assign) else [st.target])
                             if isinstance(t, ast.Attribute) and t.attr == f.attr and isinstance(t.value, ast.Name) and t.value.id == init_.params[0]]
                    if len(binds) == 1 and isinstance(binds[0].value, ast.Call) and len(binds[0].value.args) == 1 and not binds[0].value.keywords:
                        w_ = binds[0].value
                        inner = w_.func.func if isinstance(w_.func, ast.Call) else w_.func
                        nm_ = inner.id if isinstance(inner, ast.Name) else (inner.attr if isinstance(inner, ast.Attribute) else "")
                        if nm_ in ("cache", "lru_cache") and isinstance(w_.args[0], (ast.Name, ast.Attribute)):
                            tgt = self.repo.resolve_expr(w_.args[0], init_.module, init_)
                            if isinstance(tgt, FuncInfo):
                                return [tgt]
                exts = self.repo.external_bases(rc)
                return f"{'|'.join(exts) or rc.qual}.{f.attr}"
            r = self.repo.resolve_expr(f, fi.module, fi)
            if isinstance(r, FuncInfo):
                return [r]
            if isinstance(r, ClassInfo):
                init = self.repo.find_method(r, "__init__")
                return [init] if init is not None else f"class:{r.qual}"
            if isinstance(r, str):
                return r
            k = chain_key(f)
            return f"?.{f.attr}" if k is None else f"{k}"
        return None

    # ----------------------------------------------------------- may-assign
    def _direct_assign(self, fi: FuncInfo) -> tuple[set[str], list[FuncInfo]]:
        """(self.* keys assigned directly, repo methods called on self) of one method."""
        out: set[str] = set()
        callees: list[FuncInfo] = []
        if isinstance(fi.node, ast.Lambda):
            return out, callees
        selfname = fi.params[0] if fi.cls is not None and fi.params else None
        for n in walk_no_nested(fi.node):
            targets: list[ast.AST] = []
            if isinstance(n, ast.Assign):
                targets = list(n.targets)
            elif isinstance(n, (ast.AugAssign, ast.AnnAssign)):
                targets = [n.target]
            for t in targets:
                for el in ast.walk(t):
                    if isinstance(el, ast.Attribute) and isinstance(el.ctx, ast.Store):
                        k = chain_key(el)
                        if k is not None and selfname and k.startswith(selfname + "."):
                            out.add("self." + k.split(".", 1)[1])
            if isinstance(n, ast.Call) and selfname is not None:
                callees += self.dispatch_targets(fi, n)
        return out, callees

    def may_assign(self, fi: FuncInfo) -> set[str]:
        """self.* keys a method may assign, transitively through self-method calls (closure)."""
        if fi.qual in self._may_assign:
            return self._may_assign[fi.qual]
        seen: dict[str, FuncInfo] = {}
        stack = [fi]
        out: set[str] = set()
        while stack:
            f = stack.pop()
            if f.qual in seen:
                continue
            seen[f.qual] = f
            if f.qual not in self._direct:
                self._direct[f.qual] = self._direct_assign(f)
            d, cs = self._direct[f.qual]
            out |= d
            stack.extend(cs)
        self._may_assign[fi.qual] = out
        return out

    def dispatch_targets(self, fi: FuncInfo, call: ast.Call) -> list[FuncInfo]:
        """Repo methods a `self.<m>(...)` call may reach, incl. marko's render dispatch."""
        f = call.func
        if not isinstance(f, ast.Attribute):
            return []
        rc = self.receiver_class(fi, f.value)
        if rc is None:
            return []
        m = self.repo.find_method(rc, f.attr)
        if m is not None:
            return [m]
        if f.attr in ("render", "render_children"):
            # marko.Renderer.render dispatches on the element type to render_<type>
            out = []
            seen = set()
            stack = [rc]
            while stack:
                c = stack.pop()
                if c.qual in seen:
                    continue
                seen.add(c.qual)
                for name, meth in c.methods.items():
                    if name.startswith("render_"):
                        out.append(meth)
                for b in self.repo.class_bases(c):
                    if isinstance(b, ClassInfo):
                        stack.append(b)
            return out
        return []

    # -------------------------------------------------------------- summaries
    def summary(self, fi: FuncInfo, control: bool, depth: int) -> Slice | None:
        key = (fi.qual, control)
        if key in self._summaries:
            return self._summaries[key]
        if fi.qual in self._in_progress or depth > self.MAX_DEPTH:
            return None
        self._in_progress.add(fi.qual)
        try:
            flow = self.flow(fi)
            sl = Slice()
            for r in flow.cfg.returns():
                val = r.ast.value  # type: ignore[union-attr]
                if val is not None:
                    sl.merge(self.slice(fi, val, r, control=control, depth=depth + 1))
                elif control:
                    sl.merge(self.slice_control(fi, r, depth=depth + 1))
            # generators: yielded values
            for n in flow.cfg.nodes:
                for ex in flow.node_exprs(n):
                    for sub in walk_no_nested(ex):
                        if isinstance(sub, (ast.Yield, ast.YieldFrom)) and sub.value is not None:
                            sl.merge(self.slice(fi, sub.value, n, control=control, depth=depth + 1))
        finally:
            self._in_progress.discard(fi.qual)
        self._summaries[key] = sl
        return sl

    # ---------------------------------------------------------------- slicing
    def slice_control(self, fi: FuncInfo, node: Node, depth: int = 0) -> Slice:
        sl = Slice()
        st = _SliceState(self, fi, self.flow(fi), sl, True, depth)
        st.add_control(node)
        return sl

    def slice(self, fi: FuncInfo, expr: ast.AST, node: Node, control: bool = False, depth: int = 0) -> Slice:
        sl = Slice()
        st = _SliceState(self, fi, self.flow(fi), sl, control, depth)
        st.visit(expr, node, {})
        if control:
            st.add_control(node)
        return sl


def _strip_optional(ann: ast.AST) -> ast.AST:
    """X | None -> X ; Optional[X] -> X ; "X" strings are not resolved."""
    if isinstance(ann, ast.BinOp) and isinstance(ann.op, ast.BitOr):
        if isinstance(ann.right, ast.Constant) and ann.right.value is None:
            return _strip_optional(ann.left)
        if isinstance(ann.left, ast.Constant) and ann.left.value is None:
            return _strip_optional(ann.right)
    if isinstance(ann, ast.Subscript) and isinstance(ann.value, ast.Name) and ann.value.id == "Optional":
        return ann.slice
    return ann


class _SelfEffects(EffectOracle):
    def __init__(self, prog: Program) -> None:
        self.prog = prog

    def call_may_assign(self, flow: FuncFlow, node: Node, call: ast.Call) -> list[str]:
        fi = flow.fi
        if fi.cls is None or not fi.params:
            return []
        f = call.func
        if not (isinstance(f, ast.Attribute) and isinstance(f.value, ast.Name) and f.value.id == fi.params[0]):
            return []
        keys: set[str] = set()
        for callee in self.prog.dispatch_targets(fi, call):
            for k in self.prog.may_assign(callee):
                keys.add(fi.params[0] + "." + k.split(".", 1)[1])
        return sorted(keys)


class _SliceState:
    def __init__(self, prog: Program, fi: FuncInfo, flow: FuncFlow, sl: Slice, control: bool, depth: int) -> None:
        self.prog = prog
        self.fi = fi
        self.flow = flow
        self.sl = sl
        self.control = control
        self.depth = depth
        self._seen_ctrl: set[Node] = set()

    # control dependence of a node
    def add_control(self, node: Node) -> None:
        if node in self._seen_ctrl:
            return
        self._seen_ctrl.add(node)
        for b, _lab in self.flow.control_deps(node):
            self.sl.nodes.add(b)
            for ex in self.flow.node_exprs(b):
                self.visit(ex, b, {})
            self.add_control(b)

    def visit_def(self, d: Def) -> None:
        if d in self.sl.defs:
            return
        self.sl.defs.add(d)
        self.sl.nodes.add(d.node)
        if d.kind == "param":
            self.sl.sources.add(("param", d.var))
        elif d.kind in ("assign", "unpack", "for", "with", "walrus", "except"):
            if d.value is not None:
                self.visit(d.value, d.node, {})
        elif d.kind == "aug":
            if d.value is not None:
                self.visit(d.value, d.node, {})
            if d.extra is not None:
                self.visit(_as_load(d.extra), d.node, {})
        elif d.kind == "mutate":
            if d.value is not None:
                if isinstance(d.value, ast.Call):
                    for a in d.value.args:
                        self.visit(a, d.node, {})
                    for kw in d.value.keywords:
                        self.visit(kw.value, d.node, {})
                else:
                    self.visit(d.value, d.node, {})
        elif d.kind == "effect":
            call = d.value
            assert isinstance(call, ast.Call)
            self.sl.sources.add(("effect", d.var, " ".join(ast.unparse(call.func).split())))
        elif d.kind in ("import", "def"):
            self.sl.sources.add(("local-def", d.var))
        if self.control:
            self.add_control(d.node)

    def visit_name(self, name: str, node: Node, bind: dict[str, ast.AST]) -> None:
        if name in bind:
            b = bind[name]
            if b is not None:
                self.visit(b, node, {k: v for k, v in bind.items() if k != name})
            return
        defs = self.flow.reaching(node, name)
        if defs:
            for d in defs:
                self.visit_def(d)
            return
        # not a local: free variable of an enclosing function, module global, or builtin
        f = self.fi.parent
        while f is not None:
            pflow = self.prog.flow(f)
            if name in pflow.defs_of_var:
                self.sl.sources.add(("free", name, f.qual))
                return
            f = f.parent
        r = self.prog.repo.lookup(name, self.fi.module, self.fi)
        if r is None:
            self.sl.sources.add(("builtin", name))
        elif isinstance(r, (FuncInfo, ClassInfo, ConstInfo)):
            self.sl.sources.add(("global", r.qual))
        else:
            self.sl.sources.add(("global", r.dotted()))

    def visit_chain(self, expr: ast.Attribute, key: str, node: Node, bind: dict[str, ast.AST]) -> None:
        parts = key.split(".")
        root = parts[0]
        if root in bind:
            self.visit_name(root, node, bind)
            self.sl.sources.add(("attr", key))
            return
        # longest known key (synthesised chains may be unknown to the reaching-definitions universe)
        k = key
        while k not in self.flow.keys and "." in k:
            k = k.rsplit(".", 1)[0]
        defs = self.flow.reaching(node, k)
        if not defs:
            if self.flow.reaching(node, root):
                defs = self.flow.reaching(node, root)
            else:
                # module / free chain e.g. inline.RawText, SINGLE_JINJA_TAG.open_delim
                self.visit_name(root, node, bind)
                r = self.prog.repo.dotted_name(expr, self.fi.module, self.fi)
                self.sl.sources.add(("global", r) if r is not None else ("attr", key))
                return
        for d in defs:
            if d.var == key:
                self.visit_def(d)  # explicit store to exactly this key
            elif d.kind == "param":
                self.sl.sources.add(("attr", key))
                self.visit_def(d)
            else:
                # value hangs off an object bound / stored / mutated at d
                self.sl.sources.add(("attr-of", key, d.kind))
                self.visit_def(d)

    def visit(self, expr: ast.AST | None, node: Node, bind: dict[str, ast.AST]) -> None:
        if expr is None:
            return
        if isinstance(expr, ast.Constant):
            self.sl.sources.add(("const", repr(expr.value)))
            return
        if isinstance(expr, ast.Name):
            self.visit_name(expr.id, node, bind)
            return
        if isinstance(expr, ast.Attribute):
            k = chain_key(expr)
            if k is not None:
                self.visit_chain(expr, k, node, bind)
            else:
                self.sl.ops.append((f".{expr.attr}", expr))
                self.visit(expr.value, node, bind)
            return
        if isinstance(expr, ast.Call):
            self.visit_call(expr, node, bind)
            return
        if isinstance(expr, (ast.ListComp, ast.SetComp, ast.GeneratorExp, ast.DictComp)):
            b = dict(bind)
            for gen in expr.generators:
                self.visit(gen.iter, node, b)
                for t in ast.walk(gen.target):
                    if isinstance(t, ast.Name):
                        b[t.id] = gen.iter
                for cond in gen.ifs:
                    self.visit(cond, node, b)
            if isinstance(expr, ast.DictComp):
                self.visit(expr.key, node, b)
                self.visit(expr.value, node, b)
            else:
                self.visit(expr.elt, node, b)
            return
        if isinstance(expr, ast.Lambda):
            b = dict(bind)
            for a in expr.args.args + expr.args.kwonlyargs + expr.args.posonlyargs:
                b[a.arg] = None  # type: ignore[assignment]
            self.visit(expr.body, node, b)
            return
        if isinstance(expr, ast.NamedExpr):
            self.visit(expr.value, node, bind)
            return
        if isinstance(expr, ast.Subscript):
            self.sl.ops.append(("[" + " ".join(ast.unparse(expr.slice).split()) + "]", expr))
        elif isinstance(expr, ast.BinOp):
            self.sl.ops.append((type(expr.op).__name__, expr))
        elif isinstance(expr, ast.stmt):
            # a whole simple statement: visit what it evaluates
            if isinstance(expr, ast.Return):
                self.visit(expr.value, node, bind)
                return
            if isinstance(expr, (ast.Assign, ast.AnnAssign, ast.AugAssign)):
                self.visit(expr.value, node, bind)
                if isinstance(expr, ast.AugAssign):
                    self.visit(_as_load(expr.target), node, bind)
                return
            if isinstance(expr, ast.Expr):
                self.visit(expr.value, node, bind)
                return
        for child in ast.iter_child_nodes(expr):
            if isinstance(child, (ast.expr_context, ast.operator, ast.cmpop, ast.boolop, ast.unaryop)):
                continue
            self.visit(child, node, bind)

    def visit_call(self, call: ast.Call, node: Node, bind: dict[str, ast.AST]) -> None:
        target = self.prog.resolve_call(self.fi, call)
        callees: list[FuncInfo] = target if isinstance(target, list) else []
        if not callees:
            callees = self.prog.dispatch_targets(self.fi, call)
            name = target if isinstance(target, str) else " ".join(ast.unparse(call.func).split())
        else:
            name = callees[0].qual
        # a local variable holding a function value: follow through its definitions
        if isinstance(call.func, ast.Name) and self.flow.reaching(node, call.func.id):
            name = f"local:{call.func.id}"
            callees = []
        self.sl.calls.append((name, call))
        if callees and self.depth < self.prog.MAX_DEPTH and len(callees) == 1:
            callee = callees[0]
            summ = self.prog.summary(callee, self.control, self.depth)
            if summ is not None:
                self._apply_summary(callee, summ, call, node, bind)
                return
        # unknown / dynamic: depends on receiver and all arguments
        self.sl.sources.add(("call", name))
        if isinstance(call.func, ast.Attribute):
            self.sl.ops.append((f".{call.func.attr}()", call))
            self.visit(call.func.value, node, bind)
        elif isinstance(call.func, ast.Name):
            if self.flow.reaching(node, call.func.id) or call.func.id in bind:
                self.visit_name(call.func.id, node, bind)
            self.sl.ops.append((f"{call.func.id}()", call))
        else:
            self.visit(call.func, node, bind)
        for a in call.args:
            self.visit(a.value if isinstance(a, ast.Starred) else a, node, bind)
        for kw in call.keywords:
            self.visit(kw.value, node, bind)

    def _apply_summary(self, callee: FuncInfo, summ: Slice, call: ast.Call, node: Node, bind: dict[str, ast.AST]) -> None:
        binding = bind_call(callee, call)
        self.sl.calls += summ.calls
        self.sl.ops += summ.ops
        recv = call.func.value if isinstance(call.func, ast.Attribute) else None
        is_method = callee.cls is not None and "staticmethod" not in callee.decorators
        is_ctor = callee.name == "__init__" and not (
            isinstance(call.func, ast.Attribute) and call.func.attr == "__init__"
        )
        selfparam = callee.params[0] if is_method and callee.params else None

        def arg_for(p: str) -> ast.AST | None | str:
            if p == selfparam:
                if is_ctor:
                    return "new"
                if isinstance(recv, ast.Call):  # super().m()
                    return ast.Name(id=self.fi.params[0], ctx=ast.Load()) if self.fi.params else None
                return recv
            a = binding.get(p, "default")
            # typing.cast(T, x) is the identity on x
            while isinstance(a, ast.Call) and isinstance(a.func, ast.Name) and a.func.id == "cast" and len(a.args) == 2:
                a = a.args[1]
            return a

        for s in summ.sources:
            if s[0] == "param":
                a = arg_for(s[1])
                if isinstance(a, ast.AST):
                    self.visit(a, node, bind)
                elif a == "default":
                    self.sl.sources.add(("const", f"default:{callee.qual}:{s[1]}"))
            elif s[0] == "attr":
                parts = s[1].split(".")
                a = arg_for(parts[0])
                if isinstance(a, ast.AST):
                    ex: ast.AST = a
                    for p in parts[1:]:
                        ex = ast.Attribute(value=ex, attr=p, ctx=ast.Load())
                    ast.copy_location(ex, call)
                    ast.fix_missing_locations(ex)
                    self.visit(ex, node, bind)
                elif a == "new":
                    self.sl.sources.add(("attr-of", s[1], "new"))
                else:
                    self.sl.sources.add(("const", f"default:{callee.qual}:{parts[0]}"))
            elif s[0] == "free":
                self.sl.sources.add(s)
            else:
                self.sl.sources.add(s)


def _as_load(target: ast.AST) -> ast.AST:
    import copy

    t = copy.deepcopy(target)
    for n in ast.walk(t):
        if hasattr(n, "ctx"):
            n.ctx = ast.Load()
    return t


def bind_call(callee: FuncInfo, call: ast.Call) -> dict[str, ast.AST]:
    """Bind the call's arguments to the callee's parameter names (self/cls skipped for methods)."""
    node = callee.node
    a = node.args
    pos = [x.arg for x in a.posonlyargs + a.args]
    is_method = callee.cls is not None and not isinstance(node, ast.Lambda) and not any(
        d.endswith("staticmethod") for d in callee.decorators
    )
    if is_method and pos:
        # bound call: receiver fills the first parameter, unless called as Class.method(obj, ...)
        pos = pos[1:]
    out: dict[str, ast.AST] = {}
    i = 0
    for arg in call.args:
        if isinstance(arg, ast.Starred):
            out["*"] = arg.value
            continue
        if i < len(pos):
            out[pos[i]] = arg
        elif a.vararg:
            out.setdefault("*" + a.vararg.arg, arg)
        i += 1
    for kw in call.keywords:
        if kw.arg is None:
            out["**"] = kw.value
        else:
            out[kw.arg] = kw.value
    return out


def param_default(callee: FuncInfo, name: str) -> ast.AST | None:
    a = callee.node.args
    pos = a.posonlyargs + a.args
    defaults = [None] * (len(pos) - len(a.defaults)) + list(a.defaults)
    for p, d in zip(pos, defaults):
        if p.arg == name:
            return d
    for p, d in zip(a.kwonlyargs, a.kw_defaults):
        if p.arg == name:
            return d
    return None


# ------------------------------------------------------------ identity origins
def origins(prog: Program, fi: FuncInfo, expr: ast.AST | None, node: Node, _seen: frozenset = frozenset()) -> frozenset:
    """Where does this value come from, following *copies only* (no operations).

    Terminals: ("param", name) | ("const", repr) | ("global", qual) | ("call", callee) |
    ("attr", base_origin, name) | ("unpack", origin, index) | ("iter", origin) |
    ("not", origin) | ("expr", text) | ("free", name)
    """
    flow = prog.flow(fi)
    if expr is None:
        return frozenset({("const", "None")})
    if isinstance(expr, ast.Constant):
        return frozenset({("const", repr(expr.value))})
    if isinstance(expr, ast.NamedExpr):
        return origins(prog, fi, expr.value, node, _seen)  # (x := e) is e
    if isinstance(expr, ast.Name):
        # a variable of an enclosing comprehension: [g(child) for child in xs]  ->  child iterates over xs
        from .loader import parent as _parent

        p_ = _parent(expr)
        hops = 0
        while p_ is not None and not isinstance(p_, ast.stmt) and hops < 40:
            hops += 1
            if isinstance(p_, (ast.ListComp, ast.SetComp, ast.GeneratorExp, ast.DictComp)):
                for g in p_.generators:
                    tnames = [x.id for x in ast.walk(g.target) if isinstance(x, ast.Name)]
                    if expr.id in tnames and not any(x is expr for x in ast.walk(g.iter)):
                        idx = None
                        if isinstance(g.target, (ast.Tuple, ast.List)):
                            idx = next((i for i, x in enumerate(g.target.elts) if isinstance(x, ast.Name) and x.id == expr.id), None)
                        return frozenset(("iter", o, idx) for o in origins(prog, fi, g.iter, node, _seen))
            p_ = _parent(p_)
        defs = flow.reaching(node, expr.id)
        if not defs:
            f = fi.parent
            while f is not None:
                pf = prog.flow(f)
                if expr.id in pf.defs_of_var:
                    # a closure variable that the enclosing function binds once to (a copy of) one of its own variables
                    # is that variable: settings_width = width ... def inner(): use(settings_width)
                    name = expr.id
                    for _ in range(4):
                        ds = [d for d in pf.defs if d.var == name]
                        if len(ds) == 1 and ds[0].kind == "assign" and isinstance(ds[0].value, ast.Name) and ds[0].value.id != name \
                                and ds[0].value.id in pf.defs_of_var and len([d for d in pf.defs if d.var == ds[0].value.id]) == 1:
                            name = ds[0].value.id
                        else:
                            break
                    return frozenset({("free", name)})
                f = f.parent
            r = prog.repo.lookup(expr.id, fi.module, fi)
            if r is None:
                return frozenset({("builtin", expr.id)})
            if isinstance(r, (FuncInfo, ClassInfo, ConstInfo)):
                return frozenset({("global", r.qual)})
            return frozenset({("global", r.dotted())})
        out: set = set()
        for d in defs:
            if d.id in _seen:
                continue
            seen2 = _seen | {d.id}
            if d.kind == "param":
                out.add(("param", d.var))
            elif d.kind in ("assign", "walrus") and d.value is not None:
                out |= origins(prog, fi, d.value, d.node, seen2)
            elif d.kind == "unpack" and d.value is not None:
                if isinstance(d.value, (ast.Tuple, ast.List)) and d.index is not None and d.index < len(d.value.elts) \
                        and not any(isinstance(x, ast.Starred) for x in d.value.elts) and isinstance(d.node.ast, ast.Assign) \
                        and isinstance(d.node.ast.targets[0], (ast.Tuple, ast.List)) and len(d.node.ast.targets[0].elts) == len(d.value.elts):
                    out |= origins(prog, fi, d.value.elts[d.index], d.node, seen2)  # a, b = x, y
                    continue
                for o in origins(prog, fi, d.value, d.node, seen2):
                    out.add(("unpack", o, d.index))
            elif d.kind == "for" and d.value is not None:
                for o in origins(prog, fi, d.value, d.node, seen2):
                    out.add(("iter", o, d.index))
            elif d.kind == "with" and d.value is not None:
                for o in origins(prog, fi, d.value, d.node, seen2):
                    out.add(("with", o))
            else:
                out.add(("def", d.kind, d.var))
        return frozenset(out)
    if isinstance(expr, ast.Attribute):
        k = chain_key(expr)
        out = set()
        if k is not None and k in flow.keys:
            defs = flow.reaching(node, k)
            explicit = [d for d in defs if d.var == k]
            implicit = [d for d in defs if d.var != k]
            for d in explicit:
                if d.id in _seen:
                    continue
                if d.kind == "assign" and d.value is not None:
                    out |= origins(prog, fi, d.value, d.node, _seen | {d.id})
                else:
                    out.add(("def", d.kind, d.var))
            if implicit or not defs:
                for bo in origins(prog, fi, expr.value, node, _seen):
                    out.add(("attr", bo, expr.attr))
            return frozenset(out)
        r = prog.repo.dotted_name(expr, fi.module, fi)
        if r is not None and not flow.reaching(node, (k or "").split(".")[0]):
            return frozenset({("global", r)})
        for bo in origins(prog, fi, expr.value, node, _seen):
            out.add(("attr", bo, expr.attr))
        return frozenset(out)
    if isinstance(expr, ast.Call):
        t = prog.resolve_call(fi, expr)
        if isinstance(t, list):
            name = t[0].qual
        elif isinstance(t, str):
            name = t
        else:
            name = " ".join(ast.unparse(expr.func).split())
        if isinstance(expr.func, ast.Name) and name in ("typing.cast", "cast") and len(expr.args) == 2:
            return origins(prog, fi, expr.args[1], node, _seen)
        return frozenset({("call", name)})
    if isinstance(expr, ast.UnaryOp) and isinstance(expr.op, ast.Not):
        return frozenset({("not", o) for o in origins(prog, fi, expr.operand, node, _seen)})
    if isinstance(expr, ast.IfExp):
        # a selection between two values is a copy of one of them (same as an if/else assignment)
        return origins(prog, fi, expr.body, node, _seen) | origins(prog, fi, expr.orelse, node, _seen)
    if isinstance(expr, ast.Subscript):
        idx = " ".join(ast.unparse(expr.slice).split())
        return frozenset({("index", o, idx) for o in origins(prog, fi, expr.value, node, _seen)})
    return frozenset({("expr", " ".join(ast.unparse(expr).split()))})


def fmt_origin(o) -> str:
    if not isinstance(o, tuple):
        return str(o)
    k = o[0]
    if k == "param":
        return f"param {o[1]}"
    if k == "const":
        return f"constant {o[1]}"
    if k == "attr":
        return f"{fmt_origin(o[1])}.{o[2]}"
    if k == "call":
        return f"{o[1]}(...)"
    if k == "unpack":
        return f"{fmt_origin(o[1])}[#{o[2]}]"
    if k == "not":
        return f"not {fmt_origin(o[1])}"
    if k == "index":
        return f"{fmt_origin(o[1])}[{o[2]}]"
    if k == "iter":
        return f"each of {fmt_origin(o[1])}"
    return " ".join(str(x) for x in o)
