"""AST-level inlining of private helper functions: a second *view* of the repository.

"Extract helper" is the most common behaviour-preserving refactoring, and most rules look at one function at a
time. The inlined view undoes it: a call to a private helper of the same module (name starting with `_`, a method
called on `self`, or a nested function called directly) is replaced by the helper's body, with its parameters bound to
the arguments and its locals renamed apart. `return E` becomes `target = E; break` inside a one-trip `while True:`.

The view is used as a *second opinion*: an obligation that fails on the source as written is re-evaluated on the
inlined view, and is reported only if it fails (or cannot be found) there too. Both programs are equivalent, so a pass on
either is a valid verdict of the rule.

Not inlined: recursive helpers, generators, decorated functions (other than staticmethod), calls with * / ** arguments,
helpers with more than MAX_STMTS statements, calls in conditionally evaluated positions (right operands of and/or,
conditional expressions, comprehensions, lambdas) - these stay calls and are handled by the rules' summaries as before.
"""

from __future__ import annotations

import ast
import copy
from typing import Iterable

from .cfg import stmts_no_nested, walk_no_nested
from .dataflow import Program
from .loader import ClassInfo, FuncInfo, Repo, set_parents

MAX_STMTS = 120
MAX_DEPTH = 3


def clone(n):
    """Deep copy of an AST that does not follow the `_parent` back links (copy.deepcopy would copy the whole module)."""
    if isinstance(n, ast.AST):
        new = type(n)()
        for f in n._fields:
            if hasattr(n, f):
                setattr(new, f, clone(getattr(n, f)))
        for a in ("lineno", "col_offset", "end_lineno", "end_col_offset"):
            if hasattr(n, a):
                setattr(new, a, getattr(n, a))
        return new
    if isinstance(n, list):
        return [clone(x) for x in n]
    return n


def _is_generator(fn: ast.AST) -> bool:
    return any(isinstance(n, (ast.Yield, ast.YieldFrom)) for n in walk_no_nested(fn))


def _local_names(fn: ast.FunctionDef) -> set[str]:
    names: set[str] = set()
    a = fn.args
    for x in a.posonlyargs + a.args + a.kwonlyargs:
        names.add(x.arg)
    if a.vararg:
        names.add(a.vararg.arg)
    if a.kwarg:
        names.add(a.kwarg.arg)
    declared_outer: set[str] = set()
    for n in walk_no_nested(fn):
        if isinstance(n, (ast.Global, ast.Nonlocal)):
            declared_outer |= set(n.names)
    for n in ast.walk(fn):
        if isinstance(n, ast.Name) and isinstance(n.ctx, (ast.Store, ast.Del)):
            names.add(n.id)
        elif isinstance(n, (ast.FunctionDef, ast.AsyncFunctionDef, ast.ClassDef)) and n is not fn:
            names.add(n.name)
        elif isinstance(n, ast.ExceptHandler) and n.name:
            names.add(n.name)
        elif isinstance(n, (ast.Import, ast.ImportFrom)):
            for al in n.names:
                names.add((al.asname or al.name).split(".")[0])
    return names - declared_outer


class _Renamer(ast.NodeTransformer):
    def __init__(self, mapping: dict[str, str]) -> None:
        self.mapping = mapping

    def visit_Name(self, node: ast.Name) -> ast.AST:
        if node.id in self.mapping:
            return ast.copy_location(ast.Name(id=self.mapping[node.id], ctx=node.ctx), node)
        return node

    def visit_FunctionDef(self, node: ast.FunctionDef) -> ast.AST:
        # nested defs keep their own parameter names; free uses of renamed outer locals are renamed
        inner_params = {a.arg for a in node.args.posonlyargs + node.args.args + node.args.kwonlyargs}
        saved = self.mapping
        self.mapping = {k: v for k, v in saved.items() if k not in inner_params}
        if node.name in saved:
            node.name = saved[node.name]
        self.generic_visit(node)
        self.mapping = saved
        return node

    def visit_Lambda(self, node: ast.Lambda) -> ast.AST:
        inner_params = {a.arg for a in node.args.posonlyargs + node.args.args + node.args.kwonlyargs}
        saved = self.mapping
        self.mapping = {k: v for k, v in saved.items() if k not in inner_params}
        self.generic_visit(node)
        self.mapping = saved
        return node

    def _imp(self, node):
        # `import a.b` binds `a`; `from m import x` binds `x`: when that local name is renamed, bind the new one
        for al in node.names:
            bound = (al.asname or al.name).split(".")[0]
            if bound in self.mapping and (al.asname or "." not in al.name):
                al.asname = self.mapping[bound]
        return node

    def visit_Import(self, node: ast.Import) -> ast.AST:
        return self._imp(node)

    def visit_ImportFrom(self, node: ast.ImportFrom) -> ast.AST:
        return self._imp(node)

    def visit_ExceptHandler(self, node: ast.ExceptHandler) -> ast.AST:
        if node.name and node.name in self.mapping:
            node.name = self.mapping[node.name]
        self.generic_visit(node)
        return node


class Inliner:
    def __init__(self, repo: Repo, prog: Program, keep: set[str] | None = None) -> None:
        self.repo = repo
        self.prog = prog
        self.keep = keep or set()
        self.counter = 0
        self.stats = {"inlined_calls": 0, "functions_changed": 0}
        self.pending_imports: dict[str, set[tuple[str, str]]] = {}

    # ------------------------------------------------------------ candidates
    def _callee(self, fi: FuncInfo, call: ast.Call, stack: tuple[str, ...], generator: bool = False) -> FuncInfo | None:
        if any(isinstance(a, ast.Starred) for a in call.args) or any(k.arg is None for k in call.keywords):
            return None
        t = self.prog.resolve_call(fi, call)
        if not isinstance(t, list) or len(t) != 1:
            return None
        callee = t[0]
        if isinstance(callee.node, ast.Lambda) or callee.qual in stack or callee is fi:
            return None
        if callee.module is not fi.module:
            # a private module-level helper that lives in a sibling module and is imported by name: spliced as well, provided
            # every module-level name its body reads can be imported next to it without meaning something else here
            if not self._importable_here(fi, callee, call):
                return None
        if callee.name == "__init__" or callee.name.startswith("__"):
            return None
        if callee.qual in self.keep:
            return None
        nested = [n for n in ast.walk(callee.node) if isinstance(n, (ast.FunctionDef, ast.AsyncFunctionDef, ast.Lambda, ast.ClassDef)) and n is not callee.node]
        if nested:
            # factories are not spliced (their closures would move into the caller); a helper with *local* helpers - nested
            # defs that are only ever called, directly, inside it - is
            if any(not isinstance(n, ast.FunctionDef) for n in nested):
                return None
            for n in nested:
                loads = sum(1 for x in ast.walk(callee.node) if isinstance(x, ast.Name) and x.id == n.name and isinstance(x.ctx, ast.Load))
                calls = sum(1 for x in ast.walk(callee.node) if isinstance(x, ast.Call) and isinstance(x.func, ast.Name) and x.func.id == n.name)
                if loads != calls or n.decorator_list or any(isinstance(x, (ast.Yield, ast.YieldFrom, ast.Nonlocal)) for x in ast.walk(n)):
                    return None
        decos = [d for d in callee.decorators if not d.endswith(("staticmethod", "classmethod"))]
        if decos:
            return None
        if _is_generator(callee.node) != generator:
            return None
        if generator and any(isinstance(n, ast.YieldFrom) for n in walk_no_nested(callee.node)):
            return None
        if sum(1 for _ in stmts_no_nested(callee.node.body)) > MAX_STMTS:
            return None
        # names the helper reads from an outer scope (module level, enclosing function) must mean the same in the caller:
        # a local of the caller with that name (e.g. a function-level `import sys`) would capture them
        free = {n.id for n in ast.walk(callee.node) if isinstance(n, ast.Name) and isinstance(n.ctx, ast.Load)} - _local_names(callee.node)
        if free & _local_names(fi.node) and callee.parent is not fi:
            # (a closure of this very function reads the function's own variables: they mean the same at the call site)
            return None
        f = call.func
        nested_direct = callee.parent is not None and isinstance(f, ast.Name) and (callee.parent is fi or callee.parent is fi.parent)
        private = callee.name.startswith("_")
        on_self = isinstance(f, ast.Attribute) and isinstance(f.value, ast.Name) and fi.cls is not None and fi.params and f.value.id == fi.params[0] \
            and callee.cls is not None
        on_class = False
        if isinstance(f, ast.Attribute) and not on_self and isinstance(f.value, ast.Name) and callee.cls is not None \
                and any(d.endswith(("classmethod", "staticmethod")) for d in callee.decorators):
            from .loader import ClassInfo
            r_ = self.repo.lookup(f.value.id, fi.module, fi)
            # Cls.make(...) with Cls a class of this module: an alternative constructor / helper kept on the class
            on_class = isinstance(r_, ClassInfo) and r_ is callee.cls and f.value.id not in _local_names(fi.node)
        if isinstance(f, ast.Attribute) and not on_self and not on_class:
            return None
        if nested_direct and callee.parent is fi:
            # a nested function of this very function, called directly (not passed around as a closure)
            return callee
        if nested_direct and callee.parent is fi.parent and callee.parent is not None:
            # a sibling closure of the same enclosing function: its free variables belong to the shared parent; they mean
            # the same in the caller unless a local of the caller has the same name
            free = {n.id for n in ast.walk(callee.node) if isinstance(n, ast.Name) and isinstance(n.ctx, ast.Load)} - _local_names(callee.node)
            if not (free & _local_names(fi.node)):
                return callee
        if private and (on_self or (isinstance(f, ast.Name) and callee.cls is None and callee.parent is None)):
            return callee
        if on_class and not self._escapes_module(callee):
            return callee
        return None

    def _importable_here(self, fi: FuncInfo, callee: FuncInfo, call: ast.Call) -> bool:
        import builtins

        if not (callee.cls is None and callee.parent is None and callee.name.startswith("_") and isinstance(call.func, ast.Name)):
            return False
        m1, m2 = fi.module, callee.module
        if not (m1.name.startswith("flowmark") and m2.name.startswith("flowmark")):
            return False
        free = {n.id for n in ast.walk(callee.node) if isinstance(n, ast.Name) and isinstance(n.ctx, ast.Load)} - _local_names(callee.node)
        want: set[str] = set()
        for g in sorted(free):
            in2 = g in m2.defs or g in m2.imports
            if not in2:
                if hasattr(builtins, g):
                    continue
                return False
            here = self.repo.lookup(g, m1, None)
            there = self.repo.lookup(g, m2, None)
            if g in m1.defs or g in m1.imports:
                same = here is there or (hasattr(here, "dotted") and hasattr(there, "dotted") and here.dotted() == there.dotted())
                if not same:
                    return False
                continue
            want.add(g)
        pend = self.pending_imports.setdefault(m1.name, set())
        # (also names an earlier splice asked for must agree)
        for (src, g) in pend:
            if g in want and src != m2.name:
                return False
        for g in want:
            pend.add((m2.name, g))
        return True

    def _escapes_module(self, callee: FuncInfo) -> bool:
        """Is the (public-looking) class helper also used outside its module? Then it stays a function for everybody."""
        name = callee.name
        for m in self.repo.modules.values():
            if m is callee.module:
                continue
            if any(isinstance(x, ast.Attribute) and x.attr == name for x in ast.walk(m.tree)):
                return True
        return False

    # -------------------------------------------------------------- splicing
    def _expand(self, fi: FuncInfo, callee: FuncInfo, call: ast.Call, target: ast.expr | None, stack: tuple[str, ...], depth: int,
                collect: str | None = None, tail: bool = False) -> list[ast.stmt]:
        """Statements equivalent to `target = callee(args)`. With `collect` (a fresh list variable name) the callee is a
        generator whose values are all consumed at once (list(gen(...))): `yield v` becomes `collect.append(v)`, `return`
        leaves the spliced body."""
        self.counter += 1
        tag = f"__i{self.counter}_"
        fn = clone(callee.node)
        params = [a.arg for a in fn.args.posonlyargs + fn.args.args]
        kwonly = [a.arg for a in fn.args.kwonlyargs]
        locals_ = _local_names(fn)
        mapping = {n: tag + n for n in locals_}
        is_method = callee.cls is not None and not any(d.endswith("staticmethod") for d in callee.decorators)
        pre: list[ast.stmt] = []
        pos = list(params)
        if is_method and pos:
            selfp = pos.pop(0)
            recv = call.func.value if isinstance(call.func, ast.Attribute) else None
            if isinstance(recv, ast.Name):
                mapping[selfp] = recv.id  # self stays self
        bound: dict[str, ast.expr] = {}
        for i, a in enumerate(call.args):
            if i < len(pos):
                bound[pos[i]] = a
        for k in call.keywords:
            if k.arg:
                bound[k.arg] = k.value
        # defaults
        all_pos = fn.args.posonlyargs + fn.args.args
        defaults = [None] * (len(all_pos) - len(fn.args.defaults)) + list(fn.args.defaults)
        for a, d in zip(all_pos, defaults):
            if a.arg not in bound and d is not None and not (is_method and a.arg == params[0]):
                bound[a.arg] = d
        for a, d in zip(fn.args.kwonlyargs, fn.args.kw_defaults):
            if a.arg not in bound and d is not None:
                bound[a.arg] = d
        stored = {n.id for n in ast.walk(fn) if isinstance(n, ast.Name) and isinstance(n.ctx, (ast.Store, ast.Del))}
        has_closure = any(isinstance(n, (ast.FunctionDef, ast.AsyncFunctionDef, ast.Lambda)) for n in ast.walk(fn) if n is not fn)
        for p in pos + kwonly:
            if p in bound:
                arg = bound[p]
                if isinstance(arg, ast.Name) and p not in stored and not has_closure and not arg.id.startswith("__r"):
                    # the parameter is never rebound in the helper and the caller's variable cannot change while the
                    # helper's body runs: use the caller's name directly (no alias for the rules to see through)
                    mapping[p] = arg.id
                    continue
                st = ast.Assign(targets=[ast.Name(id=mapping[p], ctx=ast.Store())], value=clone(arg))
                pre.append(ast.copy_location(st, call))
        # counted before the returns are rewritten (the rewriter edits nested statements in place)
        n_ret = sum(1 for n in walk_no_nested(fn) if isinstance(n, ast.Return))
        last = fn.body[-1] if fn.body else None
        body = [s for s in fn.body if not (isinstance(s, ast.Expr) and isinstance(s.value, ast.Constant) and isinstance(s.value.value, str))]
        ren = _Renamer(mapping)
        body = [ren.visit(s) for s in body]

        class RetRewriter(ast.NodeTransformer):
            def visit_FunctionDef(self, node):  # do not touch returns of nested defs
                return node

            def visit_Lambda(self, node):
                return node

            def visit_Expr(self, node: ast.Expr):
                if collect is not None and isinstance(node.value, ast.Yield):
                    v = node.value.value if node.value.value is not None else ast.Constant(value=None)
                    app = ast.Call(func=ast.Attribute(value=ast.Name(id=collect, ctx=ast.Load()), attr="append", ctx=ast.Load()), args=[v], keywords=[])
                    return ast.copy_location(ast.Expr(value=app), node)
                return node

            def visit_Return(self, node: ast.Return):
                out: list[ast.stmt] = []
                if tail:
                    return node  # `return helper(...)`: the helper's returns are the caller's returns
                if collect is not None:
                    return [ast.copy_location(ast.Break(), node)]
                val = node.value if node.value is not None else ast.Constant(value=None)
                if target is not None:
                    split = False
                    if isinstance(target, ast.Tuple) and isinstance(val, ast.Tuple) and len(target.elts) == len(val.elts) \
                            and all(isinstance(t, ast.Name) for t in target.elts):
                        tnames = {t.id for t in target.elts}
                        rnames = {n.id for v in val.elts for n in ast.walk(v) if isinstance(n, ast.Name)}
                        split = not (tnames & rnames)
                    if split:
                        # `a, b = (E1, E2)` with E1, E2 not reading a or b: two plain assignments, so that each
                        # variable has its own defining expression
                        for t, v in zip(target.elts, val.elts):
                            out.append(ast.copy_location(ast.Assign(targets=[clone(t)], value=v), node))
                    else:
                        out.append(ast.copy_location(ast.Assign(targets=[clone(target)], value=val), node))
                elif node.value is not None:
                    out.append(ast.copy_location(ast.Expr(value=val), node))
                out.append(ast.copy_location(ast.Break(), node))
                return out

        if collect is not None:
            # only statement-level yields are understood
            stmt_yields = sum(1 for n in walk_no_nested(fn) if isinstance(n, ast.Expr) and isinstance(n.value, ast.Yield))
            all_yields = sum(1 for n in walk_no_nested(fn) if isinstance(n, ast.Yield))
            if stmt_yields != all_yields:
                raise _NoInline("yield used as an expression")
        # returns inside loops of the helper would `break` the wrong loop: refuse those helpers
        for loop in [n for n in walk_no_nested(fn) if isinstance(n, (ast.For, ast.While, ast.AsyncFor))]:
            if not tail and any(isinstance(r, ast.Return) for r in walk_no_nested(loop)):
                raise _NoInline("return inside a loop of the helper")
        rr = RetRewriter()
        new_body: list[ast.stmt] = []
        for s in body:
            r = rr.visit(s)
            new_body += r if isinstance(r, list) else [r]
        falls_through = not isinstance(last, (ast.Return, ast.Raise))
        if collect is not None:
            # a generator has no result of its own: the collected list is the value
            body_stmts = list(new_body)
            if n_ret == 0:
                stmts = pre + body_stmts
            else:
                body_stmts.append(ast.copy_location(ast.Break(), call))
                stmts = pre + [ast.copy_location(ast.While(test=ast.Constant(value=True), body=body_stmts, orelse=[]), call)]
            init = ast.copy_location(ast.Assign(targets=[ast.Name(id=collect, ctx=ast.Store())], value=ast.List(elts=[], ctx=ast.Load())), call)
            stmts = [init] + stmts
            self.stats["inlined_calls"] += 1
            if depth < MAX_DEPTH:
                stmts = self._block(_Ctx(fi, callee), stmts, stack + (callee.qual,), depth + 1)
            return stmts
        if falls_through:
            # decided on the helper's control-flow graph: does anything but a return reach the exit?
            try:
                cfg = self.prog.flow(callee).cfg
                falls_through = any(not (p.kind == "stmt" and isinstance(p.ast, ast.Return)) for p, _lab in cfg.exit.pred)
            except Exception:  # noqa: BLE001
                falls_through = True
        if tail:
            if falls_through:
                new_body.append(ast.copy_location(ast.Return(value=ast.Constant(value=None)), call))
            stmts = pre + new_body
            self.stats["inlined_calls"] += 1
            if depth < MAX_DEPTH:
                stmts = self._block(_Ctx(fi, callee), stmts, stack + (callee.qual,), depth + 1)
            return stmts
        if falls_through:
            if target is not None:
                new_body.append(ast.copy_location(ast.Assign(targets=[clone(target)], value=ast.Constant(value=None)), call))
            new_body.append(ast.copy_location(ast.Break(), call))
        # a helper whose body is a straight line ending in one return needs no loop wrapper
        if n_ret == 1 and isinstance(last, ast.Return):
            flat = list(new_body)
            if flat and isinstance(flat[-1], ast.Break):
                flat = flat[:-1]
            stmts = pre + flat
        elif n_ret == 0:
            stmts = pre + (new_body[:-1] if falls_through else new_body)
        else:
            loop = ast.While(test=ast.Constant(value=True), body=new_body, orelse=[])
            stmts = pre + [ast.copy_location(loop, call)]
        self.stats["inlined_calls"] += 1
        # nested inlining inside the spliced statements
        if depth < MAX_DEPTH:
            stmts = self._block(callee_ctx := _Ctx(fi, callee), stmts, stack + (callee.qual,), depth + 1)
        return stmts

    def _block(self, cx: "_Ctx", stmts: list[ast.stmt], stack: tuple[str, ...], depth: int) -> list[ast.stmt]:
        out: list[ast.stmt] = []
        for st in stmts:
            out += self._stmt(cx, st, stack, depth)
        return out

    def _resolve_in(self, cx: "_Ctx", call: ast.Call, stack: tuple[str, ...]) -> FuncInfo | None:
        # calls inside a spliced body are resolved in the scope of the function they were written in
        return self._callee(cx.scope, call, stack)

    def _stmt(self, cx: "_Ctx", st: ast.stmt, stack: tuple[str, ...], depth: int) -> list[ast.stmt]:
        # recurse into compound statements first
        for fld in ("body", "orelse", "finalbody"):
            sub = getattr(st, fld, None)
            if isinstance(sub, list) and sub and isinstance(sub[0], ast.stmt) and not isinstance(st, (ast.FunctionDef, ast.AsyncFunctionDef, ast.ClassDef)):
                setattr(st, fld, self._block(cx, sub, stack, depth))
        for h in getattr(st, "handlers", []) or []:
            h.body = self._block(cx, h.body, stack, depth)
        if isinstance(st, (ast.FunctionDef, ast.AsyncFunctionDef, ast.ClassDef)):
            return [st]
        try:
            # with self._wrapper(a, b): BODY   where _wrapper is a private @contextmanager generator with a single bare `yield`:
            # the generator's text with BODY in place of the yield (an exception in BODY leaves through the same `with` blocks the
            # yield sits in; without try/finally around the yield nothing after it runs, exactly as in the spliced text)
            if isinstance(st, ast.With) and len(st.items) == 1 and st.items[0].optional_vars is None and isinstance(st.items[0].context_expr, ast.Call):
                spliced = self._splice_context_manager(cx, st, stack, depth)
                if spliced is not None:
                    return spliced
            # whole-statement forms
            if isinstance(st, ast.Assign) and isinstance(st.value, ast.Call) and len(st.targets) == 1:
                c = self._resolve_in(cx, st.value, stack)
                if c is not None:
                    return self._expand(cx.scope, c, st.value, st.targets[0], stack, depth)
            if isinstance(st, ast.AnnAssign) and isinstance(st.value, ast.Call):
                c = self._resolve_in(cx, st.value, stack)
                if c is not None:
                    return self._expand(cx.scope, c, st.value, st.target, stack, depth)
            if isinstance(st, ast.Expr) and isinstance(st.value, ast.Call):
                c = self._resolve_in(cx, st.value, stack)
                if c is not None:
                    return self._expand(cx.scope, c, st.value, None, stack, depth)
            if isinstance(st, ast.Assign) and len(st.targets) == 1 and isinstance(st.targets[0], ast.Name) and isinstance(st.value, ast.ListComp) \
                    and len(st.value.generators) == 1 and not st.value.generators[0].is_async:
                # xs = [helper(a, ...) for a in it if c]   ->   xs = []; for a in it: if c: xs.append(helper(a, ...))
                # (only when the element calls a helper that can be spliced; the loop variable gets a fresh name so that it
                # cannot leak over a local of the function, as a comprehension variable cannot)
                comp = st.value
                g = comp.generators[0]
                calls_helper = self._calls_helper(cx, comp.elt, stack)
                tnames = [x.id for x in ast.walk(g.target) if isinstance(x, ast.Name)]
                if calls_helper and tnames and st.targets[0].id not in tnames:
                    self.counter += 1
                    ren = _Renamer({nm: f"__i{self.counter}_{nm}" for nm in tnames})
                    tgt = ren.visit(clone(g.target))
                    elt = ren.visit(clone(comp.elt))
                    ifs = [ren.visit(clone(c)) for c in g.ifs]
                    acc = st.targets[0].id
                    app = ast.Expr(value=ast.Call(func=ast.Attribute(value=ast.Name(id=acc, ctx=ast.Load()), attr="append", ctx=ast.Load()), args=[elt], keywords=[]))
                    body: list[ast.stmt] = [ast.copy_location(app, st)]
                    for c in reversed(ifs):
                        body = [ast.copy_location(ast.If(test=c, body=body, orelse=[]), st)]
                    loop = ast.copy_location(ast.For(target=tgt, iter=clone(g.iter), body=body, orelse=[], type_comment=None), st)
                    init = ast.copy_location(ast.Assign(targets=[ast.Name(id=acc, ctx=ast.Store())], value=ast.List(elts=[], ctx=ast.Load()), type_comment=None), st)
                    for x in (loop, init):
                        ast.fix_missing_locations(x)
                    return [init] + self._stmt(cx, loop, stack, depth)
            if isinstance(st, ast.Return) and isinstance(st.value, ast.Call):
                # tail call of a helper: any Return still standing is a return of the function being rewritten (the returns of
                # non-tail spliced bodies have become assignments + break)
                c = self._resolve_in(cx, st.value, stack)
                if c is not None and not _is_generator(c.node):
                    return self._expand(cx.scope, c, st.value, None, stack, depth, tail=True)
            # hoist unconditionally evaluated helper calls out of the statement's own expressions
            hoisted: list[ast.stmt] = []
            for expr_field in _own_expr_fields(st):
                e = getattr(st, expr_field)
                if e is None:
                    continue
                new_e, pre = self._hoist(cx, e, stack, depth)
                if pre:
                    hoisted += pre
                    setattr(st, expr_field, new_e)
            # `if A and helper(...):` without else -> nested ifs so that the helper can be hoisted under A
            if isinstance(st, ast.If) and not st.orelse and isinstance(st.test, ast.BoolOp) and isinstance(st.test.op, ast.And):
                vals = st.test.values
                for i, v in enumerate(vals[1:], start=1):
                    inner_call = v.operand if isinstance(v, ast.UnaryOp) and isinstance(v.op, ast.Not) else v
                    if isinstance(inner_call, ast.Call) and self._resolve_in(cx, inner_call, stack) is not None:
                        outer = vals[0] if i == 1 else ast.BoolOp(op=ast.And(), values=vals[:i])
                        rest = v if i == len(vals) - 1 else ast.BoolOp(op=ast.And(), values=vals[i:])
                        inner_if = ast.copy_location(ast.If(test=rest, body=st.body, orelse=[]), st)
                        outer_if = ast.copy_location(ast.If(test=outer, body=self._stmt(cx, inner_if, stack, depth), orelse=[]), st)
                        return hoisted + [outer_if]
            return hoisted + [st]
        except _NoInline:
            return [st]

    def _reduce_target(self, cx: "_Ctx", x: ast.AST, stack: tuple[str, ...]):
        """F when `x` is functools.reduce(F, xs, init) with F a helper that can be spliced (called as F(acc, item))"""
        if isinstance(x, ast.Call) and len(x.args) == 3 and not x.keywords and isinstance(x.args[0], ast.Name) \
                and (x.func.id if isinstance(x.func, ast.Name) else getattr(x.func, "attr", "")) == "reduce":
            fake = ast.Call(func=ast.Name(id=x.args[0].id, ctx=ast.Load()), args=[ast.Name(id="__a", ctx=ast.Load()), ast.Name(id="__b", ctx=ast.Load())], keywords=[])
            ast.copy_location(fake, x)
            ast.fix_missing_locations(fake)
            try:
                if self._resolve_in(cx, fake, stack) is not None:
                    return x.args[0].id
            except Exception:  # noqa: BLE001
                return None
        return None

    def _calls_helper(self, cx: "_Ctx", e: ast.AST, stack: tuple[str, ...]) -> bool:
        return any(isinstance(y, ast.Call) and (self._resolve_in(cx, y, stack) is not None or self._reduce_target(cx, y, stack) is not None) for y in ast.walk(e))

    def _splice_context_manager(self, cx: "_Ctx", st: ast.With, stack: tuple[str, ...], depth: int) -> list[ast.stmt] | None:
        import dataclasses

        call = st.items[0].context_expr
        if any(isinstance(a, ast.Starred) for a in call.args) or any(k.arg is None for k in call.keywords):
            return None
        t = self.prog.resolve_call(cx.scope, call)
        if not (isinstance(t, list) and len(t) == 1):
            return None
        callee = t[0]
        fi = cx.scope
        if isinstance(callee.node, ast.Lambda) or callee.module is not fi.module or callee.qual in stack or not callee.name.startswith("_") \
                or callee.name.startswith("__") or callee.qual in self.keep:
            return None
        if [d.split(".")[-1] for d in callee.decorators] != ["contextmanager"]:
            return None
        f = call.func
        on_self = isinstance(f, ast.Attribute) and isinstance(f.value, ast.Name) and fi.cls is not None and fi.params and f.value.id == fi.params[0] and callee.cls is not None
        plain = isinstance(f, ast.Name) and callee.cls is None and callee.parent is None
        if not (on_self or plain):
            return None
        own = list(walk_no_nested(callee.node))
        yields = [x for x in own if isinstance(x, (ast.Yield, ast.YieldFrom))]
        if len(yields) != 1 or not isinstance(yields[0], ast.Yield) or yields[0].value is not None:
            return None
        if any(isinstance(x, (ast.Return, ast.Try, ast.For, ast.While, ast.AsyncFor)) for x in own):
            return None
        if any(isinstance(x, (ast.FunctionDef, ast.AsyncFunctionDef, ast.Lambda, ast.ClassDef)) for x in ast.walk(callee.node) if x is not callee.node):
            return None
        # the yield must be a statement of its own
        fn2 = clone(callee.node)
        fn2.decorator_list = []
        marker = f"__cm_body_{self.counter + 1}__"
        found = [0]

        class _Mark(ast.NodeTransformer):
            def visit_Expr(self, node):
                if isinstance(node.value, ast.Yield):
                    found[0] += 1
                    return ast.copy_location(ast.Expr(value=ast.Name(id=marker, ctx=ast.Load())), node)
                return node

        _Mark().visit(fn2)
        if found[0] != 1:
            return None
        fake = dataclasses.replace(callee, node=fn2)
        try:
            stmts = self._expand(fi, fake, call, None, stack, depth)
        except _NoInline:
            return None
        # put the with-body where the marker is
        placed = [0]

        def place(lst: list[ast.stmt]) -> list[ast.stmt]:
            out: list[ast.stmt] = []
            for x in lst:
                if isinstance(x, ast.Expr) and isinstance(x.value, ast.Name) and x.value.id == marker:
                    placed[0] += 1
                    out.extend(st.body)
                    continue
                for fld in ("body", "orelse", "finalbody"):
                    sub = getattr(x, fld, None)
                    if isinstance(sub, list) and sub and isinstance(sub[0], ast.stmt):
                        setattr(x, fld, place(sub))
                out.append(x)
            return out

        res = place(stmts)
        if placed[0] != 1:
            return None
        return res

    def _hoist(self, cx: "_Ctx", e: ast.expr, stack: tuple[str, ...], depth: int) -> tuple[ast.expr, list[ast.stmt]]:
        pre: list[ast.stmt] = []

        def go(x: ast.AST, conditional: bool) -> ast.AST:
            if isinstance(x, ast.ListComp) and not conditional and len(x.generators) == 1 and not x.generators[0].is_async \
                    and self._calls_helper(cx, x.elt, stack):
                # sep.join([helper(i, s) for i, s in enumerate(xs)]): the list is built first, as a loop the helper can be spliced into
                self.counter += 1
                acc = f"__r{self.counter}"
                st_ = ast.copy_location(ast.Assign(targets=[ast.Name(id=acc, ctx=ast.Store())], value=x, type_comment=None), x)
                ast.fix_missing_locations(st_)
                pre.extend(self._stmt(cx, st_, stack, depth))
                return ast.copy_location(ast.Name(id=acc, ctx=ast.Load()), x)
            if isinstance(x, (ast.Lambda, ast.ListComp, ast.SetComp, ast.DictComp, ast.GeneratorExp)):
                return x
            if isinstance(x, ast.BoolOp):
                x.values = [go(v, conditional or i > 0) for i, v in enumerate(x.values)]
                return x
            if isinstance(x, ast.IfExp):
                x.test = go(x.test, conditional)
                x.body = go(x.body, True)
                x.orelse = go(x.orelse, True)
                return x
            for fld, val in ast.iter_fields(x):
                if isinstance(val, ast.AST):
                    setattr(x, fld, go(val, conditional))
                elif isinstance(val, list):
                    setattr(x, fld, [go(v, conditional) if isinstance(v, ast.AST) else v for v in val])
            if isinstance(x, ast.Call) and not conditional and self._reduce_target(cx, x, stack) is not None:
                # reduce(step, xs, init)   ->   acc = init; for item in xs: acc = step(acc, item)
                fname = self._reduce_target(cx, x, stack)
                self.counter += 1
                acc = f"__r{self.counter}"
                item = f"__r{self.counter}_item"
                init_ = ast.Assign(targets=[ast.Name(id=acc, ctx=ast.Store())], value=x.args[2], type_comment=None)
                step = ast.Assign(targets=[ast.Name(id=acc, ctx=ast.Store())],
                                  value=ast.Call(func=ast.Name(id=fname, ctx=ast.Load()), args=[ast.Name(id=acc, ctx=ast.Load()), ast.Name(id=item, ctx=ast.Load())], keywords=[]),
                                  type_comment=None)
                loop = ast.For(target=ast.Name(id=item, ctx=ast.Store()), iter=x.args[1], body=[step], orelse=[], type_comment=None)
                for n_ in (init_, loop):
                    ast.copy_location(n_, x)
                    ast.fix_missing_locations(n_)
                pre.append(init_)
                pre.extend(self._stmt(cx, loop, stack, depth))
                return ast.copy_location(ast.Name(id=acc, ctx=ast.Load()), x)
            if isinstance(x, ast.Call) and not conditional and isinstance(x.func, ast.Attribute) and x.func.attr == "join" \
                    and isinstance(x.func.value, (ast.Constant, ast.Name)) and len(x.args) == 1 and not x.keywords and isinstance(x.args[0], ast.Call):
                # sep.join(gen(...)): join drains the generator completely before it builds the string
                g = self._callee(cx.scope, x.args[0], stack, generator=True)
                if g is not None:
                    self.counter += 1
                    acc = f"__r{self.counter}"
                    try:
                        pre.extend(self._expand(cx.scope, g, x.args[0], None, stack, depth, collect=acc))
                    except _NoInline:
                        return x
                    x.args = [ast.copy_location(ast.Name(id=acc, ctx=ast.Load()), x.args[0])]
                    return x
            if isinstance(x, ast.Call) and not conditional and isinstance(x.func, ast.Name) and x.func.id in ("list", "tuple") \
                    and len(x.args) == 1 and not x.keywords and isinstance(x.args[0], ast.Call):
                g = self._callee(cx.scope, x.args[0], stack, generator=True)
                if g is not None:
                    self.counter += 1
                    acc = f"__r{self.counter}"
                    try:
                        pre.extend(self._expand(cx.scope, g, x.args[0], None, stack, depth, collect=acc))
                    except _NoInline:
                        return x
                    res: ast.expr = ast.Name(id=acc, ctx=ast.Load())
                    if x.func.id == "tuple":
                        res = ast.Call(func=ast.Name(id="tuple", ctx=ast.Load()), args=[res], keywords=[])
                    return ast.copy_location(res, x)
            if isinstance(x, ast.Call) and not conditional:
                c = self._resolve_in(cx, x, stack)
                if c is not None:
                    self.counter += 1
                    tmp = f"__r{self.counter}"
                    try:
                        pre.extend(self._expand(cx.scope, c, x, ast.Name(id=tmp, ctx=ast.Store()), stack, depth))
                    except _NoInline:
                        return x
                    return ast.copy_location(ast.Name(id=tmp, ctx=ast.Load()), x)
            return x

        new = go(e, False)
        return new, pre  # type: ignore[return-value]

    # ------------------------------------------------------------------ entry
    def inline_function(self, fi: FuncInfo) -> ast.FunctionDef | None:
        if isinstance(fi.node, ast.Lambda):
            return None
        before = self.stats["inlined_calls"]
        fn = clone(fi.node)
        fn.body = self._block(_Ctx(fi, fi), fn.body, (fi.qual,), 0)
        if self.stats["inlined_calls"] == before:
            return None
        ast.fix_missing_locations(fn)
        self.stats["functions_changed"] += 1
        return fn


class _NoInline(Exception):
    pass


class _Ctx:
    def __init__(self, scope: FuncInfo, _callee: FuncInfo) -> None:
        # name resolution for calls found in spliced code happens in the scope of the function that owns the text;
        # helpers are restricted to the caller's module, so the caller's scope resolves them identically
        self.scope = scope


def _own_expr_fields(st: ast.stmt) -> list[str]:
    if isinstance(st, (ast.Assign, ast.AugAssign, ast.AnnAssign, ast.Return, ast.Expr)):
        return ["value"]
    if isinstance(st, (ast.If, ast.While, ast.Assert)):
        return ["test"]
    if isinstance(st, (ast.For, ast.AsyncFor)):
        return ["iter"]
    if isinstance(st, ast.Raise):
        return ["exc"]
    return []


class _SetattrUnroller(ast.NodeTransformer):
    """for NAME in ("a", "b"): setattr(obj, NAME, V)   ->   obj.a = V; obj.b = V
    (the tuple may be a literal or a module-level constant of string literals; V must not mention NAME)."""

    def __init__(self, repo: Repo, fi: FuncInfo) -> None:
        self.repo = repo
        self.fi = fi
        self.count = 0

    def visit_FunctionDef(self, node):
        if node is self.fi.node:
            self.generic_visit(node)
        return node

    visit_AsyncFunctionDef = visit_FunctionDef

    def visit_Lambda(self, node):
        return node

    def _strings(self, it: ast.AST) -> list[str] | None:
        if isinstance(it, ast.Name):
            from .loader import ConstInfo

            r = self.repo.lookup(it.id, self.fi.module, self.fi)
            stored = any(isinstance(n, ast.Name) and n.id == it.id and isinstance(n.ctx, ast.Store) for n in ast.walk(self.fi.node))
            if isinstance(r, ConstInfo) and len(r.assigns) == 1 and not stored:
                it = getattr(r.assigns[0], "value", None)
        if isinstance(it, (ast.Tuple, ast.List)) and it.elts and all(isinstance(e, ast.Constant) and isinstance(e.value, str) and e.value.isidentifier() for e in it.elts):
            return [e.value for e in it.elts]  # type: ignore[attr-defined]
        return None

    def visit_For(self, node: ast.For):
        self.generic_visit(node)
        if node.orelse or not isinstance(node.target, ast.Name) or len(node.body) != 1:
            return node
        st = node.body[0]
        names = self._strings(node.iter)
        if names is None or not (isinstance(st, ast.Expr) and isinstance(st.value, ast.Call) and isinstance(st.value.func, ast.Name)
                                 and st.value.func.id == "setattr" and len(st.value.args) == 3 and not st.value.keywords):
            return node
        obj, key, val = st.value.args
        var = node.target.id
        if not (isinstance(key, ast.Name) and key.id == var) or any(isinstance(n, ast.Name) and n.id == var for n in ast.walk(val)) \
                or any(isinstance(n, ast.Name) and n.id == var for n in ast.walk(obj)) or any(isinstance(n, ast.Call) for n in ast.walk(val)):
            return node
        out = []
        for nm in names:
            tgt = ast.Attribute(value=clone(obj), attr=nm, ctx=ast.Store())
            out.append(ast.copy_location(ast.Assign(targets=[tgt], value=clone(val)), st))
        self.count += 1
        return out


class _ArgLoopUnroller(ast.NodeTransformer):
    """for long, dest in (("--a", "a"), ("--b", "b")): parser.add_argument(long, dest=dest, ...)
         ->   parser.add_argument("--a", dest="a", ...); parser.add_argument("--b", dest="b", ...)
    A `for` over a literal tuple / list of constants (or of equal-length tuples of constants) whose body is a short run of
    expression statements that only *read* the loop variables is written out element by element. (Used for the argparse
    declarations, which the CLI model reads literally.)"""

    def __init__(self, fi: FuncInfo) -> None:
        self.fi = fi
        self.count = 0

    def visit_FunctionDef(self, node):
        if node is self.fi.node:
            self.generic_visit(node)
        return node

    visit_AsyncFunctionDef = visit_FunctionDef

    def visit_Lambda(self, node):
        return node

    def visit_For(self, node: ast.For):
        self.generic_visit(node)
        it = node.iter
        if node.orelse or not isinstance(it, (ast.Tuple, ast.List)) or not it.elts or len(it.elts) > 16:
            return node
        tnames = [node.target.id] if isinstance(node.target, ast.Name) else (
            [e.id for e in node.target.elts] if isinstance(node.target, (ast.Tuple, ast.List)) and all(isinstance(e, ast.Name) for e in node.target.elts) else None)
        if tnames is None:
            return node
        rows: list[list[ast.AST]] = []
        for e in it.elts:
            if isinstance(node.target, ast.Name):
                if not isinstance(e, ast.Constant):
                    return node
                rows.append([e])
            else:
                if not (isinstance(e, (ast.Tuple, ast.List)) and len(e.elts) == len(tnames) and all(isinstance(x, ast.Constant) for x in e.elts)):
                    return node
                rows.append(list(e.elts))
        if len(node.body) > 4 or not all(isinstance(st, ast.Expr) and isinstance(st.value, ast.Call) for st in node.body):
            return node
        for st in node.body:
            for x in ast.walk(st):
                if isinstance(x, ast.Name) and x.id in tnames and not isinstance(x.ctx, ast.Load):
                    return node
                if isinstance(x, (ast.Lambda, ast.ListComp, ast.SetComp, ast.DictComp, ast.GeneratorExp, ast.NamedExpr, ast.Yield, ast.YieldFrom, ast.Await)):
                    return node
        # the loop variables must not be read after the loop
        out: list[ast.stmt] = []
        for row in rows:
            env = dict(zip(tnames, row))

            class _Sub(ast.NodeTransformer):
                def visit_Name(s2, n: ast.Name):  # noqa: N805
                    if n.id in env and isinstance(n.ctx, ast.Load):
                        return ast.copy_location(clone(env[n.id]), n)
                    return n

            for st in node.body:
                out.append(ast.copy_location(_Sub().visit(clone(st)), st))
        later_reads = False
        end_ = getattr(node, "end_lineno", 0)
        stores_after = {nm: sorted(getattr(x, "lineno", 0) for x in ast.walk(self.fi.node)
                                   if isinstance(x, ast.Name) and x.id == nm and isinstance(x.ctx, ast.Store) and getattr(x, "lineno", 0) > end_) for nm in tnames}
        for x in ast.walk(self.fi.node):
            if isinstance(x, ast.Name) and x.id in tnames and isinstance(x.ctx, ast.Load) and getattr(x, "lineno", 0) > end_:
                # read after the loop: harmless only if the name was bound again in between (a later loop reusing it)
                if not any(ln <= x.lineno for ln in stores_after[x.id]):
                    later_reads = True
        if later_reads:
            return node
        self.count += 1
        return out


def _first_rest_zip_idiom(fn) -> int:
    """for seg, ind in zip(xs, chain([a], repeat(b))): BODY      ->   for __zk, seg in enumerate(xs): ind = a if __zk == 0 else b; BODY
    for i, (seg, ind) in enumerate(zip(xs, chain([a], repeat(b)))):  ->   for i, seg in enumerate(xs): ind = a if i == 0 else b; BODY
    The second zip operand never runs out, so the loop ranges over xs; `a`, `b` are names / constants that the function binds at
    most once (parameters, closure variables), so reading them per trip gives what the literal list held. The chain may be
    bound to a local first (`indents = chain(...)`) if that local is used for nothing else."""
    count = 0

    def name_of(f: ast.AST) -> str:
        return f.id if isinstance(f, ast.Name) else (f.attr if isinstance(f, ast.Attribute) else "")

    def own_nodes():
        stack = list(fn.body)
        while stack:
            x = stack.pop()
            yield x
            for ch in ast.iter_child_nodes(x):
                if isinstance(ch, (ast.FunctionDef, ast.AsyncFunctionDef, ast.Lambda, ast.ClassDef)):
                    continue
                stack.append(ch)

    stores: dict[str, int] = {}
    for x in own_nodes():
        if isinstance(x, ast.Name) and isinstance(x.ctx, (ast.Store, ast.Del)):
            stores[x.id] = stores.get(x.id, 0) + 1

    def simple(e: ast.AST) -> bool:
        return isinstance(e, ast.Constant) or (isinstance(e, ast.Name) and stores.get(e.id, 0) <= 1)

    def first_rest(e: ast.AST):
        """(a, b) if e is chain([a], repeat(b))"""
        if isinstance(e, ast.Call) and name_of(e.func) == "chain" and len(e.args) == 2 and not e.keywords:
            l, r = e.args
            if isinstance(l, (ast.List, ast.Tuple)) and len(l.elts) == 1 and isinstance(r, ast.Call) and name_of(r.func) == "repeat" \
                    and len(r.args) == 1 and not r.keywords and simple(l.elts[0]) and simple(r.args[0]):
                return l.elts[0], r.args[0]
        return None

    # locals bound once to such a chain and read once
    chain_locals: dict[str, tuple] = {}
    for x in own_nodes():
        if isinstance(x, ast.Assign) and len(x.targets) == 1 and isinstance(x.targets[0], ast.Name) and stores.get(x.targets[0].id) == 1:
            fr = first_rest(x.value)
            nm = x.targets[0].id
            if fr is not None and sum(1 for y in ast.walk(fn) if isinstance(y, ast.Name) and y.id == nm and isinstance(y.ctx, ast.Load)) == 1:
                chain_locals[nm] = (fr, x)
    used_locals: list[ast.stmt] = []

    def rewrite(loop: ast.For) -> bool:
        it = loop.iter
        outer_i = None
        tgt = loop.target
        if isinstance(it, ast.Call) and name_of(it.func) == "enumerate" and len(it.args) == 1 and not it.keywords \
                and isinstance(tgt, ast.Tuple) and len(tgt.elts) == 2 and isinstance(tgt.elts[0], ast.Name):
            outer_i = tgt.elts[0].id
            it, tgt = it.args[0], tgt.elts[1]
        if not (isinstance(it, ast.Call) and name_of(it.func) == "zip" and len(it.args) == 2
                and all(k.arg == "strict" and isinstance(k.value, ast.Constant) and k.value.value is False for k in it.keywords)):
            return False
        if not (isinstance(tgt, (ast.Tuple, ast.List)) and len(tgt.elts) == 2 and isinstance(tgt.elts[1], ast.Name)):
            return False
        xs, second = it.args
        fr = first_rest(second)
        if fr is None and isinstance(second, ast.Name) and second.id in chain_locals:
            fr, assign = chain_locals[second.id]
            used_locals.append(assign)
        if fr is None:
            return False
        a, b = fr
        idx = outer_i or f"__zk{getattr(loop, 'lineno', 0)}"
        sel = ast.IfExp(test=ast.Compare(left=ast.Name(id=idx, ctx=ast.Load()), ops=[ast.Eq()], comparators=[ast.Constant(value=0)]),
                        body=clone(a), orelse=clone(b))
        first_stmt = ast.copy_location(ast.Assign(targets=[ast.Name(id=tgt.elts[1].id, ctx=ast.Store())], value=sel), loop)
        loop.target = ast.Tuple(elts=[ast.Name(id=idx, ctx=ast.Store()), tgt.elts[0]], ctx=ast.Store())
        loop.iter = ast.copy_location(ast.Call(func=ast.Name(id="enumerate", ctx=ast.Load()), args=[xs], keywords=[]), loop.iter)
        loop.body = [first_stmt] + loop.body
        return True

    for x in list(own_nodes()):
        if isinstance(x, ast.For) and not x.orelse and rewrite(x):
            count += 1
    if used_locals:
        class _Drop(ast.NodeTransformer):
            def visit_Assign(self, node):
                return None if any(node is u for u in used_locals) else node
        _Drop().visit(fn)
    if count:
        ast.fix_missing_locations(fn)
    return count


def _scalarise_map_lists(fn) -> int:
    """flags = [pred(x) for x in xs] ... flags[i] ... any(flags)      ->   ... pred(xs[i]) ... any(pred(x) for x in xs)
    if c: flags = [pred(x) for x in xs]  else: flags = [False] * len(xs)   ->   ... (pred(xs[i]) if c else False) ...
    "Classify every element once" tables: a local bound (once, or once per arm of one if/else) to an element-wise map of a
    list that the function never changes, and read only by position or through any()/all()/len(). Inside
    `for i, x in enumerate(xs)` the element xs[i] is written `x`. The map expression may call functions: they are taken
    to be pure predicates of their argument (that is what such a table is for)."""
    if isinstance(fn, ast.Lambda):
        return 0
    own = list(walk_no_nested(fn))
    stores: dict[str, int] = {}
    for x in own:
        if isinstance(x, ast.Name) and isinstance(x.ctx, (ast.Store, ast.Del)):
            stores[x.id] = stores.get(x.id, 0) + 1
    params = {a.arg for a in fn.args.posonlyargs + fn.args.args + fn.args.kwonlyargs}
    MUT = ("append", "extend", "insert", "pop", "remove", "clear", "sort", "reverse")

    def frozen_list(nm: str) -> bool:
        if stores.get(nm, 0) > (0 if nm in params else 1):
            return False
        for x in own:
            if isinstance(x, ast.Attribute) and isinstance(x.value, ast.Name) and x.value.id == nm and x.attr in MUT:
                return False
            if isinstance(x, ast.Subscript) and isinstance(x.value, ast.Name) and x.value.id == nm and isinstance(x.ctx, (ast.Store, ast.Del)):
                return False
        return True

    def stable(e: ast.AST, bound: set[str]) -> bool:
        for x in ast.walk(e):
            if isinstance(x, ast.Name) and x.id not in bound and stores.get(x.id, 0) > 1:
                return False
            if isinstance(x, (ast.Lambda, ast.ListComp, ast.SetComp, ast.DictComp, ast.GeneratorExp, ast.NamedExpr, ast.Yield, ast.YieldFrom, ast.Await, ast.Starred)):
                return False
        return True

    def as_map(v: ast.AST):
        """(elt, var, L) for [elt for var in L]"""
        if isinstance(v, ast.ListComp) and len(v.generators) == 1 and not v.generators[0].ifs and not v.generators[0].is_async \
                and isinstance(v.generators[0].target, ast.Name) and isinstance(v.generators[0].iter, ast.Name):
            g = v.generators[0]
            if frozen_list(g.iter.id) and stable(v.elt, {g.target.id}):
                return v.elt, g.target.id, g.iter.id
        return None

    def as_fill(v: ast.AST):
        """(const, L) for [const] * len(L)"""
        if isinstance(v, ast.BinOp) and isinstance(v.op, ast.Mult) and isinstance(v.left, ast.List) and len(v.left.elts) == 1 and isinstance(v.left.elts[0], ast.Constant) \
                and isinstance(v.right, ast.Call) and isinstance(v.right.func, ast.Name) and v.right.func.id == "len" and len(v.right.args) == 1 \
                and isinstance(v.right.args[0], ast.Name):
            return v.left.elts[0], v.right.args[0].id
        return None

    def single_assign(lst: list) -> ast.Assign | None:
        if len(lst) == 1 and isinstance(lst[0], ast.Assign) and len(lst[0].targets) == 1 and isinstance(lst[0].targets[0], ast.Name):
            return lst[0]
        return None

    # candidates: name -> (builder(idx_expr) -> expr, any_builder | None, L, statements to drop)
    cands: dict[str, tuple] = {}
    for lst in _blocks_of(fn):
        for st in lst:
            if isinstance(st, ast.Assign) and len(st.targets) == 1 and isinstance(st.targets[0], ast.Name) and stores.get(st.targets[0].id) == 1:
                m = as_map(st.value)
                if m is not None:
                    cands[st.targets[0].id] = ("map", m, None, None, st, lst)
            if isinstance(st, ast.If) and st.orelse:
                a, b = single_assign(st.body), single_assign(st.orelse)
                if a is not None and b is not None and a.targets[0].id == b.targets[0].id and stores.get(a.targets[0].id) == 2 and stable(st.test, set()):
                    ma, mb = as_map(a.value), as_map(b.value)
                    fa, fb = as_fill(a.value), as_fill(b.value)
                    if ma is not None and fb is not None and fb[1] == ma[2]:
                        cands[a.targets[0].id] = ("cond", ma, st.test, fb[0], st, lst)
                    elif mb is not None and fa is not None and fa[1] == mb[2]:
                        cands[a.targets[0].id] = ("cond", mb, ast.UnaryOp(op=ast.Not(), operand=st.test), fa[0], st, lst)
    if not cands:
        return 0
    # enumerate loops: (index name, element name, list name, loop)
    enum_loops = []
    for x in own:
        if isinstance(x, ast.For) and isinstance(x.iter, ast.Call) and isinstance(x.iter.func, ast.Name) and x.iter.func.id == "enumerate" \
                and len(x.iter.args) == 1 and not x.iter.keywords and isinstance(x.iter.args[0], ast.Name) \
                and isinstance(x.target, ast.Tuple) and len(x.target.elts) == 2 and all(isinstance(t, ast.Name) for t in x.target.elts) \
                and stores.get(x.target.elts[0].id) == 1 and stores.get(x.target.elts[1].id) == 1:
            enum_loops.append((x.target.elts[0].id, x.target.elts[1].id, x.iter.args[0].id, x))
    done = 0
    for nm, (kind, (elt, var, L), cond, fill, st, lst) in cands.items():
        uses = [x for x in own if isinstance(x, ast.Name) and x.id == nm and isinstance(x.ctx, ast.Load)]
        plan = []
        ok = True
        for u in uses:
            par = parent_of(fn, u)
            if isinstance(par, ast.Subscript) and par.value is u and isinstance(par.ctx, ast.Load) and not isinstance(par.slice, ast.Slice):
                plan.append(("idx", par))
            elif isinstance(par, ast.Call) and isinstance(par.func, ast.Name) and par.func.id in ("any", "all") and par.args == [u] and not par.keywords and kind == "map":
                plan.append(("anyall", par))
            elif isinstance(par, ast.Call) and isinstance(par.func, ast.Name) and par.func.id == "len" and par.args == [u]:
                plan.append(("len", par))
            else:
                ok = False
        if not ok or not plan:
            continue

        def elem(idx: ast.expr, at: ast.AST) -> ast.expr:
            if isinstance(idx, ast.Name):
                for i_, x_, l_, loop in enum_loops:
                    if l_ == L and i_ == idx.id and any(y is at for y in ast.walk(loop)):
                        return ast.Name(id=x_, ctx=ast.Load())
            return ast.Subscript(value=ast.Name(id=L, ctx=ast.Load()), slice=clone(idx), ctx=ast.Load())

        for what, node in plan:
            if what == "idx":
                sub = elem(node.slice, node)
                new = _Renamer_expr(clone(elt), var, sub)
                if kind == "cond":
                    new = ast.IfExp(test=clone(cond), body=new, orelse=clone(fill))
            elif what == "anyall":
                new = ast.Call(func=node.func, args=[ast.GeneratorExp(elt=clone(elt), generators=[ast.comprehension(
                    target=ast.Name(id=var, ctx=ast.Store()), iter=ast.Name(id=L, ctx=ast.Load()), ifs=[], is_async=0)])], keywords=[])
            else:
                new = ast.Call(func=node.func, args=[ast.Name(id=L, ctx=ast.Load())], keywords=[])
            _replace_node(fn, node, ast.copy_location(new, node))
        if st in lst:
            lst.remove(st)
            if not lst:
                lst.append(ast.copy_location(ast.Pass(), st))
        done += 1
    if done:
        ast.fix_missing_locations(fn)
    return done


def _Renamer_expr(e: ast.expr, var: str, by: ast.expr) -> ast.expr:
    class _S(ast.NodeTransformer):
        def visit_Name(self, n):
            return ast.copy_location(clone(by), n) if n.id == var and isinstance(n.ctx, ast.Load) else n
    return _S().visit(e)


def _replace_node(fn, old: ast.AST, new: ast.AST) -> None:
    for x in ast.walk(fn):
        for fld, val in ast.iter_fields(x):
            if val is old:
                setattr(x, fld, new)
                return
            if isinstance(val, list):
                for i, v in enumerate(val):
                    if v is old:
                        val[i] = new
                        return


def _fold_forwarders(work: Repo) -> int:
    """def reformat_text(text, width=88, ...): return _impl(text, width=width, ...)      (a public front)
       ... _impl(t, width=w, ...) elsewhere in the module   ->   reformat_text(t, width=w, ...)
    and the same when the front first packs some of its parameters into small records:
       def reformat_file(path, output, width=88, ...):
           fmt = _Fmt(width=width, ...); _run(path, output, fmt)
       ... _run(p, o, f) elsewhere   ->   reformat_file(path=p, output=o, width=f.width, ...)
    A module-level public function whose whole body forwards its own parameters - each at most once, directly or as fields
    of freshly built plain records - to one private function of the same module is that function under its public name.
    Calls of the private function from elsewhere in the module are written as calls of the front (arguments the private
    function defaults must be defaulted to the same value by the front). The call graph then reads public-to-public, as it
    did before the implementation was split off; the private function itself is spliced into the front by the inliner."""
    count = 0
    for mod in work.modules.values():
        funcs = {n.name: n for n in mod.tree.body if isinstance(n, ast.FunctionDef)}
        classes = {n.name: n for n in mod.tree.body if isinstance(n, ast.ClassDef)}

        def plain_record(c: ast.ClassDef) -> list[str] | None:
            decos = [ast.unparse(d) for d in c.decorator_list]
            bases = [ast.unparse(b) for b in c.bases]
            if not (any("dataclass" in d for d in decos) or any(b.endswith("NamedTuple") for b in bases)):
                return None
            if any(isinstance(st, ast.FunctionDef) and st.name in ("__init__", "__post_init__", "__new__") for st in c.body):
                return None
            return [st.target.id for st in c.body if isinstance(st, ast.AnnAssign) and isinstance(st.target, ast.Name)]

        fronts: dict[str, list] = {}   # private name -> [(front def, fparam -> ("p", pname) | ("r", {field: pname}))]
        for P in funcs.values():
            if P.name.startswith("_") or P.decorator_list or P.args.vararg or P.args.kwarg or P.args.posonlyargs:
                continue
            body = [st for st in P.body if not (isinstance(st, ast.Expr) and isinstance(st.value, ast.Constant) and isinstance(st.value.value, str))]
            if not body:
                continue
            pparams = [a.arg for a in P.args.args + P.args.kwonlyargs]
            used: list[str] = []
            recs: dict[str, dict[str, str]] = {}
            ok = True
            for st in body[:-1]:
                if not (isinstance(st, ast.Assign) and len(st.targets) == 1 and isinstance(st.targets[0], ast.Name) and isinstance(st.value, ast.Call)
                        and isinstance(st.value.func, ast.Name) and st.value.func.id in classes):
                    ok = False
                    break
                fields = plain_record(classes[st.value.func.id])
                if fields is None:
                    ok = False
                    break
                fm: dict[str, str] = {}
                for i, a in enumerate(st.value.args):
                    if isinstance(a, ast.Name) and a.id in pparams and i < len(fields):
                        fm[fields[i]] = a.id
                    else:
                        ok = False
                for k in st.value.keywords:
                    if k.arg and isinstance(k.value, ast.Name) and k.value.id in pparams and k.arg in fields:
                        fm[k.arg] = k.value.id
                    else:
                        ok = False
                if set(fm) != set(fields):
                    ok = False
                used += list(fm.values())
                recs[st.targets[0].id] = fm
            if not ok:
                continue
            last = body[-1]
            call = last.value if isinstance(last, (ast.Return, ast.Expr)) else None
            if not (isinstance(call, ast.Call) and isinstance(call.func, ast.Name) and call.func.id in funcs and call.func.id.startswith("_")):
                continue
            F = funcs[call.func.id]
            if F is P or F.args.vararg or F.args.kwarg or F.decorator_list or any(isinstance(a, ast.Starred) for a in call.args) or any(k.arg is None for k in call.keywords):
                continue
            fpos = [a.arg for a in F.args.posonlyargs + F.args.args]
            fall = fpos + [a.arg for a in F.args.kwonlyargs]
            bound: dict[str, ast.expr] = {}
            for i, a in enumerate(call.args):
                if i >= len(fpos):
                    ok = False
                    break
                bound[fpos[i]] = a
            for k in call.keywords:
                if k.arg not in fall or k.arg in bound:
                    ok = False
                else:
                    bound[k.arg] = k.value
            if not ok:
                continue
            def record_fields_from(callx: ast.AST) -> dict[str, str] | None:
                """{field: P-param} when `callx` builds a plain record from P's own parameters"""
                if not (isinstance(callx, ast.Call) and isinstance(callx.func, ast.Name) and callx.func.id in classes):
                    return None
                flds_ = plain_record(classes[callx.func.id])
                if flds_ is None:
                    return None
                fm_: dict[str, str] = {}
                for i_, a_ in enumerate(callx.args):
                    if isinstance(a_, ast.Name) and a_.id in pparams and i_ < len(flds_):
                        fm_[flds_[i_]] = a_.id
                    else:
                        return None
                for k_ in callx.keywords:
                    if k_.arg and isinstance(k_.value, ast.Name) and k_.value.id in pparams and k_.arg in flds_:
                        fm_[k_.arg] = k_.value.id
                    else:
                        return None
                return fm_ if set(fm_) == set(flds_) else None

            mapping: dict[str, tuple] = {}
            for fp, a in bound.items():
                inline_rec = record_fields_from(a)
                if inline_rec is not None:
                    mapping[fp] = ("r", inline_rec)
                    used += list(inline_rec.values())
                elif isinstance(a, ast.Name) and a.id in recs:
                    mapping[fp] = ("r", recs.pop(a.id))
                elif isinstance(a, ast.Name) and a.id in pparams:
                    mapping[fp] = ("p", a.id)
                    used.append(a.id)
                else:
                    ok = False
            if not ok or recs or len(used) != len(set(used)):
                continue
            fronts.setdefault(F.name, []).append((P, mapping))

        def default_of(fn: ast.FunctionDef, name: str) -> str | None:
            pos = fn.args.posonlyargs + fn.args.args
            d = dict(zip([a.arg for a in pos][len(pos) - len(fn.args.defaults):], fn.args.defaults))
            for a, dv in zip(fn.args.kwonlyargs, fn.args.kw_defaults):
                if dv is not None:
                    d[a.arg] = dv
            return ast.unparse(d[name]) if name in d else None

        for fname, lst in fronts.items():
            if len(lst) != 1:
                continue  # two public names for one implementation: neither is *the* front
            P, mapping = lst[0]
            F = funcs[fname]
            fpos = [a.arg for a in F.args.posonlyargs + F.args.args]
            fall = fpos + [a.arg for a in F.args.kwonlyargs]
            for holder in [n for n in ast.walk(mod.tree) if isinstance(n, (ast.FunctionDef, ast.AsyncFunctionDef)) and n is not P and n is not F]:
                if any(isinstance(x, ast.Name) and x.id == P.name and isinstance(x.ctx, ast.Store) for x in ast.walk(holder)):
                    continue
                for c in [x for x in ast.walk(holder) if isinstance(x, ast.Call) and isinstance(x.func, ast.Name) and x.func.id == fname]:
                    if any(isinstance(a, ast.Starred) for a in c.args) or any(k.arg is None for k in c.keywords) or len(c.args) > len(fpos):
                        continue
                    got: dict[str, ast.expr] = {fpos[i]: a for i, a in enumerate(c.args)}
                    bad = False
                    for k in c.keywords:
                        if k.arg not in fall or k.arg in got:
                            bad = True
                        else:
                            got[k.arg] = k.value
                    kws: list[ast.keyword] = []
                    for fp in fall:
                        m = mapping.get(fp)
                        if fp in got:
                            if m is None:
                                bad = True  # the front does not pass this one: it cannot be said through the front
                            elif m[0] == "p":
                                kws.append(ast.keyword(arg=m[1], value=got[fp]))
                            else:
                                if not isinstance(got[fp], ast.Name):
                                    bad = True
                                    continue
                                for fld, pn in m[1].items():
                                    kws.append(ast.keyword(arg=pn, value=ast.Attribute(value=ast.Name(id=got[fp].id, ctx=ast.Load()), attr=fld, ctx=ast.Load())))
                        else:
                            # defaulted by the implementation: the front must default it to the same value
                            if m is None:
                                continue
                            if m[0] != "p" or default_of(F, fp) is None or default_of(F, fp) != default_of(P, m[1]):
                                bad = True
                    if bad:
                        continue
                    c.func = ast.copy_location(ast.Name(id=P.name, ctx=ast.Load()), c.func)
                    c.args = []
                    c.keywords = [ast.copy_location(k, c) for k in kws]
                    count += 1
        if count:
            ast.fix_missing_locations(mod.tree)
    return count


def _unbox_record_returns(work: Repo) -> int:
    """def _parse(...) -> _Parsed: ... return _Parsed(options=o, flags=f)        ->   return (o, f)
       parsed = _parse(args) ... parsed.options ... parsed.flags               ->   parsed__options, parsed__flags = _parse(args) ...
    A private module-level function whose every return builds a fresh plain record (NamedTuple / dataclass without custom
    construction) of the same module, called only in the form `v = f(...)` with `v` then read field by field (or already
    unpacked like a tuple): the record never exists as an object anybody could observe, it is the tuple of its fields."""
    count = 0
    for mod in work.modules.values():
        funcs = {n.name: n for n in mod.tree.body if isinstance(n, ast.FunctionDef)}
        classes = {n.name: n for n in mod.tree.body if isinstance(n, ast.ClassDef)}

        def fields_of(c: ast.ClassDef) -> list[str] | None:
            decos = [ast.unparse(d) for d in c.decorator_list]
            bases = [ast.unparse(b) for b in c.bases]
            if not (any("dataclass" in d for d in decos) or any(b.endswith("NamedTuple") for b in bases)):
                return None
            if any(isinstance(st, (ast.FunctionDef, ast.AsyncFunctionDef)) for st in c.body):
                return None  # methods / properties could be called on the record
            return [st.target.id for st in c.body if isinstance(st, ast.AnnAssign) and isinstance(st.target, ast.Name)]

        for F in funcs.values():
            if not F.name.startswith("_") or F.name.startswith("__") or F.decorator_list or _is_generator(F):
                continue
            rets = [n for n in walk_no_nested(F) if isinstance(n, ast.Return)]
            if not rets:
                continue
            rec = None
            plans = []
            ok = True
            for r in rets:
                v = r.value
                if not (isinstance(v, ast.Call) and isinstance(v.func, ast.Name) and v.func.id in classes):
                    ok = False
                    break
                if rec is None:
                    rec = v.func.id
                if v.func.id != rec:
                    ok = False
                    break
                flds = fields_of(classes[rec])
                if flds is None or any(isinstance(a, ast.Starred) for a in v.args) or any(k.arg is None for k in v.keywords):
                    ok = False
                    break
                m: dict[str, ast.expr] = {}
                for i, a in enumerate(v.args):
                    if i < len(flds):
                        m[flds[i]] = a
                for k in v.keywords:
                    m[k.arg] = k.value
                if set(m) != set(flds) or len(v.args) > len(flds):
                    ok = False
                    break
                plans.append((r, [m[f] for f in flds]))
            if not ok or rec is None:
                continue
            flds = fields_of(classes[rec])
            # every mention of F, anywhere in the package
            sites = []
            for m2 in work.modules.values():
                for holder in [n for n in ast.walk(m2.tree) if isinstance(n, (ast.FunctionDef, ast.AsyncFunctionDef, ast.Module))]:
                    body_nodes = list(walk_no_nested(holder)) if not isinstance(holder, ast.Module) else [x for st in holder.body if not isinstance(st, (ast.FunctionDef, ast.AsyncFunctionDef, ast.ClassDef)) for x in ast.walk(st)]
                    for x in body_nodes:
                        if isinstance(x, ast.Name) and x.id == F.name and isinstance(x.ctx, ast.Load):
                            if m2 is not mod and not any(isinstance(i_, ast.ImportFrom) and any(a.name == F.name for a in i_.names) for i_ in ast.walk(m2.tree)):
                                continue  # a different function of the same name in another module
                            sites.append((m2, holder, x))
            rewrites = []
            for m2, holder, x in sites:
                if m2 is not mod or isinstance(holder, ast.Module):
                    ok = False
                    break
                call = parent_of(holder, x)
                if not (isinstance(call, ast.Call) and call.func is x):
                    ok = False
                    break
                st = parent_of(holder, call)
                if not (isinstance(st, ast.Assign) and st.value is call and len(st.targets) == 1):
                    ok = False
                    break
                t = st.targets[0]
                if isinstance(t, (ast.Tuple, ast.List)) and len(t.elts) == len(flds) and not any(isinstance(e, ast.Starred) for e in t.elts) \
                        and any(b.endswith("NamedTuple") for b in [ast.unparse(b_) for b_ in classes[rec].bases]):
                    continue  # already unpacked like a tuple
                if not isinstance(t, ast.Name):
                    ok = False
                    break
                v = t.id
                own = list(walk_no_nested(holder))
                if sum(1 for y in own if isinstance(y, ast.Name) and y.id == v and isinstance(y.ctx, (ast.Store, ast.Del))) != 1:
                    ok = False
                    break
                if any(isinstance(y, ast.Name) and y.id == v for n2 in ast.walk(holder) if n2 is not holder and isinstance(n2, (ast.FunctionDef, ast.AsyncFunctionDef, ast.Lambda)) for y in ast.walk(n2)):
                    ok = False
                    break
                reads = [y for y in own if isinstance(y, ast.Name) and y.id == v and isinstance(y.ctx, ast.Load)]
                attrs = []
                for y in reads:
                    pa = parent_of(holder, y)
                    if isinstance(pa, ast.Attribute) and pa.value is y and isinstance(pa.ctx, ast.Load) and pa.attr in flds:
                        attrs.append(pa)
                    else:
                        ok = False
                if not ok:
                    break
                rewrites.append((holder, st, v, attrs))
            if not ok or not sites:
                continue
            for r, exprs in plans:
                r.value = ast.copy_location(ast.Tuple(elts=exprs, ctx=ast.Load()), r.value)
            for holder, st, v, attrs in rewrites:
                st.targets = [ast.copy_location(ast.Tuple(elts=[ast.Name(id=f"{v}__{f}", ctx=ast.Store()) for f in flds], ctx=ast.Store()), st.targets[0])]
                for a in attrs:
                    _replace_node(holder, a, ast.copy_location(ast.Name(id=f"{v}__{a.attr}", ctx=ast.Load()), a))
            F.returns = None
            count += 1
        if count:
            ast.fix_missing_locations(mod.tree)
    return count


def _expand_dict_kwargs(fn) -> int:
    """shared = {"width": width, "semantic": semantic}; f(x, **shared)   ->   f(x, width=width, semantic=semantic)
    for a local bound once to a dict literal with constant string keys whose values are names never rebound in the function
    (or constants), and that is used for nothing but `**`-unpacking into calls."""
    if isinstance(fn, ast.Lambda):
        return 0
    stores: dict[str, int] = {}
    for n in ast.walk(fn):
        if isinstance(n, ast.Name) and isinstance(n.ctx, (ast.Store, ast.Del)):
            stores[n.id] = stores.get(n.id, 0) + 1
    count = 0
    for st in [x for x in walk_no_nested(fn) if isinstance(x, (ast.Assign,))]:
        if len(st.targets) == 1 and isinstance(st.targets[0], ast.Name) and isinstance(st.value, ast.Call) and isinstance(st.value.func, ast.Name) \
                and st.value.func.id == "dict" and not st.value.args and st.value.keywords and all(k.arg for k in st.value.keywords):
            # dict(width=width, ...) is the literal {"width": width, ...}
            st.value = ast.copy_location(ast.Dict(keys=[ast.Constant(value=k.arg) for k in st.value.keywords], values=[k.value for k in st.value.keywords]), st.value)
            ast.fix_missing_locations(st)
        if not (len(st.targets) == 1 and isinstance(st.targets[0], ast.Name) and isinstance(st.value, ast.Dict)):
            continue
        v = st.targets[0].id
        d = st.value
        if stores.get(v) != 1 or not d.keys or any(not (isinstance(k, ast.Constant) and isinstance(k.value, str) and k.value.isidentifier()) for k in d.keys):
            continue
        if any(not (isinstance(x, ast.Constant) or (isinstance(x, ast.Name) and stores.get(x.id, 0) == 0)) for x in d.values):
            continue
        loads = [x for x in ast.walk(fn) if isinstance(x, ast.Name) and x.id == v and isinstance(x.ctx, ast.Load)]
        star_uses = [(c, k) for c in ast.walk(fn) if isinstance(c, ast.Call) for k in c.keywords if k.arg is None and isinstance(k.value, ast.Name) and k.value.id == v]
        if not star_uses or len(loads) != len(star_uses):
            continue
        for c, k in star_uses:
            explicit = {kw.arg for kw in c.keywords if kw.arg}
            if explicit & {key.value for key in d.keys}:
                break
        else:
            for c, k in star_uses:
                i = c.keywords.index(k)
                c.keywords[i:i + 1] = [ast.copy_location(ast.keyword(arg=key.value, value=clone(val)), k.value) for key, val in zip(d.keys, d.values)]
            for holder in ast.walk(fn):
                for fld in ("body", "orelse", "finalbody"):
                    lst = getattr(holder, fld, None)
                    if isinstance(lst, list) and st in lst:
                        lst.remove(st)
                        if not lst:
                            lst.append(ast.copy_location(ast.Pass(), st))
            count += 1
    return count


class _PartialFolder(ast.NodeTransformer):
    """f = partial(g, a, k=v) ... f(x, y=z)   ->   g(a, x, k=v, y=z)
    for a local `f` that is bound once, only ever called, and whose frozen arguments are constants or names that are never
    rebound in the function (so evaluating them at the call instead of at partial() makes no difference)."""

    def __init__(self, fn: ast.AST) -> None:
        self.fn = fn
        self.count = 0
        self.partials: dict[str, ast.Call] = {}
        stores: dict[str, int] = {}
        for n in ast.walk(fn):
            if isinstance(n, ast.Name) and isinstance(n.ctx, (ast.Store, ast.Del)):
                stores[n.id] = stores.get(n.id, 0) + 1
        a = fn.args
        params = {x.arg for x in a.posonlyargs + a.args + a.kwonlyargs}
        for n in walk_no_nested(fn):
            if isinstance(n, ast.Assign) and len(n.targets) == 1 and isinstance(n.targets[0], ast.Name) and isinstance(n.value, ast.Call):
                f = n.value.func
                is_partial = (isinstance(f, ast.Name) and f.id == "partial") or (isinstance(f, ast.Attribute) and f.attr == "partial" and isinstance(f.value, ast.Name) and f.value.id == "functools")
                name = n.targets[0].id
                if not is_partial or not n.value.args or stores.get(name, 0) != 1 or name in params:
                    continue
                frozen = list(n.value.args[1:]) + [k.value for k in n.value.keywords]
                if any(k.arg is None for k in n.value.keywords) or any(isinstance(x, ast.Starred) for x in n.value.args):
                    continue

                def stable(e: ast.AST) -> bool:
                    if isinstance(e, ast.Constant):
                        return True
                    if isinstance(e, ast.Name):
                        return stores.get(e.id, 0) == 0  # parameters and globals never rebound here
                    if isinstance(e, ast.Attribute):
                        return stable(e.value)
                    return False
                if not all(stable(x) for x in frozen) or not isinstance(n.value.args[0], (ast.Name, ast.Attribute)):
                    continue
                # only ever called
                uses = [x for x in ast.walk(fn) if isinstance(x, ast.Name) and x.id == name and isinstance(x.ctx, ast.Load)]
                calls = [x for x in ast.walk(fn) if isinstance(x, ast.Call) and isinstance(x.func, ast.Name) and x.func.id == name]
                if uses and len(uses) == len(calls):
                    self.partials[name] = n.value

    def visit_Call(self, node: ast.Call) -> ast.AST:
        self.generic_visit(node)
        if isinstance(node.func, ast.Name) and node.func.id in self.partials and not any(isinstance(a, ast.Starred) for a in node.args) \
                and not any(k.arg is None for k in node.keywords):
            p = self.partials[node.func.id]
            own = {k.arg for k in node.keywords}
            kws = [ast.keyword(arg=k.arg, value=clone(k.value)) for k in p.keywords if k.arg not in own] + list(node.keywords)
            new = ast.Call(func=clone(p.args[0]), args=[clone(a) for a in p.args[1:]] + list(node.args), keywords=kws)
            self.count += 1
            return ast.copy_location(new, node)
        return node


class _ClassToClosure:
    """A small callable class used as a closure is rewritten back into one:

        @dataclass(frozen=True)                      def factory(width, base):
        class _W:                                        def __c1___call__(text):
            width: int                          ->           return base(text, width)
            base: Wrapper                                return __c1___call__
            def __call__(self, text): return self.base(text, self.width)
        def factory(width, base): return _W(width, base)

    Conditions (else the site is left alone): the class has `__call__`, no base classes other than object / Protocol, its
    fields are bound once (dataclass fields without __post_init__, or an __init__ made of `self.f = param` lines only), no
    method stores to `self.<x>`, `self` is only used as `self.<field>` or `self.<method>(...)`, the constructor arguments
    are plain names, constants or attribute chains of names that the enclosing function never rebinds, and the
    instantiation happens inside a function. Instance identity and isinstance() of the object are not preserved - nothing
    in the analysed rules asks for them."""

    def __init__(self, repo: Repo) -> None:
        self.repo = repo
        self.count = 0
        self.n = 0

    def fields_of(self, ci) -> tuple[list[str], dict[str, ast.expr | None]] | None:
        node = ci.node
        if any(not (isinstance(b, ast.Name) and b.id in ("object", "Protocol")) for b in node.bases) or node.keywords:
            return None
        if "__call__" not in ci.methods or self.repo.subclasses_of(ci):
            return None
        decos = [ast.unparse(d) for d in node.decorator_list]
        methods = {n.name: n for n in node.body if isinstance(n, (ast.FunctionDef,))}
        if any(isinstance(n, (ast.AsyncFunctionDef, ast.ClassDef)) for n in node.body):
            return None
        for name, m in methods.items():
            if m.decorator_list or (name.startswith("__") and name not in ("__call__", "__init__")):
                return None
        order: list[str] = []
        defaults: dict[str, ast.expr | None] = {}
        if "__init__" in methods:
            init = methods["__init__"]
            a = init.args
            if a.vararg or a.kwarg or a.kwonlyargs or a.posonlyargs or not a.args:
                return None
            selfn = a.args[0].arg
            params = [x.arg for x in a.args[1:]]
            dflt = dict(zip(reversed(params), reversed(a.defaults)))
            attr_of: dict[str, str] = {}
            for st in init.body:
                if isinstance(st, ast.Expr) and isinstance(st.value, ast.Constant):
                    continue
                tgt = st.targets[0] if isinstance(st, ast.Assign) and len(st.targets) == 1 else (st.target if isinstance(st, ast.AnnAssign) else None)
                val = getattr(st, "value", None)
                if not (isinstance(tgt, ast.Attribute) and isinstance(tgt.value, ast.Name) and tgt.value.id == selfn and isinstance(val, ast.Name) and val.id in params):
                    return None
                attr_of[val.id] = tgt.attr
            if set(attr_of) != set(params):
                return None
            order = [attr_of[p_] for p_ in params]
            defaults = {attr_of[p_]: dflt.get(p_) for p_ in params}
            self._param_names = {attr_of[p_]: p_ for p_ in params}
        elif any("dataclass" in d for d in decos):
            if "__post_init__" in methods:
                return None
            for st in node.body:
                if isinstance(st, ast.AnnAssign) and isinstance(st.target, ast.Name):
                    order.append(st.target.id)
                    defaults[st.target.id] = st.value
                elif isinstance(st, ast.Assign):
                    return None
            self._param_names = {f: f for f in order}
        else:
            return None
        # methods: no stores to self.x, self only as self.field / self.method(...)
        for name, m in methods.items():
            if name == "__init__":
                continue
            if not m.args.args:
                return None
            selfn = m.args.args[0].arg
            for x in ast.walk(m):
                if isinstance(x, ast.Attribute) and isinstance(x.value, ast.Name) and x.value.id == selfn:
                    if isinstance(x.ctx, (ast.Store, ast.Del)) or (x.attr not in order and x.attr not in methods):
                        return None
            uses = sum(1 for x in ast.walk(m) if isinstance(x, ast.Name) and x.id == selfn)
            attr_uses = sum(1 for x in ast.walk(m) if isinstance(x, ast.Attribute) and isinstance(x.value, ast.Name) and x.value.id == selfn)
            if uses != attr_uses:
                return None
            if any(isinstance(x, (ast.FunctionDef, ast.AsyncFunctionDef, ast.Lambda, ast.ClassDef)) for x in ast.walk(m) if x is not m):
                return None
        return order, defaults

    def convert_function(self, fi: FuncInfo) -> bool:
        fn = fi.node
        if isinstance(fn, ast.Lambda):
            return False
        stores: dict[str, int] = {}
        for n in ast.walk(fn):
            if isinstance(n, ast.Name) and isinstance(n.ctx, (ast.Store, ast.Del)):
                stores[n.id] = stores.get(n.id, 0) + 1
        changed = False

        def stable(e: ast.AST) -> bool:
            if isinstance(e, ast.Constant):
                return True
            if isinstance(e, ast.Name):
                return stores.get(e.id, 0) <= 1
            if isinstance(e, ast.Attribute):
                return stable(e.value) and isinstance(e.value, ast.Name)
            return False

        def rewrite_block(block: list[ast.stmt]) -> list[ast.stmt]:
            nonlocal changed
            out: list[ast.stmt] = []
            for st in block:
                for fld in ("body", "orelse", "finalbody"):
                    sub = getattr(st, fld, None)
                    if isinstance(sub, list) and sub and isinstance(sub[0], ast.stmt) and not isinstance(st, (ast.FunctionDef, ast.AsyncFunctionDef, ast.ClassDef)):
                        setattr(st, fld, rewrite_block(sub))
                if isinstance(st, ast.Try):
                    for h in st.handlers:
                        h.body = rewrite_block(h.body)
                if isinstance(st, (ast.Assign, ast.AnnAssign, ast.Return, ast.Expr)) and getattr(st, "value", None) is not None:
                    pre: list[ast.stmt] = []
                    for call in [x for x in walk_no_nested(st.value) if isinstance(x, ast.Call)]:
                        ci = self.repo.resolve_expr(call.func, fi.module, fi) if isinstance(call.func, (ast.Name, ast.Attribute)) else None
                        from .loader import ClassInfo
                        if not isinstance(ci, ClassInfo) or ci.module.name.split(".")[0] != fi.module.name.split(".")[0]:
                            continue
                        fo = self.fields_of(ci)
                        if fo is None:
                            continue
                        order, defaults = fo
                        if any(isinstance(a, ast.Starred) for a in call.args) or any(k.arg is None for k in call.keywords) or len(call.args) > len(order):
                            continue
                        pn = self._param_names
                        bound: dict[str, ast.expr] = {}
                        for f_, a in zip(order, call.args):
                            bound[f_] = a
                        ok = True
                        for k in call.keywords:
                            f_ = next((f2 for f2 in order if pn[f2] == k.arg), None)
                            if f_ is None or f_ in bound:
                                ok = False
                                break
                            bound[f_] = k.value
                        for f_ in order:
                            if f_ not in bound:
                                d = defaults.get(f_)
                                if d is None or not isinstance(d, ast.Constant):
                                    ok = False
                                    break
                                bound[f_] = d
                        if not ok or not all(stable(v) for v in bound.values()):
                            continue
                        self.n += 1
                        tag = f"_c{self.n}_"
                        methods = {n.name: n for n in ci.node.body if isinstance(n, ast.FunctionDef) and n.name != "__init__"}
                        # private methods first, __call__ last
                        for name in sorted(methods, key=lambda nm: nm == "__call__"):
                            m = clone(methods[name])
                            selfn = m.args.args[0].arg
                            m.args.args = m.args.args[1:]
                            m.name = tag + name
                            m.decorator_list = []

                            class _Sub(ast.NodeTransformer):
                                def visit_Attribute(s2, node: ast.Attribute) -> ast.AST:  # noqa: N805
                                    s2.generic_visit(node)
                                    if isinstance(node.value, ast.Name) and node.value.id == selfn:
                                        if node.attr in bound:
                                            return ast.copy_location(clone(bound[node.attr]), node)
                                        if node.attr in methods:
                                            return ast.copy_location(ast.Name(id=tag + node.attr, ctx=ast.Load()), node)
                                    return node

                            m = _Sub().visit(m)
                            # a parameter or local of the method that shadows a substituted name would capture it
                            local = _local_names(m)
                            free_new = {x.id for v in bound.values() for x in ast.walk(v) if isinstance(x, ast.Name)}
                            if local & free_new:
                                ok = False
                                break
                            pre.append(ast.copy_location(m, st))
                        if not ok:
                            continue
                        new_name = ast.copy_location(ast.Name(id=tag + "__call__", ctx=ast.Load()), call)
                        for parent_node in ast.walk(st):
                            for fld, val in ast.iter_fields(parent_node):
                                if val is call:
                                    setattr(parent_node, fld, new_name)
                                elif isinstance(val, list) and any(v is call for v in val):
                                    setattr(parent_node, fld, [new_name if v is call else v for v in val])
                        changed = True
                        self.count += 1
                    out.extend(pre)
                out.append(st)
            return out

        fn.body = rewrite_block(fn.body)
        return changed


def _propagate_copies(fn) -> int:
    """a = b (both plain locals bound exactly once, `a` not a parameter, not used in nested functions) -> uses of a read b.
    Applied to the temporaries the inliner makes (`__r3 = _Parts(...); parts = __r3`) so that a record built in a spliced
    helper and named in the caller is seen as one local."""
    if isinstance(fn, ast.Lambda):
        return 0
    n_done = 0
    for _ in range(60):  # (one copy per round)
        stores: dict[str, int] = {}
        for n in ast.walk(fn):
            if isinstance(n, ast.Name) and isinstance(n.ctx, (ast.Store, ast.Del)):
                stores[n.id] = stores.get(n.id, 0) + 1
        params = {a.arg for a in fn.args.posonlyargs + fn.args.args + fn.args.kwonlyargs}
        nested_names = {x.id for n in ast.walk(fn) if isinstance(n, (ast.FunctionDef, ast.AsyncFunctionDef, ast.Lambda)) and n is not fn
                        for x in ast.walk(n) if isinstance(x, ast.Name)}
        done = False
        for holder in ast.walk(fn):
            for fld in ("body", "orelse", "finalbody"):
                lst = getattr(holder, fld, None)
                if not (isinstance(lst, list) and lst and isinstance(lst[0], ast.stmt)):
                    continue
                for st in list(lst):
                    if isinstance(st, ast.Assign) and len(st.targets) == 1 and isinstance(st.targets[0], ast.Name) and isinstance(st.value, ast.Name):
                        a, b = st.targets[0].id, st.value.id
                        b_fixed = stores.get(b, 0) == 1 and b not in params or (b in params and stores.get(b, 0) == 0)
                        if a == b or a in params or stores.get(a) != 1 or not b_fixed \
                                or not (a.startswith("__") or b.startswith("__")):
                            continue  # (only temporaries made by the normalisations themselves are merged)
                        if a in nested_names:
                            # a nested helper reads the temporary: it is renamed there as well, unless one of the two names
                            # is bound inside that helper (parameter or local of its own)
                            clash = False
                            for nfn in [n for n in ast.walk(fn) if isinstance(n, (ast.FunctionDef, ast.AsyncFunctionDef, ast.Lambda)) and n is not fn]:
                                a_ = nfn.args
                                bound_in = {x.arg for x in a_.posonlyargs + a_.args + a_.kwonlyargs} | {x.id for x in ast.walk(nfn) if isinstance(x, ast.Name) and isinstance(x.ctx, ast.Store)}
                                if a in bound_in or b in bound_in:
                                    clash = True
                            if clash:
                                continue
                        for x in ast.walk(fn):
                            if isinstance(x, ast.Name) and x.id == a and isinstance(x.ctx, ast.Load):
                                x.id = b
                        lst.remove(st)
                        if not lst:
                            lst.append(ast.copy_location(ast.Pass(), st))
                        n_done += 1
                        done = True
                        break
                if done:
                    break
            if done:
                break
        if not done:
            break
    return n_done


def _blocks_of(fn):
    """every statement list of the function's own scope (not of nested defs)"""
    out = []
    stack = [fn]
    while stack:
        x = stack.pop()
        for fld in ("body", "orelse", "finalbody"):
            lst = getattr(x, fld, None)
            if isinstance(lst, list) and lst and isinstance(lst[0], ast.stmt):
                out.append(lst)
                for st in lst:
                    if not isinstance(st, (ast.FunctionDef, ast.AsyncFunctionDef, ast.ClassDef)):
                        stack.append(st)
        for h in getattr(x, "handlers", []) or []:
            stack.append(h)
        for c in getattr(x, "cases", []) or []:
            stack.append(c)
    return out


def _held_back_to_tail(fn) -> int:
    """acc = []; last = None
       ... if last is not None: acc.append(last)
           last = e                       ->   acc.append(e)
       ... last / last is not None / last += x   ->   acc[-1] / len(acc) > 0 / acc[-1] += x
       if last is not None: acc.append(last)     ->   (gone)
    The "hold back the newest element, emit it when the next one arrives, flush at the end" idiom of generator pipelines is
    the same computation as appending at once and editing the tail: at every point acc' == acc + [last] (without the last
    when it is None). Applied only when every append to `acc` is one of these guarded flushes, `acc` is not read before
    the final flush, `last` is bound nowhere else, and the values held are elements of a loop (never None themselves)."""
    if isinstance(fn, ast.Lambda):
        return 0
    own = list(walk_no_nested(fn))
    blocks = _blocks_of(fn)
    done = 0

    def is_none_test(t: ast.AST, v: str, op) -> bool:
        return isinstance(t, ast.Compare) and isinstance(t.left, ast.Name) and t.left.id == v and len(t.ops) == 1 and isinstance(t.ops[0], op) \
            and isinstance(t.comparators[0], ast.Constant) and t.comparators[0].value is None

    def flush_of(st: ast.stmt):
        """(acc, v) if st is `if v is not None: acc.append(v)`"""
        if isinstance(st, ast.If) and not st.orelse and len(st.body) == 1 and isinstance(st.body[0], ast.Expr) and isinstance(st.test, ast.Compare) \
                and isinstance(st.test.left, ast.Name) and is_none_test(st.test, st.test.left.id, ast.IsNot):
            c = st.body[0].value
            v = st.test.left.id
            if isinstance(c, ast.Call) and isinstance(c.func, ast.Attribute) and c.func.attr == "append" and isinstance(c.func.value, ast.Name) \
                    and len(c.args) == 1 and not c.keywords and isinstance(c.args[0], ast.Name) and c.args[0].id == v:
                return c.func.value.id, v
        return None

    flushes = [(lst, i, flush_of(st)) for lst in blocks for i, st in enumerate(lst) if flush_of(st)]
    for acc, v in sorted({f[2] for f in flushes}):
        mine = [(lst, i) for lst, i, f in flushes if f == (acc, v)]
        steps, finals = [], []
        for lst, i in mine:
            nxt = lst[i + 1] if i + 1 < len(lst) else None
            if isinstance(nxt, ast.Assign) and len(nxt.targets) == 1 and isinstance(nxt.targets[0], ast.Name) and nxt.targets[0].id == v \
                    and isinstance(nxt.value, ast.Name) and nxt.value.id not in (v, acc):
                steps.append((lst, i))
            else:
                finals.append((lst, i))
        if len(finals) != 1 or not steps or finals[0][0] is not fn.body:
            continue
        flst, fi_ = finals[0]
        # acc = [] and last = None, once each, at the top level of the function before the final flush
        acc_init = [st for st in fn.body[:fi_] if isinstance(st, ast.Assign) and len(st.targets) == 1 and isinstance(st.targets[0], ast.Name)
                    and st.targets[0].id == acc and isinstance(st.value, ast.List) and not st.value.elts]
        v_init = [st for st in fn.body[:fi_] if isinstance(st, ast.Assign) and len(st.targets) == 1 and isinstance(st.targets[0], ast.Name)
                  and st.targets[0].id == v and isinstance(st.value, ast.Constant) and st.value.value is None]
        if len(acc_init) != 1 or len(v_init) != 1:
            continue
        step_assigns = {id(lst[i + 1]) for lst, i in steps}
        step_ifs = {id(lst[i]) for lst, i in mine}
        # values held: loop variables only
        loop_vars = {t.id for x in own if isinstance(x, ast.For) for t in ast.walk(x.target) if isinstance(t, ast.Name)}
        if not all(lst[i + 1].value.id in loop_vars for lst, i in steps):
            continue
        ok = True
        final_line = getattr(flst[fi_], "end_lineno", None) or getattr(flst[fi_], "lineno", 0)
        for x in own:
            if isinstance(x, ast.Name) and x.id == acc:
                par = parent_of(fn, x)
                inside_flush = any(id(a) in step_ifs for a in ancestors_of(fn, x))
                if inside_flush or (isinstance(par, ast.Assign) and par in acc_init):
                    continue
                if getattr(x, "lineno", 0) <= final_line:
                    ok = False  # read or changed before the final flush: it would see one element more
            if isinstance(x, ast.Name) and x.id == v and isinstance(x.ctx, ast.Store):
                par = parent_of(fn, x)
                if isinstance(par, ast.Assign) and (id(par) in step_assigns or par in v_init):
                    continue
                if isinstance(par, ast.AugAssign) and par.target is x:
                    continue
                ok = False
            if isinstance(x, ast.Name) and x.id == v and isinstance(x.ctx, ast.Load) and getattr(x, "lineno", 0) > final_line:
                ok = False
        if any(isinstance(x, (ast.FunctionDef, ast.AsyncFunctionDef, ast.Lambda)) and any(isinstance(y, ast.Name) and y.id in (acc, v) for y in ast.walk(x))
               for x in ast.walk(fn) if x is not fn and x not in (acc_init + v_init)):
            # a nested function that mentions them (the spliced generator's own definition is dead code: it has its own names)
            ok = False
        if not ok:
            continue

        def tail() -> ast.expr:
            return ast.Subscript(value=ast.Name(id=acc, ctx=ast.Load()), slice=ast.UnaryOp(op=ast.USub(), operand=ast.Constant(value=1)), ctx=ast.Load())

        class _Rw(ast.NodeTransformer):
            def visit_FunctionDef(self, node):
                return node if node is not fn else self.generic_visit(node)
            visit_AsyncFunctionDef = visit_FunctionDef

            def visit_Lambda(self, node):
                return node

            def visit_Compare(self, node):
                if is_none_test(node, v, ast.IsNot):
                    return ast.copy_location(ast.Compare(left=ast.Call(func=ast.Name(id="len", ctx=ast.Load()), args=[ast.Name(id=acc, ctx=ast.Load())], keywords=[]),
                                                         ops=[ast.Gt()], comparators=[ast.Constant(value=0)]), node)
                if is_none_test(node, v, ast.Is):
                    return ast.copy_location(ast.Compare(left=ast.Call(func=ast.Name(id="len", ctx=ast.Load()), args=[ast.Name(id=acc, ctx=ast.Load())], keywords=[]),
                                                         ops=[ast.Eq()], comparators=[ast.Constant(value=0)]), node)
                return self.generic_visit(node)

            def visit_Name(self, node):
                if node.id == v:
                    t = tail()
                    t.ctx = type(node.ctx)()
                    return ast.copy_location(t, node)
                return node

        # steps first (they are statements), then the expression-level rewrite
        for lst, i in sorted(steps, key=lambda t: -t[1]):
            e = lst[i + 1].value
            app = ast.Expr(value=ast.Call(func=ast.Attribute(value=ast.Name(id=acc, ctx=ast.Load()), attr="append", ctx=ast.Load()), args=[e], keywords=[]))
            lst[i:i + 2] = [ast.copy_location(app, lst[i + 1])]
        flst[:] = [st for st in flst if st is not mine_final(flst, finals) and st not in v_init]
        _Rw().visit(fn)
        ast.fix_missing_locations(fn)
        done += 1
        break  # one idiom per function per call; the caller iterates
    return done


def mine_final(flst, finals):
    lst, i = finals[0]
    return lst[i] if i < len(lst) else None


def parent_of(fn, node):
    for x in ast.walk(fn):
        for ch in ast.iter_child_nodes(x):
            if ch is node:
                return x
    return None


def ancestors_of(fn, node):
    out = []
    cur = node
    while cur is not None and cur is not fn:
        cur = parent_of(fn, cur)
        if cur is not None:
            out.append(cur)
    return out


def _append_loops_to_extend(fn) -> int:
    """for x in xs: acc.append(x)   ->   acc.extend(xs)        (x is not read afterwards);
    islice(xs, k, None) handed to extend / such a loop   ->   xs[k:]   (the same elements, in the same order)"""
    if isinstance(fn, ast.Lambda):
        return 0
    n = 0
    for lst in _blocks_of(fn):
        for i, st in enumerate(list(lst)):
            if isinstance(st, ast.For) and not st.orelse and isinstance(st.target, ast.Name) and len(st.body) == 1 and isinstance(st.body[0], ast.Expr):
                c = st.body[0].value
                if isinstance(c, ast.Call) and isinstance(c.func, ast.Attribute) and c.func.attr == "append" and isinstance(c.func.value, ast.Name) \
                        and len(c.args) == 1 and not c.keywords and isinstance(c.args[0], ast.Name) and c.args[0].id == st.target.id \
                        and isinstance(st.iter, ast.Name) and st.iter.id != c.func.value.id:
                    tv = st.target.id
                    later = [x for x in ast.walk(fn) if isinstance(x, ast.Name) and x.id == tv and isinstance(x.ctx, ast.Load) and x is not c.args[0]]
                    if later:
                        continue
                    ext = ast.Expr(value=ast.Call(func=ast.Attribute(value=ast.Name(id=c.func.value.id, ctx=ast.Load()), attr="extend", ctx=ast.Load()),
                                                  args=[st.iter], keywords=[]))
                    lst[lst.index(st)] = ast.copy_location(ext, st)
                    n += 1
    if n:
        # islice(xs, k, None) bound to a name that is only ever extended from
        extended = {c.args[0].id for c in ast.walk(fn) if isinstance(c, ast.Call) and isinstance(c.func, ast.Attribute) and c.func.attr == "extend"
                    and len(c.args) == 1 and isinstance(c.args[0], ast.Name)}
        for x in walk_no_nested(fn):
            if isinstance(x, ast.Assign) and len(x.targets) == 1 and isinstance(x.targets[0], ast.Name) and x.targets[0].id in extended:
                v_ = x.value
                nm = x.targets[0].id
                uses = [y for y in ast.walk(fn) if isinstance(y, ast.Name) and y.id == nm and isinstance(y.ctx, ast.Load)]
                only_extended = all(isinstance(parent_of(fn, y), ast.Call) and getattr(parent_of(fn, y).func, "attr", "") == "extend" for y in uses)
                if only_extended and isinstance(v_, ast.Call) and isinstance(v_.func, (ast.Name, ast.Attribute)) \
                        and (v_.func.id if isinstance(v_.func, ast.Name) else v_.func.attr) == "islice" and len(v_.args) == 3 and not v_.keywords \
                        and isinstance(v_.args[0], ast.Name) and isinstance(v_.args[1], ast.Constant) and isinstance(v_.args[1].value, int) and v_.args[1].value >= 0 \
                        and isinstance(v_.args[2], ast.Constant) and v_.args[2].value is None:
                    x.value = ast.copy_location(ast.Subscript(value=v_.args[0], slice=ast.Slice(lower=v_.args[1], upper=None, step=None), ctx=ast.Load()), v_)
        ast.fix_missing_locations(fn)
    return n


def _list_then_yield_from(fn) -> int:
    """acc = []; ... acc.append(x) ...; yield from acc      ->   ... yield x ...
    in a generator, for a local list that is only ever appended to between its creation and the single `yield from` that
    hands it out (a spliced helper that returned a list): the same values in the same order."""
    if isinstance(fn, ast.Lambda):
        return 0
    done = 0
    for lst in _blocks_of(fn):
        for st in list(lst):
            if not (isinstance(st, ast.Expr) and isinstance(st.value, ast.YieldFrom) and isinstance(st.value.value, ast.Name)):
                continue
            acc = st.value.value.id
            own = list(walk_no_nested(fn))
            stores = [x for x in own if isinstance(x, ast.Name) and x.id == acc and isinstance(x.ctx, (ast.Store, ast.Del))]
            if len(stores) != 1:
                continue
            init = parent_of(fn, stores[0])
            if not (isinstance(init, ast.Assign) and len(init.targets) == 1 and isinstance(init.value, ast.List) and not init.value.elts and init in lst
                    and lst.index(init) < lst.index(st)):
                continue
            loads = [x for x in own if isinstance(x, ast.Name) and x.id == acc and isinstance(x.ctx, ast.Load) and x is not st.value.value]
            appends = []
            ok = True
            for x in loads:
                a = parent_of(fn, x)
                c = parent_of(fn, a) if isinstance(a, ast.Attribute) else None
                e = parent_of(fn, c) if isinstance(c, ast.Call) else None
                if isinstance(a, ast.Attribute) and a.attr == "append" and isinstance(c, ast.Call) and c.func is a and len(c.args) == 1 and not c.keywords \
                        and isinstance(e, ast.Expr) and e.value is c:
                    appends.append((e, c))
                else:
                    ok = False
            between = lst[lst.index(init) + 1: lst.index(st)]
            inside = {id(y) for b in between for y in ast.walk(b)}
            if not ok or not appends or not all(id(e) in inside for e, _c in appends):
                continue
            if any(isinstance(y, (ast.Yield, ast.YieldFrom)) for b in between for y in ast.walk(b)):
                continue  # (other values yielded in between would change the order)
            for e, c in appends:
                e.value = ast.copy_location(ast.Yield(value=c.args[0]), c)
            lst.remove(init)
            lst.remove(st)
            done += 1
    if done:
        ast.fix_missing_locations(fn)
    return done


def _filter_loops_to_comprehension(fn) -> int:
    """kept = []
       for d in ds:
           if excluded(d): continue
           kept.append(d)                 ->   kept = [d for d in ds if not excluded(d)]
    A list initialised empty and immediately filled by a loop whose body is nothing but guard-`continue`s (or one guarding `if`)
    around a single append: the filtering comprehension it spells out."""
    if isinstance(fn, ast.Lambda):
        return 0
    done = 0
    for lst in _blocks_of(fn):
        i = 0
        while i + 1 < len(lst):
            a, loop = lst[i], lst[i + 1]
            i += 1
            if not (isinstance(a, ast.Assign) and len(a.targets) == 1 and isinstance(a.targets[0], ast.Name) and isinstance(a.value, ast.List) and not a.value.elts
                    and isinstance(loop, ast.For) and not loop.orelse and loop.body):
                continue
            acc = a.targets[0].id
            conds: list[ast.expr] = []
            body = list(loop.body)
            ok = True
            while len(body) > 1:
                g = body[0]
                if isinstance(g, ast.If) and not g.orelse and len(g.body) == 1 and isinstance(g.body[0], ast.Continue):
                    conds.append(ast.UnaryOp(op=ast.Not(), operand=g.test))
                    body = body[1:]
                else:
                    ok = False
                    break
            if not ok or len(body) != 1:
                continue
            last = body[0]
            if isinstance(last, ast.If) and not last.orelse and len(last.body) == 1:
                conds.append(last.test)
                last = last.body[0]
            if not (isinstance(last, ast.Expr) and isinstance(last.value, ast.Call) and isinstance(last.value.func, ast.Attribute) and last.value.func.attr == "append"
                    and isinstance(last.value.func.value, ast.Name) and last.value.func.value.id == acc and len(last.value.args) == 1 and not last.value.keywords):
                continue
            tnames = {x.id for x in ast.walk(loop.target) if isinstance(x, ast.Name)}
            inside = {id(x) for x in ast.walk(loop)}
            if any(isinstance(x, ast.Name) and x.id == acc for c in conds for x in ast.walk(c)):
                continue
            if any(isinstance(x, ast.Name) and x.id in tnames and id(x) not in inside for x in ast.walk(fn)):
                continue  # the loop variable is used afterwards
            if any(isinstance(x, (ast.Yield, ast.YieldFrom, ast.Await, ast.NamedExpr)) for x in ast.walk(loop)):
                continue
            comp = ast.ListComp(elt=last.value.args[0], generators=[ast.comprehension(target=loop.target, iter=loop.iter, ifs=conds, is_async=0)])
            a.value = ast.copy_location(comp, loop)
            lst.remove(loop)
            done += 1
    if done:
        ast.fix_missing_locations(fn)
    return done


def _propagate_attr_and_thunk_temps(fn) -> int:
    """__i_cache = self._table ... __i_cache[k] = v    ->   self._table[k] = v        (the attribute is not rebound in the function)
       __i_load = lambda: load(d) ... __i_load()       ->   load(d)                  (a parameterless lambda that is only called)
    for the temporaries the splicing itself introduces when a helper takes a table or a thunk as a parameter."""
    if isinstance(fn, ast.Lambda) or not fn.args.args:
        return 0
    selfname = fn.args.args[0].arg
    own = list(walk_no_nested(fn))
    stores: dict[str, int] = {}
    for x in own:
        if isinstance(x, ast.Name) and isinstance(x.ctx, (ast.Store, ast.Del)):
            stores[x.id] = stores.get(x.id, 0) + 1
    rebound_attrs = {x.attr for x in own if isinstance(x, ast.Attribute) and isinstance(x.ctx, (ast.Store, ast.Del)) and isinstance(x.value, ast.Name) and x.value.id == selfname}
    done = 0
    for lst in _blocks_of(fn):
        for st in list(lst):
            if not (isinstance(st, ast.Assign) and len(st.targets) == 1 and isinstance(st.targets[0], ast.Name) and st.targets[0].id.startswith("__")
                    and stores.get(st.targets[0].id) == 1):
                continue
            v, nm = st.value, st.targets[0].id
            uses = [x for x in ast.walk(fn) if isinstance(x, ast.Name) and x.id == nm and isinstance(x.ctx, ast.Load)]
            if not uses:
                continue
            if isinstance(v, ast.Attribute) and isinstance(v.value, ast.Name) and v.value.id == selfname and v.attr not in rebound_attrs and stores.get(selfname, 0) == 0:
                for u in uses:
                    _replace_node(fn, u, ast.copy_location(ast.Attribute(value=ast.Name(id=selfname, ctx=ast.Load()), attr=v.attr, ctx=ast.Load()), u))
                lst.remove(st)
                done += 1
            elif isinstance(v, ast.Lambda) and not (v.args.args or v.args.kwonlyargs or v.args.vararg or v.args.kwarg or v.args.posonlyargs):
                calls = [parent_of(fn, u) for u in uses]
                free = {y.id for y in ast.walk(v.body) if isinstance(y, ast.Name)}
                if all(isinstance(c, ast.Call) and c.func is u and not c.args and not c.keywords for c, u in zip(calls, uses)) \
                        and all(stores.get(f_, 0) <= 1 for f_ in free) and len(uses) == 1:
                    _replace_node(fn, calls[0], ast.copy_location(clone(v.body), calls[0]))
                    lst.remove(st)
                    done += 1
            if not lst:
                lst.append(ast.copy_location(ast.Pass(), st))
    if done:
        ast.fix_missing_locations(fn)
    return done


def _stacks_to_saved_attributes(work: Repo) -> int:
    """self._stack: list = []  (in __init__);   @property def cur(self): return self._stack[-1] if self._stack else D
       ... self._stack.append(v) ... self._stack.pop() ...   (pushes and pops paired inside one method)
       ->   self.cur = D;   ... saved = self.cur; self.cur = v ... self.cur = saved ...
    A private stack that is only pushed, popped and looked at through a "top or default" property is a plain attribute
    with its previous value saved in a local of the activation that pushed (the recursion stack holds the rest)."""
    count = 0
    for mod in work.modules.values():
        for cls in [n for n in ast.walk(mod.tree) if isinstance(n, ast.ClassDef)]:
            methods = [m for m in cls.body if isinstance(m, ast.FunctionDef)]
            init = next((m for m in methods if m.name == "__init__"), None)
            if init is None or not init.args.args:
                continue
            for prop in list(methods):
                if [ast.unparse(d) for d in prop.decorator_list] != ["property"] or not prop.args.args:
                    continue
                sn = prop.args.args[0].arg
                body = [st for st in prop.body if not (isinstance(st, ast.Expr) and isinstance(st.value, ast.Constant))]
                if not (len(body) == 1 and isinstance(body[0], ast.Return) and isinstance(body[0].value, ast.IfExp)):
                    continue
                ie = body[0].value
                if not (isinstance(ie.test, ast.Attribute) and isinstance(ie.test.value, ast.Name) and ie.test.value.id == sn and isinstance(ie.orelse, ast.Constant)
                        and isinstance(ie.body, ast.Subscript) and ast.unparse(ie.body) == f"{sn}.{ie.test.attr}[-1]"):
                    continue
                stack, default, pname = ie.test.attr, ie.orelse, prop.name
                # every other mention of the stack in the class: its creation in __init__, append / pop statements
                uses = []
                ok = True
                for m in methods:
                    if m is prop or not m.args.args:
                        continue
                    me = m.args.args[0].arg
                    for x in ast.walk(m):
                        if isinstance(x, ast.Attribute) and x.attr == stack and isinstance(x.value, ast.Name) and x.value.id == me:
                            uses.append((m, x))
                if any(isinstance(x, ast.Attribute) and x.attr == stack for n2 in ast.walk(mod.tree) if n2 is not cls and isinstance(n2, ast.ClassDef) for x in ast.walk(n2)):
                    continue
                init_stmt = None
                plans: dict[str, list] = {}
                for m, x in uses:
                    par = parent_of(m, x)
                    if m is init and isinstance(par, (ast.Assign, ast.AnnAssign)) and (par.targets[0] if isinstance(par, ast.Assign) else par.target) is x \
                            and isinstance(par.value, ast.List) and not par.value.elts:
                        init_stmt = par
                        continue
                    call = parent_of(m, par) if isinstance(par, ast.Attribute) and par.attr in ("append", "pop") else None
                    stx = parent_of(m, call) if isinstance(call, ast.Call) and call.func is par else None
                    if isinstance(stx, ast.Expr) and stx.value is call and ((par.attr == "append" and len(call.args) == 1) or (par.attr == "pop" and not call.args)):
                        plans.setdefault(m.name, []).append((m, stx, par.attr, call))
                    else:
                        ok = False
                if not ok or init_stmt is None or not plans:
                    continue
                for mname, ops in plans.items():
                    ops.sort(key=lambda o: (getattr(o[1], "lineno", 0), getattr(o[1], "col_offset", 0)))
                    depth = 0
                    for _m, _st, kind, _c in ops:
                        depth += 1 if kind == "append" else -1
                        if depth < 0:
                            ok = False
                    if depth != 0:
                        ok = False
                if not ok:
                    continue
                # rewrite
                for mname, ops in plans.items():
                    open_: list[str] = []
                    k = 0
                    for m, stx, kind, call in ops:
                        me = m.args.args[0].arg
                        attr = lambda ctx_: ast.Attribute(value=ast.Name(id=me, ctx=ast.Load()), attr=pname, ctx=ctx_)  # noqa: E731
                        if kind == "append":
                            k += 1
                            saved = f"__saved_{pname.strip('_')}_{k}"
                            open_.append(saved)
                            new = [ast.Assign(targets=[ast.Name(id=saved, ctx=ast.Store())], value=attr(ast.Load()), type_comment=None),
                                   ast.Assign(targets=[attr(ast.Store())], value=call.args[0], type_comment=None)]
                        else:
                            saved = open_.pop()
                            new = [ast.Assign(targets=[attr(ast.Store())], value=ast.Name(id=saved, ctx=ast.Load()), type_comment=None)]
                        for holder in ast.walk(m):
                            for fld in ("body", "orelse", "finalbody"):
                                lst = getattr(holder, fld, None)
                                if isinstance(lst, list) and stx in lst:
                                    i = lst.index(stx)
                                    lst[i:i + 1] = [ast.copy_location(n_, stx) for n_ in new]
                ime = init.args.args[0].arg
                repl = ast.Assign(targets=[ast.Attribute(value=ast.Name(id=ime, ctx=ast.Load()), attr=pname, ctx=ast.Store())], value=default, type_comment=None)
                for holder in ast.walk(init):
                    for fld in ("body", "orelse", "finalbody"):
                        lst = getattr(holder, fld, None)
                        if isinstance(lst, list) and init_stmt in lst:
                            lst[lst.index(init_stmt)] = ast.copy_location(repl, init_stmt)
                cls.body.remove(prop)
                count += 1
        if count:
            ast.fix_missing_locations(mod.tree)
    return count


def _finditer_rebuild_to_sub(fn) -> int:
    """acc = []; last = 0
       for m in P.finditer(t):
           acc.append(t[last:m.start()]); <compute one replacement piece, appended to acc>; last = m.end()
       acc.append(t[last:]); return "".join(acc)
    ->   def __cb(m): <the same computation, returning the piece>;   return P.sub(__cb, t)
    Rebuilding the text around the non-overlapping matches of a pattern, one replacement piece per match, is what
    Pattern.sub does with a callback; the callback is the middle of the loop body with `acc.append(E)` read as `return E`."""
    if isinstance(fn, ast.Lambda):
        return 0
    body = fn.body
    done = 0
    for i, loop in enumerate(list(body)):
        if not (isinstance(loop, ast.For) and isinstance(loop.target, ast.Name) and isinstance(loop.iter, ast.Call) and isinstance(loop.iter.func, ast.Attribute)
                and loop.iter.func.attr == "finditer" and len(loop.iter.args) == 1 and isinstance(loop.iter.args[0], ast.Name) and not loop.orelse and len(loop.body) >= 3):
            continue
        m, t, pat = loop.target.id, loop.iter.args[0].id, loop.iter.func.value
        first, last_st, mid = loop.body[0], loop.body[-1], loop.body[1:-1]
        # first: acc.append(t[last:m.start()])
        if not (isinstance(first, ast.Expr) and isinstance(first.value, ast.Call) and isinstance(first.value.func, ast.Attribute) and first.value.func.attr == "append"
                and isinstance(first.value.func.value, ast.Name) and len(first.value.args) == 1):
            continue
        acc = first.value.func.value.id
        sl = first.value.args[0]
        if not (isinstance(sl, ast.Subscript) and isinstance(sl.value, ast.Name) and sl.value.id == t and isinstance(sl.slice, ast.Slice) and isinstance(sl.slice.lower, ast.Name)
                and sl.slice.step is None and ast.unparse(sl.slice.upper or ast.Constant(value=None)) == f"{m}.start()"):
            continue
        last = sl.slice.lower.id
        if not (isinstance(last_st, ast.Assign) and len(last_st.targets) == 1 and isinstance(last_st.targets[0], ast.Name) and last_st.targets[0].id == last
                and ast.unparse(last_st.value) == f"{m}.end()"):
            continue
        # after the loop: acc.append(t[last:]); return "".join(acc)
        if i + 2 >= len(body) + 0 and not (i + 2 < len(body)):
            continue
        tail1, tail2 = body[i + 1], body[i + 2]
        if not (isinstance(tail1, ast.Expr) and ast.unparse(tail1.value) == f"{acc}.append({t}[{last}:])" and isinstance(tail2, ast.Return)
                and tail2.value is not None and ast.unparse(tail2.value) in (f"''.join({acc})", f'"".join({acc})')):
            continue
        # before: acc = [] and last = 0, nothing else touching them
        inits = [st for st in body[:i] if isinstance(st, ast.Assign) and len(st.targets) == 1 and isinstance(st.targets[0], ast.Name) and st.targets[0].id in (acc, last)]
        if len(inits) != 2 or not any(isinstance(st.value, ast.List) and not st.value.elts for st in inits) \
                or not any(isinstance(st.value, ast.Constant) and st.value.value == 0 for st in inits):
            continue
        mentions = [x for x in ast.walk(fn) if isinstance(x, ast.Name) and x.id in (acc, last)]
        allowed = {id(x) for st in inits + [first, last_st, tail1, tail2] for x in ast.walk(st)}
        mid_appends = []
        ok = True
        for x in mentions:
            if id(x) in allowed:
                continue
            a = parent_of(fn, x)
            c = parent_of(fn, a) if isinstance(a, ast.Attribute) else None
            e = parent_of(fn, c) if isinstance(c, ast.Call) else None
            if x.id == acc and isinstance(a, ast.Attribute) and a.attr == "append" and isinstance(c, ast.Call) and len(c.args) == 1 and isinstance(e, ast.Expr) \
                    and any(e is y for st in mid for y in ast.walk(st)):
                mid_appends.append((e, c))
            else:
                ok = False
        if not ok or not mid_appends:
            continue
        if any(isinstance(y, (ast.Return, ast.Yield, ast.YieldFrom, ast.Continue)) for st in mid for y in ast.walk(st)):
            continue
        # the callback: the middle statements, every append a return (a `break` right after it goes with it)
        new_mid = [clone(st) for st in mid]
        holder = ast.Module(body=new_mid, type_ignores=[])

        class _Ret(ast.NodeTransformer):
            def _fix(self, lst):
                out = []
                skip = False
                for st in lst:
                    if skip and isinstance(st, ast.Break):
                        skip = False
                        continue
                    skip = False
                    if isinstance(st, ast.Expr) and isinstance(st.value, ast.Call) and isinstance(st.value.func, ast.Attribute) and st.value.func.attr == "append" \
                            and isinstance(st.value.func.value, ast.Name) and st.value.func.value.id == acc:
                        out.append(ast.copy_location(ast.Return(value=st.value.args[0]), st))
                        skip = True
                        continue
                    out.append(self.visit(st))
                return out

            def generic_visit(self, node):
                for fld in ("body", "orelse", "finalbody"):
                    lst = getattr(node, fld, None)
                    if isinstance(lst, list) and lst and isinstance(lst[0], ast.stmt):
                        setattr(node, fld, self._fix(lst))
                return node

        _Ret().generic_visit(holder)
        cb_name = f"__cb{getattr(loop, 'lineno', 0)}"
        cb = ast.FunctionDef(name=cb_name, args=ast.arguments(posonlyargs=[], args=[ast.arg(arg=m)], kwonlyargs=[], kw_defaults=[], defaults=[]),
                             body=holder.body, decorator_list=[], returns=None, type_comment=None)
        if hasattr(fn, "type_params"):
            cb.type_params = []
        ret = ast.Return(value=ast.Call(func=ast.Attribute(value=clone(pat), attr="sub", ctx=ast.Load()),
                                        args=[ast.Name(id=cb_name, ctx=ast.Load()), ast.Name(id=t, ctx=ast.Load())], keywords=[]))
        for n_ in (cb, ret):
            ast.copy_location(n_, loop)
        new_body = [st for st in body[:i] if st not in inits] + [cb, ret] + body[i + 3:]
        fn.body = new_body
        ast.fix_missing_locations(fn)
        done += 1
        break
    return done


def _scalar_replace_records(repo: Repo, mod, fn) -> int:
    """fmt = _Opts(width=w, semantic=s) ... fmt.width ... fmt.semantic      ->   fmt__width = w; fmt__semantic = s ... fmt__width ...
    for a local that is bound once to a freshly built record of the package (dataclass / NamedTuple without custom
    __init__ / __post_init__) and is used only through reads of its fields (after the private helpers it was handed to have
    been spliced in). The record itself is never observable then; its fields are plain locals."""
    from .loader import ClassInfo

    if isinstance(fn, ast.Lambda):
        return 0
    stores: dict[str, list[ast.AST]] = {}
    for n in ast.walk(fn):
        if isinstance(n, ast.Name) and isinstance(n.ctx, (ast.Store, ast.Del)):
            stores.setdefault(n.id, []).append(n)
    params = {a.arg for a in fn.args.posonlyargs + fn.args.args + fn.args.kwonlyargs}
    count = 0
    for st in [x for x in walk_no_nested(fn) if isinstance(x, ast.Assign)]:  # (statements of this scope; nested defs have their own turn)
        if not (len(st.targets) == 1 and isinstance(st.targets[0], ast.Name) and isinstance(st.value, ast.Call)):
            continue
        v = st.targets[0].id
        if v in params or len(stores.get(v, [])) != 1:
            continue
        call = st.value
        ci = repo.resolve_expr(call.func, mod, None) if isinstance(call.func, (ast.Name, ast.Attribute)) else None
        if not isinstance(ci, ClassInfo) or "__init__" in ci.methods or "__post_init__" in ci.methods:
            continue
        decos = [ast.unparse(d) for d in ci.node.decorator_list]
        bases = [ast.unparse(b) for b in ci.node.bases]
        if not (any("dataclass" in d for d in decos) or any(b.endswith("NamedTuple") for b in bases)):
            continue
        fields = [s_.target.id for s_ in ci.node.body if isinstance(s_, ast.AnnAssign) and isinstance(s_.target, ast.Name)]
        defaults = {s_.target.id: s_.value for s_ in ci.node.body if isinstance(s_, ast.AnnAssign) and isinstance(s_.target, ast.Name)}
        if not fields or any(isinstance(a, ast.Starred) for a in call.args) or any(k.arg is None for k in call.keywords) or len(call.args) > len(fields):
            continue
        order: list[tuple[str, ast.expr]] = [(f_, a) for f_, a in zip(fields, call.args)]
        ok = True
        for k in call.keywords:
            if k.arg not in fields or k.arg in dict(order):
                ok = False
            order.append((k.arg, k.value))
        for f_ in fields:
            if f_ not in dict(order):
                d = defaults.get(f_)
                if not isinstance(d, ast.Constant):
                    ok = False
                else:
                    order.append((f_, d))
        if not ok:
            continue
        # every other occurrence of v is a read of one of its fields, in this function itself (not in a nested one)
        uses_ok = True
        attr_nodes: list[ast.Attribute] = []
        from .loader import set_parents, parent

        set_parents(fn)
        for n in ast.walk(fn):
            if isinstance(n, ast.Name) and n.id == v and isinstance(n.ctx, ast.Load):
                par = parent(n)
                if isinstance(par, ast.Attribute) and par.value is n and par.attr in fields and isinstance(par.ctx, ast.Load):
                    attr_nodes.append(par)
                else:
                    uses_ok = False
        for n in ast.walk(fn):
            if isinstance(n, (ast.FunctionDef, ast.AsyncFunctionDef, ast.Lambda)) and n is not fn:
                # closures may read the fields too (the record is bound once, before they can run); they must not rebind the name
                a_ = n.args
                inner_params = {x.arg for x in a_.posonlyargs + a_.args + a_.kwonlyargs} | ({a_.vararg.arg} if a_.vararg else set()) | ({a_.kwarg.arg} if a_.kwarg else set())
                if v in inner_params:
                    uses_ok = False
        # the construction must come before any closure that reads it is defined or called: require it at the top level of fn
        if not any(st is x for x in fn.body) and any(isinstance(n, (ast.FunctionDef, ast.AsyncFunctionDef, ast.Lambda)) and n is not fn
                                                      and any(isinstance(x, ast.Name) and x.id == v for x in ast.walk(n)) for n in ast.walk(fn)):
            uses_ok = False
        if not uses_ok or not attr_nodes:
            continue
        new_assigns = [ast.copy_location(ast.Assign(targets=[ast.Name(id=f"{v}__{f_}", ctx=ast.Store())], value=ex, type_comment=None), st) for f_, ex in order]
        # splice the assignments in place of the construction
        for holder in ast.walk(fn):
            for fld in ("body", "orelse", "finalbody"):
                lst = getattr(holder, fld, None)
                if isinstance(lst, list) and st in lst:
                    i = lst.index(st)
                    lst[i:i + 1] = new_assigns
        for a in attr_nodes:
            par = parent(a)
            repl = ast.copy_location(ast.Name(id=f"{v}__{a.attr}", ctx=ast.Load()), a)
            for fld, val in ast.iter_fields(par):
                if val is a:
                    setattr(par, fld, repl)
                elif isinstance(val, list) and any(x is a for x in val):
                    setattr(par, fld, [repl if x is a else x for x in val])
        count += 1
    return count


def build_inlined_repo(root=None, keep: set[str] | None = None) -> tuple[Repo, dict[str, int]]:
    """A second Repo whose functions have their private helpers inlined (ASTs mutated in place on a private parse,
    original line numbers kept on every statement)."""
    work = Repo(root)
    prog = Program(work)
    # equivalence-preserving normalisations first
    unrolled = 0
    for fi in list(work.functions.values()):
        if isinstance(fi.node, ast.Lambda):
            continue
        u = _SetattrUnroller(work, fi)
        u.visit(fi.node)
        unrolled += u.count
        al = _ArgLoopUnroller(fi)
        al.visit(fi.node)
        unrolled += al.count
        unrolled += _expand_dict_kwargs(fi.node)
        unrolled += _first_rest_zip_idiom(fi.node)
        try:
            unrolled += _scalarise_map_lists(fi.node)
        except Exception:  # noqa: BLE001 - a normalisation that cannot be applied is simply not applied
            pass
        pf = _PartialFolder(fi.node)
        if pf.partials:
            pf.visit(fi.node)
            unrolled += pf.count
    try:
        folded = _fold_forwarders(work)
    except Exception:  # noqa: BLE001 - a normalisation that cannot be applied is simply not applied
        folded = 0
    try:
        folded += _unbox_record_returns(work)
    except Exception:  # noqa: BLE001
        pass
    if folded:
        for mod in work.modules.values():
            ast.fix_missing_locations(mod.tree)
        work = Repo(root, trees={name: (m.path, m.source, m.tree) for name, m in work.modules.items()})
        prog = Program(work)
        unrolled += folded
    c2c = _ClassToClosure(work)
    for fi in list(work.functions.values()):
        if fi.cls is None or fi.name != "__call__":  # (a method body is not a place where closures are made here)
            try:
                c2c.convert_function(fi)
            except RecursionError:  # pragma: no cover
                pass
    unrolled += c2c.count
    if unrolled:
        for mod in work.modules.values():
            ast.fix_missing_locations(mod.tree)
        work = Repo(root, trees={name: (m.path, m.source, m.tree) for name, m in work.modules.items()})
        prog = Program(work)
    inl = Inliner(work, prog, keep)
    changed = 0
    # innermost functions first: a caller then splices the already-inlined body of its helper
    for fi in sorted(work.functions.values(), key=lambda f: (-f.qual.count(".<locals>."), f.qual)):
        new = inl.inline_function(fi)
        if new is not None:
            fi.node.body = new.body
            changed += 1
    try:
        inl.stats["stacks_to_attributes"] = _stacks_to_saved_attributes(work)
    except Exception:  # noqa: BLE001 - a normalisation that cannot be applied is simply not applied
        pass
    # names the cross-module splices need: from <sibling> import <name>, after the docstring and the __future__ imports
    for mname, wants in inl.pending_imports.items():
        mod = work.modules.get(mname)
        if mod is None or not wants:
            continue
        pos = 0
        for i, st in enumerate(mod.tree.body):
            if (isinstance(st, ast.Expr) and isinstance(st.value, ast.Constant) and isinstance(st.value.value, str) and i == 0) \
                    or (isinstance(st, ast.ImportFrom) and st.module == "__future__"):
                pos = i + 1
        by_src: dict[str, list[str]] = {}
        for src, g in sorted(wants):
            by_src.setdefault(src, []).append(g)
        for src, names in sorted(by_src.items()):
            imp = ast.ImportFrom(module=src, names=[ast.alias(name=g, asname=None) for g in names], level=0)
            ast.fix_missing_locations(imp)
            mod.tree.body.insert(pos, imp)
    sra = 0
    for mod in work.modules.values():
        # (the function nodes of the module trees: after inlining, a nested def inside its parent's new body is a different
        # object from the FuncInfo of the nested function)
        for fn_node in [n for n in ast.walk(mod.tree) if isinstance(n, (ast.FunctionDef, ast.AsyncFunctionDef))]:
            try:
                for _round in range(3):
                    if not _held_back_to_tail(fn_node):
                        break
                _append_loops_to_extend(fn_node)
                for _round in range(3):  # records inside records, copies of copies
                    _propagate_copies(fn_node)
                    _propagate_attr_and_thunk_temps(fn_node)
                    _list_then_yield_from(fn_node)
                    _filter_loops_to_comprehension(fn_node)
                    _finditer_rebuild_to_sub(fn_node)
                    got = _scalar_replace_records(work, mod, fn_node)
                    sra += got
                    if not got:
                        break
            except Exception:  # noqa: BLE001 - a normalisation that cannot be applied is simply not applied
                pass
    inl.stats["records_replaced"] = sra
    for mod in work.modules.values():
        ast.fix_missing_locations(mod.tree)
    view = Repo(root, trees={name: (m.path, m.source, m.tree) for name, m in work.modules.items()})
    inl.stats["functions_changed"] = changed
    inl.stats["setattr_loops_unrolled"] = unrolled
    return view, inl.stats
