"""Forward value-flow of a field through a function: which operations touch values derived from it.

Flow-insensitive inside a function (fix-point over assignments), interprocedural through calls to repository
functions that receive a tainted argument (parameter becomes the source in the callee, bounded depth).
The result is the list of operations applied *to tainted values* - the basis of the verbatim-flow rule.
"""

from __future__ import annotations

import ast
from dataclasses import dataclass

from .cfg import walk_no_nested
from .dataflow import Program, bind_call, chain_key
from .loader import FuncInfo


@dataclass
class Op:
    kind: str  # "method" | "call" | "subscript" | "binop" | "compare" | "return" | "format"
    text: str  # normalised text of the operation, e.g. ".rstrip('\\n')", "len(·)", "[0]"
    name: str  # bare operation name: rstrip, len, [], ...
    node: ast.AST
    func: FuncInfo
    args: tuple = ()

    def __repr__(self) -> str:
        return f"{self.func.name}:{self.text}"


def _norm(n: ast.AST) -> str:
    return " ".join(ast.unparse(n).split())


class Taint:
    def __init__(self, prog: Program, max_depth: int = 3) -> None:
        self.prog = prog
        self.max_depth = max_depth
        self.ops: list[Op] = []
        self.reaches_return: dict[str, bool] = {}
        self._done: set[tuple[str, frozenset]] = set()

    def run_field(self, fi: FuncInfo, obj: str, fld: str, depth: int = 0) -> bool:
        """Source = the attribute `obj.fld` (obj a parameter of fi); follows the object into helper calls."""
        def pred(e: ast.AST) -> bool:
            return isinstance(e, ast.Attribute) and chain_key(e) == f"{obj}.{fld}"
        return self.run(fi, pred, depth, base=(obj, fld))

    def run(self, fi: FuncInfo, source_pred, depth: int = 0, base: tuple[str, str] | None = None) -> bool:
        """Analyse fi; `source_pred(expr) -> bool` marks source expressions. Returns True if a tainted value
        can reach a return value of fi."""
        if isinstance(fi.node, ast.Lambda):
            return False
        tainted_names: set[str] = set()
        tainted_keys: set[str] = set()
        body = list(walk_no_nested(fi.node))

        def is_tainted(e: ast.AST) -> bool:
            if source_pred(e):
                return True
            if isinstance(e, ast.Name):
                return e.id in tainted_names
            if isinstance(e, ast.Attribute):
                k = chain_key(e)
                if k is not None and k in tainted_keys:
                    return True
                return is_tainted(e.value)  # attribute of a tainted object (element.children[0].children)
            if isinstance(e, ast.Subscript):
                return is_tainted(e.value)
            if isinstance(e, ast.Call):
                # result of an operation on a tainted value is tainted (method call on it, or it is an argument)
                if isinstance(e.func, ast.Attribute) and is_tainted(e.func.value):
                    return True
                return any(is_tainted(a.value if isinstance(a, ast.Starred) else a) for a in e.args) or any(
                    is_tainted(k.value) for k in e.keywords
                )
            if isinstance(e, (ast.BinOp,)):
                return is_tainted(e.left) or is_tainted(e.right)
            if isinstance(e, ast.BoolOp):
                return any(is_tainted(v) for v in e.values)
            if isinstance(e, ast.IfExp):
                return is_tainted(e.body) or is_tainted(e.orelse)
            if isinstance(e, ast.JoinedStr):
                return any(is_tainted(v) for v in e.values)
            if isinstance(e, ast.FormattedValue):
                return is_tainted(e.value)
            if isinstance(e, (ast.List, ast.Tuple, ast.Set)):
                return any(is_tainted(v) for v in e.elts)
            if isinstance(e, (ast.ListComp, ast.GeneratorExp, ast.SetComp)):
                return is_tainted(e.elt) or any(is_tainted(g.iter) for g in e.generators)
            if isinstance(e, ast.Starred):
                return is_tainted(e.value)
            if isinstance(e, ast.NamedExpr):
                return is_tainted(e.value)
            return False

        def bind_targets(t: ast.AST) -> bool:
            changed = False
            if isinstance(t, ast.Name):
                if t.id not in tainted_names:
                    tainted_names.add(t.id)
                    changed = True
            elif isinstance(t, (ast.Tuple, ast.List)):
                for el in t.elts:
                    changed |= bind_targets(el.value if isinstance(el, ast.Starred) else el)
            elif isinstance(t, ast.Attribute):
                k = chain_key(t)
                if k is not None and k not in tainted_keys:
                    tainted_keys.add(k)
                    changed = True
            elif isinstance(t, ast.Subscript):
                changed |= bind_targets(t.value)
            return changed

        changed = True
        rounds = 0
        while changed and rounds < 20:
            changed = False
            rounds += 1
            for n in body:
                if isinstance(n, ast.Assign) and is_tainted(n.value):
                    for t in n.targets:
                        changed |= bind_targets(t)
                elif isinstance(n, ast.AnnAssign) and n.value is not None and is_tainted(n.value):
                    changed |= bind_targets(n.target)
                elif isinstance(n, ast.AugAssign) and is_tainted(n.value):
                    changed |= bind_targets(n.target)
                elif isinstance(n, (ast.For, ast.AsyncFor)) and is_tainted(n.iter):
                    changed |= bind_targets(n.target)
                elif isinstance(n, ast.comprehension) and is_tainted(n.iter):
                    changed |= bind_targets(n.target)
                elif isinstance(n, ast.NamedExpr) and is_tainted(n.value):
                    changed |= bind_targets(n.target)
                elif isinstance(n, ast.Call) and isinstance(n.func, ast.Attribute) and n.func.attr in ("append", "extend", "add", "insert"):
                    if any(is_tainted(a) for a in n.args):
                        changed |= bind_targets(n.func.value)
                elif isinstance(n, (ast.With, ast.AsyncWith)):
                    for item in n.items:
                        if item.optional_vars is not None and is_tainted(item.context_expr):
                            changed |= bind_targets(item.optional_vars)

        # record operations on tainted values
        reaches = False
        for n in body:
            if isinstance(n, ast.Call):
                f = n.func
                if isinstance(f, ast.Attribute) and is_tainted(f.value):
                    self.ops.append(Op("method", f".{f.attr}({', '.join(_norm(a) for a in n.args)})", f.attr, n, fi,
                                       tuple(_norm(a) for a in n.args)))
                targs = [a for a in n.args if is_tainted(a.value if isinstance(a, ast.Starred) else a)]
                tkw = [k for k in n.keywords if is_tainted(k.value)]
                if targs or tkw:
                    t = self.prog.resolve_call(fi, n)
                    name = t[0].qual if isinstance(t, list) else (t if isinstance(t, str) else _norm(f))
                    callees = t if isinstance(t, list) else self.prog.dispatch_targets(fi, n)
                    if isinstance(f, ast.Attribute) and not isinstance(t, list) and not callees:
                        # method call with a tainted argument: "sep".join(x), template.format(x), re.sub(p, r, x)
                        is_module_func = isinstance(t, str) and not t.startswith("?") and "." in t and isinstance(f.value, ast.Name) \
                            and t.split(".")[0] == f.value.id
                        self.ops.append(Op("call", f"{_norm(f)}(·)", t if is_module_func else f.attr, n, fi,
                                           tuple(_norm(a) for a in n.args)))
                    elif not callees:
                        self.ops.append(Op("call", f"{name}(·)", name, n, fi, tuple(_norm(a) for a in n.args)))
                    if callees and depth < self.max_depth and len(callees) == 1:
                        callee = callees[0]
                        binding = bind_call(callee, n)
                        tparams = {p for p, a in binding.items() if not p.startswith("*") and is_tainted(a)}
                        key = (callee.qual, frozenset(tparams))
                        if tparams:
                            def pred(e: ast.AST, _tp=tparams) -> bool:
                                return isinstance(e, ast.Name) and e.id in _tp
                            if key not in self._done:
                                self._done.add(key)
                                r = self.run(callee, pred, depth + 1)
                                self.reaches_return[callee.qual + "|" + ",".join(sorted(tparams))] = r
                            self.ops.append(Op("call", f"{callee.qual}(·)", callee.qual, n, fi))
                if base is not None and depth < self.max_depth:
                    # the element object itself is handed to a helper: the field is a source there too
                    def unwrap(a: ast.AST) -> ast.AST:
                        while isinstance(a, ast.Call) and isinstance(a.func, ast.Name) and a.func.id == "cast" and len(a.args) == 2:
                            a = a.args[1]
                        return a
                    t = self.prog.resolve_call(fi, n)
                    if isinstance(t, list) and len(t) == 1:
                        binding = bind_call(t[0], n)
                        for p, a in binding.items():
                            a = unwrap(a)
                            if isinstance(a, ast.Name) and a.id == base[0] and not p.startswith("*"):
                                key = (t[0].qual, frozenset({f"{p}.{base[1]}"}))
                                if key not in self._done:
                                    self._done.add(key)
                                    r = self.run_field(t[0], p, base[1], depth + 1)
                                    self.reaches_return[t[0].qual + "|" + p + "." + base[1]] = r
            elif isinstance(n, ast.Subscript) and isinstance(n.ctx, ast.Load) and is_tainted(n.value):
                self.ops.append(Op("subscript", f"[{_norm(n.slice)}]", "[]", n, fi, (_norm(n.slice),)))
            elif isinstance(n, ast.Return) and n.value is not None and is_tainted(n.value):
                reaches = True
        self.reaches_return[fi.qual] = reaches
        return reaches
