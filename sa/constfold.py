"""Evaluator for module-level constants: strings, tuples, dataclass records, compiled regexes.

Only literal structure is interpreted (f-strings, +, "sep".join over constant tuples, re.escape of a constant,
single-return helper functions with constant arguments, dataclass construction, re.compile / regex.compile).
Anything else is `Unknown`, and a rule that needs the value reports an analysis error instead of guessing.
"""

from __future__ import annotations

import ast
import re
from dataclasses import dataclass

from .loader import ClassInfo, ConstInfo, FuncInfo, ImportRef, Module, Repo


class Unknown(Exception):
    pass


@dataclass
class RegexConst:
    pattern: str
    flags: int
    module: str = "re"  # "re" | "regex"
    name: str = ""


@dataclass
class Record:
    cls: str
    fields: dict[str, object]


FLAG_NAMES = {
    "DOTALL": re.DOTALL, "S": re.DOTALL, "MULTILINE": re.MULTILINE, "M": re.MULTILINE, "IGNORECASE": re.IGNORECASE,
    "I": re.IGNORECASE, "VERBOSE": re.VERBOSE, "X": re.VERBOSE, "ASCII": re.ASCII, "A": re.ASCII, "UNICODE": re.UNICODE, "U": re.UNICODE,
}


class Folder:
    def __init__(self, repo: Repo) -> None:
        self.repo = repo
        self._cache: dict[str, object] = {}
        self._busy: set[str] = set()

    def const(self, qual: str):
        """Value of a module-level constant 'module:name'."""
        if qual in self._cache:
            return self._cache[qual]
        if qual in self._busy:
            raise Unknown(f"cyclic constant {qual}")
        mod_name, _, name = qual.partition(":")
        mod = self.repo.modules.get(mod_name)
        if mod is None:
            raise Unknown(f"constant {qual}: module not in the repository")
        d = mod.defs.get(name)
        if not isinstance(d, ConstInfo) or d.value is None:
            # imported from the module it was moved to?
            r = self.repo.lookup(name, mod, None) if d is None or not isinstance(d, ConstInfo) else None
            if isinstance(r, ConstInfo) and r.value is not None and r.module is not mod:
                return self.const(r.qual)
            raise Unknown(f"{qual} is not a module-level constant")
        if len(d.assigns) != 1:
            raise Unknown(f"{qual} is assigned {len(d.assigns)} times")
        self._busy.add(qual)
        try:
            v = self.eval(d.value, mod, {})
        finally:
            self._busy.discard(qual)
        if isinstance(v, RegexConst):
            v.name = qual
        self._cache[qual] = v
        return v

    def eval(self, e: ast.AST, mod: Module, env: dict[str, object], func: FuncInfo | None = None):
        if isinstance(e, ast.Constant):
            return e.value
        if isinstance(e, ast.Name):
            if e.id in env:
                return env[e.id]
            r = self.repo.lookup(e.id, mod, func)
            if isinstance(r, ConstInfo):
                return self.const(r.qual)
            if isinstance(r, (FuncInfo, ClassInfo)):
                return r
            if isinstance(r, ImportRef):
                return ("ext", r.dotted())
            if e.id in ("len", "str", "int", "tuple", "list", "zip", "enumerate", "range", "sorted", "reversed", "frozenset", "set", "dict"):
                return ("builtin", e.id)
            raise Unknown(f"name {e.id}")
        if isinstance(e, ast.JoinedStr):
            out = ""
            for part in e.values:
                if isinstance(part, ast.Constant):
                    out += str(part.value)
                elif isinstance(part, ast.FormattedValue):
                    if part.format_spec is not None or part.conversion != -1:
                        raise Unknown("format spec in f-string")
                    v = self.eval(part.value, mod, env, func)
                    if not isinstance(v, (str, int)):
                        raise Unknown("non-string f-string part")
                    out += str(v)
            return out
        if isinstance(e, ast.BinOp):
            if isinstance(e.op, ast.Add):
                a, b = self.eval(e.left, mod, env, func), self.eval(e.right, mod, env, func)
                if isinstance(a, str) and isinstance(b, str):
                    return a + b
                if isinstance(a, (tuple, list)) and isinstance(b, (tuple, list)):
                    return tuple(a) + tuple(b)
                if isinstance(a, int) and isinstance(b, int):
                    return a + b
            if isinstance(e.op, ast.BitOr):
                a, b = self.eval(e.left, mod, env, func), self.eval(e.right, mod, env, func)
                if isinstance(a, int) and isinstance(b, int):
                    return a | b
            if isinstance(e.op, ast.Mod):
                a, b = self.eval(e.left, mod, env, func), self.eval(e.right, mod, env, func)
                if isinstance(a, str) and isinstance(b, (str, tuple)):
                    return a % b
            raise Unknown(f"operator in {ast.unparse(e)[:60]}")
        if isinstance(e, (ast.Tuple, ast.List)):
            return tuple(self.eval(x, mod, env, func) for x in e.elts)
        if isinstance(e, ast.Set):
            return frozenset(self.eval(x, mod, env, func) for x in e.elts)
        if isinstance(e, ast.Dict):
            return {self.eval(k, mod, env, func): self.eval(v, mod, env, func) for k, v in zip(e.keys, e.values) if k is not None}
        if isinstance(e, ast.Attribute):
            base = self.eval(e.value, mod, env, func)
            if isinstance(base, Record):
                if e.attr in base.fields:
                    return base.fields[e.attr]
                raise Unknown(f"record has no field {e.attr}")
            if isinstance(base, RegexConst):
                if e.attr == "pattern":
                    return base.pattern
                if e.attr == "flags":
                    return base.flags
            if isinstance(base, tuple) and base and base[0] == "ext":
                dotted = f"{base[1]}.{e.attr}"
                if base[1] in ("re", "regex") and e.attr in FLAG_NAMES:
                    return FLAG_NAMES[e.attr]
                # repo module referenced through an import
                if base[1] in self.repo.modules and e.attr in self.repo.modules[base[1]].defs:
                    d = self.repo.modules[base[1]].defs[e.attr]
                    if isinstance(d, ConstInfo):
                        return self.const(d.qual)
                    return d
                return ("ext", dotted)
            raise Unknown(f"attribute {ast.unparse(e)[:60]}")
        if isinstance(e, ast.Call):
            return self._call(e, mod, env, func)
        if isinstance(e, (ast.GeneratorExp, ast.ListComp)):
            if len(e.generators) != 1 or e.generators[0].ifs:
                raise Unknown("comprehension shape")
            g = e.generators[0]
            it = self.eval(g.iter, mod, env, func)
            if not isinstance(it, (tuple, list)):
                raise Unknown("comprehension over non-constant")
            out_c = []
            for x in it:
                out_c.append(self.eval(e.elt, mod, {**env, **self._bind_target(g.target, x)}, func))
            return tuple(out_c)
        if isinstance(e, ast.Subscript):
            base = self.eval(e.value, mod, env, func)
            idx = self.eval(e.slice, mod, env, func) if not isinstance(e.slice, ast.Slice) else None
            if isinstance(base, (tuple, str, dict)) and idx is not None:
                try:
                    return base[idx]  # type: ignore[index]
                except Exception as ex:  # noqa: BLE001
                    raise Unknown(str(ex)) from ex
        if isinstance(e, ast.UnaryOp) and isinstance(e.op, ast.USub):
            v = self.eval(e.operand, mod, env, func)
            if isinstance(v, int):
                return -v
        raise Unknown(f"expression {ast.unparse(e)[:60]}")

    def _call(self, e: ast.Call, mod: Module, env: dict[str, object], func: FuncInfo | None):
        f = e.func
        # "sep".join(...)
        if isinstance(f, ast.Attribute) and f.attr == "join" and len(e.args) == 1:
            sep = self.eval(f.value, mod, env, func)
            seq = self.eval(e.args[0], mod, env, func)
            if isinstance(sep, str) and isinstance(seq, (tuple, list)) and all(isinstance(x, str) for x in seq):
                return sep.join(seq)
            raise Unknown("join of non-constant")
        if isinstance(f, ast.Attribute) and f.attr in ("replace", "lower", "upper", "strip") and isinstance(f.value, ast.Constant):
            args = [self.eval(a, mod, env, func) for a in e.args]
            return getattr(f.value.value, f.attr)(*args)
        if isinstance(f, ast.Attribute) and f.attr == "format" and not any(k.arg is None for k in e.keywords):
            tmpl = self.eval(f.value, mod, env, func)
            if isinstance(tmpl, str):
                args = [self.eval(a, mod, env, func) for a in e.args]
                kws = {k.arg: self.eval(k.value, mod, env, func) for k in e.keywords}
                if all(isinstance(x, (str, int)) for x in list(args) + list(kws.values())):
                    return tmpl.format(*args, **kws)
            raise Unknown("format of non-constant")
        target = self.eval(f, mod, env, func)
        if isinstance(target, tuple) and target[0] == "ext":
            name = target[1]
            if name in ("re.compile", "regex.compile"):
                pat = self.eval(e.args[0], mod, env, func)
                flags = 0
                if len(e.args) > 1:
                    flags = self.eval(e.args[1], mod, env, func)
                for kw in e.keywords:
                    if kw.arg == "flags":
                        flags = self.eval(kw.value, mod, env, func)
                if not isinstance(pat, str) or not isinstance(flags, int):
                    raise Unknown("re.compile of non-constant")
                return RegexConst(pat, flags, name.split(".")[0])
            if name == "re.escape":
                s = self.eval(e.args[0], mod, env, func)
                if isinstance(s, str):
                    return re.escape(s)
            if name in ("builtins.frozenset", "frozenset"):
                return frozenset(self.eval(e.args[0], mod, env, func)) if e.args else frozenset()
            raise Unknown(f"call of external {name}")
        if isinstance(target, tuple) and target[0] == "builtin":
            args = [self.eval(a, mod, env, func) for a in e.args]
            if target[1] == "len":
                return len(args[0])  # type: ignore[arg-type]
            if target[1] in ("tuple", "list"):
                return tuple(args[0]) if args else ()  # type: ignore[arg-type]
            if target[1] == "zip" and all(isinstance(a, (tuple, list)) for a in args):
                return tuple(zip(*args))
            if target[1] == "enumerate" and args and isinstance(args[0], (tuple, list)):
                start = args[1] if len(args) > 1 and isinstance(args[1], int) else 0
                for kw in e.keywords:
                    if kw.arg == "start":
                        start = self.eval(kw.value, mod, env, func)  # type: ignore[assignment]
                return tuple(enumerate(args[0], start))  # type: ignore[arg-type]
            if target[1] == "range" and all(isinstance(a, int) for a in args) and 1 <= len(args) <= 3:
                return tuple(range(*args))  # type: ignore[arg-type]
            if target[1] in ("frozenset", "set"):
                return frozenset(args[0]) if args else frozenset()  # type: ignore[arg-type]
            if target[1] == "str":
                return str(args[0])
        if isinstance(target, ClassInfo):
            # dataclass construction -> record
            fields = [st.target.id for st in target.node.body if isinstance(st, ast.AnnAssign) and isinstance(st.target, ast.Name)]
            vals: dict[str, object] = {}
            for i, a in enumerate(e.args):
                if i < len(fields):
                    vals[fields[i]] = self.eval(a, mod, env, func)
            for kw in e.keywords:
                if kw.arg:
                    vals[kw.arg] = self.eval(kw.value, mod, env, func)
            return Record(target.qual, vals)
        if isinstance(target, FuncInfo) and not isinstance(target.node, ast.Lambda):
            body = [st for st in target.node.body if not (isinstance(st, ast.Expr) and isinstance(st.value, ast.Constant))]
            if len(body) == 1 and isinstance(body[0], ast.Return) and body[0].value is not None:
                params = [a.arg for a in target.node.args.args]
                new_env: dict[str, object] = {}
                for i, a in enumerate(e.args):
                    new_env[params[i]] = self.eval(a, mod, env, func)
                for kw in e.keywords:
                    if kw.arg:
                        new_env[kw.arg] = self.eval(kw.value, mod, env, func)
                return self.eval(body[0].value, target.module, new_env, target)
            raise Unknown(f"helper {target.qual} is not a single-return function")
        raise Unknown(f"call {ast.unparse(e)[:60]}")

    def _bind_target(self, target: ast.AST, value) -> dict[str, object]:
        if isinstance(target, ast.Name):
            return {target.id: value}
        if isinstance(target, (ast.Tuple, ast.List)) and isinstance(value, (tuple, list)) and len(target.elts) == len(value):
            out: dict[str, object] = {}
            for t, v in zip(target.elts, value):
                out.update(self._bind_target(t, v))
            return out
        raise Unknown("comprehension target shape")

    # --------------------------------------------------------------- discovery
    def all_regex_constants(self) -> dict[str, RegexConst]:
        """Every module-level regex constant of the repository that folds."""
        out: dict[str, RegexConst] = {}
        self.unfolded: dict[str, str] = {}
        for mod in self.repo.modules.values():
            for name, d in mod.defs.items():
                if isinstance(d, ConstInfo) and d.value is not None:
                    txt = ast.unparse(d.value)
                    if "compile(" not in txt:
                        continue
                    try:
                        v = self.const(d.qual)
                    except Unknown as ex:
                        self.unfolded[d.qual] = str(ex)
                        continue
                    if isinstance(v, RegexConst):
                        out[d.qual] = v
        return out
