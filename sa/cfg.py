"""Statement-level control-flow graph for the statement kinds the repository uses.

Nodes
-----
entry / exit / raise     virtual
stmt                     a simple statement (ast.stmt)
test                     the condition of an if / while (ast.expr, owner = the If/While)
for                      loop header of a for statement (binds the target from the iterable)
with                     entry of a with statement (evaluates items, binds `as` targets)
withexit                 normal exit of a with body (the context manager's __exit__)
except                   entry of an exception handler (binds the name)

Edges carry a label: "" | "T" | "F" | "iter" | "done" | "exc".
`return` goes to exit, `raise` to the innermost enclosing handler set or to raise.
Every statement inside a try body additionally gets an "exc" edge to each handler
(any statement may raise) - conservative for must-pass-through rules.
"""

from __future__ import annotations

import ast
from dataclasses import dataclass, field


@dataclass(eq=False)
class Node:
    id: int
    kind: str
    ast: ast.AST | None = None
    owner: ast.AST | None = None  # If/While for tests, With for withexit
    succ: list[tuple["Node", str]] = field(default_factory=list)
    pred: list[tuple["Node", str]] = field(default_factory=list)

    def __repr__(self) -> str:
        txt = ""
        if self.ast is not None:
            try:
                txt = " ".join(ast.unparse(self.ast).split())[:70]
            except Exception:
                txt = type(self.ast).__name__
        return f"<{self.id}:{self.kind} {txt}>"

    @property
    def lineno(self) -> int:
        return getattr(self.ast, "lineno", 0) if self.ast is not None else 0

    def text(self) -> str:
        if self.ast is None:
            return self.kind
        t = " ".join(ast.unparse(self.ast).split())
        if self.kind == "test":
            return f"if {t}"
        if self.kind == "for":
            a = self.ast
            return f"for {ast.unparse(a.target)} in {' '.join(ast.unparse(a.iter).split())}"  # type: ignore[attr-defined]
        if self.kind == "with":
            return "with " + ", ".join(" ".join(ast.unparse(i).split()) for i in self.ast.items)  # type: ignore[attr-defined]
        if self.kind == "withexit":
            return "end-with"
        return t[:200]


class CFG:
    def __init__(self, func_node: ast.AST) -> None:
        self.func_node = func_node
        self.nodes: list[Node] = []
        self.entry = self._new("entry")
        self.exit = self._new("exit")
        self.raise_exit = self._new("raise")
        self.node_of_stmt: dict[ast.AST, Node] = {}
        self._loop_stack: list[tuple[Node, list[tuple[Node, str]]]] = []  # (head, break-frontier)
        self._handler_stack: list[list[Node]] = []
        body = func_node.body if not isinstance(func_node, ast.Lambda) else [ast.Return(value=func_node.body)]
        if isinstance(func_node, ast.Lambda):
            ast.copy_location(body[0], func_node.body)
        out = self._build(body, [(self.entry, "")])
        for n, lab in out:
            self._edge(n, self.exit, lab)

    # ------------------------------------------------------------ construction
    def _new(self, kind: str, node: ast.AST | None = None, owner: ast.AST | None = None) -> Node:
        n = Node(len(self.nodes), kind, node, owner)
        self.nodes.append(n)
        return n

    def _edge(self, a: Node, b: Node, label: str = "") -> None:
        if (b, label) not in a.succ:
            a.succ.append((b, label))
            b.pred.append((a, label))

    def _connect(self, preds: list[tuple[Node, str]], n: Node) -> None:
        for p, lab in preds:
            self._edge(p, n, lab)

    def _exc_edges(self, n: Node) -> None:
        if self._handler_stack:
            for h in self._handler_stack[-1]:
                self._edge(n, h, "exc")

    def _build(self, stmts: list[ast.stmt], preds: list[tuple[Node, str]]) -> list[tuple[Node, str]]:
        for st in stmts:
            preds = self._stmt(st, preds)
        return preds

    def _stmt(self, st: ast.stmt, preds: list[tuple[Node, str]]) -> list[tuple[Node, str]]:
        if isinstance(st, ast.If):
            t = self._new("test", st.test, st)
            self.node_of_stmt[st] = t
            self._connect(preds, t)
            self._exc_edges(t)
            out_t = self._build(st.body, [(t, "T")])
            out_f = self._build(st.orelse, [(t, "F")]) if st.orelse else [(t, "F")]
            return out_t + out_f
        if isinstance(st, ast.While):
            t = self._new("test", st.test, st)
            self.node_of_stmt[st] = t
            self._connect(preds, t)
            self._exc_edges(t)
            brk: list[tuple[Node, str]] = []
            self._loop_stack.append((t, brk))
            out_body = self._build(st.body, [(t, "T")])
            self._loop_stack.pop()
            for n, lab in out_body:
                self._edge(n, t, lab)
            is_true = isinstance(st.test, ast.Constant) and bool(st.test.value)
            out: list[tuple[Node, str]] = [] if is_true else [(t, "F")]
            if st.orelse:
                out = self._build(st.orelse, out)
            return out + brk
        if isinstance(st, (ast.For, ast.AsyncFor)):
            h = self._new("for", st, st)
            self.node_of_stmt[st] = h
            self._connect(preds, h)
            self._exc_edges(h)
            brk = []
            self._loop_stack.append((h, brk))
            out_body = self._build(st.body, [(h, "iter")])
            self._loop_stack.pop()
            for n, lab in out_body:
                self._edge(n, h, lab)
            out = [(h, "done")]
            if st.orelse:
                out = self._build(st.orelse, out)
            return out + brk
        if isinstance(st, (ast.With, ast.AsyncWith)):
            w = self._new("with", st, st)
            self.node_of_stmt[st] = w
            self._connect(preds, w)
            self._exc_edges(w)
            out_body = self._build(st.body, [(w, "")])
            x = self._new("withexit", st, st)
            self._connect(out_body, x)
            return [(x, "")]
        if isinstance(st, ast.Try) or type(st).__name__ == "TryStar":
            handlers = [self._new("except", h, st) for h in st.handlers]
            self._handler_stack.append(handlers)
            out_body = self._build(st.body, preds)
            self._handler_stack.pop()
            if st.orelse:
                out_body = self._build(st.orelse, out_body)
            outs = list(out_body)
            for hn, h in zip(handlers, st.handlers):
                self._exc_edges(hn)
                outs += self._build(h.body, [(hn, "")])
            if st.finalbody:
                outs = self._build(st.finalbody, outs)
            return outs
        if isinstance(st, ast.Match):
            subj = self._new("stmt", ast.Expr(value=st.subject), st)
            self.node_of_stmt[st] = subj
            self._connect(preds, subj)
            tests = [_case_test(st.subject, case) for case in st.cases]
            if all(t is not None for t in tests):
                # value patterns: the match is a chain of equality tests on the subject (decidable by the rules like an if/elif chain)
                outs = []
                cur: list[tuple[Node, str]] = [(subj, "")]
                for case, t in zip(st.cases, tests):
                    if isinstance(t, ast.Constant) and t.value is True:
                        outs += self._build(case.body, cur)
                        cur = []
                        break
                    tn = self._new("test", t, st)
                    self._connect(cur, tn)
                    self._exc_edges(tn)
                    outs += self._build(case.body, [(tn, "T")])
                    cur = [(tn, "F")]
                return outs + cur
            outs = []
            for case in st.cases:
                outs += self._build(case.body, [(subj, "case")])
            last = st.cases[-1] if st.cases else None
            irrefutable = last is not None and last.guard is None and isinstance(last.pattern, ast.MatchAs) and last.pattern.pattern is None
            if not irrefutable:
                outs.append((subj, "nomatch"))
            return outs
        if isinstance(st, ast.Assert):
            # assert c  ==  if not c: raise AssertionError   (what follows is guarded by c)
            t = self._new("test", st.test, st)
            self.node_of_stmt[st] = t
            self._connect(preds, t)
            if self._handler_stack:
                for h in self._handler_stack[-1]:
                    self._edge(t, h, "F")
            else:
                self._edge(t, self.raise_exit, "F")
            return [(t, "T")]
        # simple statements
        n = self._new("stmt", st)
        self.node_of_stmt[st] = n
        self._connect(preds, n)
        if isinstance(st, ast.Return):
            self._edge(n, self.exit)
            self._exc_edges(n)
            return []
        if isinstance(st, ast.Raise):
            if self._handler_stack:
                for h in self._handler_stack[-1]:
                    self._edge(n, h, "exc")
            else:
                self._edge(n, self.raise_exit)
            return []
        if isinstance(st, ast.Break):
            if self._loop_stack:
                self._loop_stack[-1][1].append((n, ""))
            return []
        if isinstance(st, ast.Continue):
            if self._loop_stack:
                self._edge(n, self._loop_stack[-1][0])
            return []
        self._exc_edges(n)
        return [(n, "")]

    # --------------------------------------------------------------- queries
    def returns(self) -> list[Node]:
        return [n for n in self.nodes if n.kind == "stmt" and isinstance(n.ast, ast.Return)]

    def reachable_from(self, src: Node, avoid: set[Node] | None = None) -> set[Node]:
        avoid = avoid or set()
        seen: set[Node] = set()
        stack = [src]
        while stack:
            n = stack.pop()
            if n in seen or n in avoid:
                continue
            seen.add(n)
            for s, _ in n.succ:
                stack.append(s)
        return seen

    def path_avoiding(self, src: Node, dst: Node, avoid: set[Node]) -> list[Node] | None:
        """A path src -> dst that touches no node of `avoid` (src/dst themselves are allowed), or None."""
        prev: dict[Node, Node | None] = {src: None}
        queue = [src]
        while queue:
            n = queue.pop(0)
            if n is dst and n is not src:
                path = []
                cur: Node | None = n
                while cur is not None:
                    path.append(cur)
                    cur = prev[cur]
                return path[::-1]
            for s, _ in n.succ:
                if s in prev:
                    continue
                if s in avoid and s is not dst:
                    continue
                prev[s] = n
                queue.append(s)
        return None

    def dominators(self) -> dict[Node, set[Node]]:
        reach = self.reachable_from(self.entry)
        nodes = [n for n in self.nodes if n in reach]
        dom: dict[Node, set[Node]] = {n: set(nodes) for n in nodes}
        dom[self.entry] = {self.entry}
        changed = True
        while changed:
            changed = False
            for n in nodes:
                if n is self.entry:
                    continue
                ps = [p for p, _ in n.pred if p in reach]
                new = set.intersection(*(dom[p] for p in ps)) if ps else set()
                new = new | {n}
                if new != dom[n]:
                    dom[n] = new
                    changed = True
        return dom

    def postdominators(self, include_raise: bool = True) -> dict[Node, set[Node]]:
        """Post-dominator sets w.r.t. a virtual end joined from exit (and raise)."""
        nodes = list(self.nodes)
        ends = [self.exit] + ([self.raise_exit] if include_raise else [])
        pdom: dict[Node, set[Node]] = {n: set(nodes) for n in nodes}
        for e in ends:
            pdom[e] = {e}
        changed = True
        while changed:
            changed = False
            for n in nodes:
                if n in ends:
                    continue
                ss = [s for s, _ in n.succ]
                if not ss:
                    new = {n}
                else:
                    new = set.intersection(*(pdom[s] for s in ss)) | {n}
                if new != pdom[n]:
                    pdom[n] = new
                    changed = True
        return pdom

    def control_deps(self) -> dict[Node, set[tuple[Node, str]]]:
        """node -> set of (branch node, edge label) it is directly control dependent on."""
        pdom = self.postdominators()
        out: dict[Node, set[tuple[Node, str]]] = {n: set() for n in self.nodes}
        for b in self.nodes:
            if len(b.succ) < 2:
                continue
            for s, lab in b.succ:
                # nodes that post-dominate s (incl. s) but do not strictly post-dominate b
                for n in pdom[s]:
                    if n is b or n not in pdom[b]:
                        out[n].add((b, lab))
                # note: pdom[s] contains s itself
        return out

    def enumerate_paths(self, src: Node, dst: Node, max_visits: int = 2, limit: int = 5000) -> list[list[Node]]:
        """Bounded path enumeration (each node visited at most max_visits times per path)."""
        out: list[list[Node]] = []
        stack: list[tuple[Node, list[Node], dict[int, int]]] = [(src, [src], {src.id: 1})]
        while stack and len(out) < limit:
            n, path, cnt = stack.pop()
            if n is dst and len(path) > 1:
                out.append(path)
                continue
            for s, _ in n.succ:
                c = cnt.get(s.id, 0)
                if c >= max_visits:
                    continue
                nc = dict(cnt)
                nc[s.id] = c + 1
                stack.append((s, path + [s], nc))
        return out


def _case_test(subject: ast.expr, case: ast.match_case) -> ast.expr | None:
    """The condition under which a `case` with a value pattern is taken, as an ordinary expression (None: pattern too rich)."""
    def pat(p: ast.pattern) -> ast.expr | None:
        if isinstance(p, ast.MatchValue):
            return ast.copy_location(ast.Compare(left=subject, ops=[ast.Eq()], comparators=[p.value]), p)
        if isinstance(p, ast.MatchSingleton):
            return ast.copy_location(ast.Compare(left=subject, ops=[ast.Is()], comparators=[ast.Constant(value=p.value)]), p)
        if isinstance(p, ast.MatchOr):
            parts = [pat(x) for x in p.patterns]
            if any(x is None for x in parts):
                return None
            return ast.copy_location(ast.BoolOp(op=ast.Or(), values=parts), p)
        if isinstance(p, ast.MatchAs) and p.pattern is None:
            return ast.copy_location(ast.Constant(value=True), p)  # `case _` / `case name`
        return None

    t = pat(case.pattern)
    if t is None:
        return None
    if case.guard is not None:
        if isinstance(case.pattern, ast.MatchAs) and case.pattern.name is not None:
            return None  # the guard talks about the captured name
        if isinstance(t, ast.Constant) and t.value is True:
            return case.guard
        return ast.copy_location(ast.BoolOp(op=ast.And(), values=[t, case.guard]), case.pattern)
    return t


def must_edges(cfg: CFG, src: Node, dst: Node, limit: int = 20000) -> set[tuple[Node, str]] | None:
    """(branch node, label) edges taken on *every* simple path src -> dst that does not revisit src.

    Used for per-iteration guards of a loop body (src = loop header): transitive control dependence is
    polluted by the back edge, the intersection over acyclic paths is not. None if dst is unreachable."""
    result: set[tuple[Node, str]] | None = None
    count = 0
    stack: list[tuple[Node, frozenset[int], tuple[tuple[Node, str], ...]]] = [(src, frozenset({src.id}), ())]
    while stack:
        n, seen, edges = stack.pop()
        for s, lab in n.succ:
            if s is dst:
                e = set(edges)
                if len(n.succ) > 1:
                    e.add((n, lab))
                result = e if result is None else (result & e)
                count += 1
                if count > limit:
                    return result
                continue
            if s.id in seen:
                continue
            ne = edges + (((n, lab),) if len(n.succ) > 1 else ())
            stack.append((s, seen | {s.id}, ne))
    if result is not None:
        # an `assert` never skips anything: its failing edge aborts the call. It is a fact for what follows (control
        # dependence, guard atoms), not a condition under which a statement "does not run".
        result = {(b, lab) for b, lab in result if not (b.kind == "test" and isinstance(b.owner, ast.Assert))}
    return result


def stmts_no_nested(body: list[ast.stmt]):
    """Yield all statements in body recursively, not descending into nested def/class/lambda."""
    for st in body:
        yield st
        if isinstance(st, (ast.FunctionDef, ast.AsyncFunctionDef, ast.ClassDef)):
            continue
        for fld in ("body", "orelse", "finalbody"):
            sub = getattr(st, fld, None)
            if isinstance(sub, list) and sub and isinstance(sub[0], ast.stmt):
                yield from stmts_no_nested(sub)
        for h in getattr(st, "handlers", []) or []:
            yield from stmts_no_nested(h.body)
        for c in getattr(st, "cases", []) or []:
            yield from stmts_no_nested(c.body)


def walk_no_nested(node: ast.AST, include_root: bool = True):
    """ast.walk that does not descend into nested function / class / lambda bodies."""
    stack = [node]
    first = True
    while stack:
        n = stack.pop()
        if not first and isinstance(n, (ast.FunctionDef, ast.AsyncFunctionDef, ast.ClassDef, ast.Lambda)):
            yield n  # the def itself is visible (as a binding), its body is not
            continue
        if include_root or not first:
            yield n
        first = False
        stack.extend(ast.iter_child_nodes(n))
